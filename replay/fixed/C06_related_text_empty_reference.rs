// replay of the defect repaired by /repo commit 8477352 (C06): copy to /repo/tests/ and run it with cargo test; it fails on the parent commit.
// Related-text search from an EMPTY reference set panics instead of returning nothing.
// The relation test of an empty set is false for every text selection (TextSelectionSet::test()
// returns false when the set is empty), so the search must simply yield no results.
// The empty set is reached through the ordinary API: Annotation::textselectionset() returns
// Some(empty set) for an annotation that references no text (e.g. a ResourceSelector target).
use stam::*;

fn store() -> AnnotationStore {
    AnnotationStore::default()
        .with_id("t")
        .with_resource(
            TextResourceBuilder::new()
                .with_id("r")
                .with_text("hello world"),
        )
        .unwrap()
        .with_annotation(
            AnnotationBuilder::new()
                .with_id("w1")
                .with_target(SelectorBuilder::textselector("r", Offset::simple(0, 5)))
                .with_data("s", "k", "v"),
        )
        .unwrap()
        .with_annotation(
            AnnotationBuilder::new()
                .with_id("meta")
                .with_target(SelectorBuilder::resourceselector("r"))
                .with_data("s", "k", "v"),
        )
        .unwrap()
}

fn operators() -> Vec<TextSelectionOperator> {
    let mut v = vec![
        TextSelectionOperator::equals(),
        TextSelectionOperator::overlaps(),
        TextSelectionOperator::embeds(),
        TextSelectionOperator::embedded(),
        TextSelectionOperator::embedded().with_limit(3),
        TextSelectionOperator::before(),
        TextSelectionOperator::after(),
        TextSelectionOperator::before().with_limit(0),
        TextSelectionOperator::after().with_limit(100),
        TextSelectionOperator::precedes(),
        TextSelectionOperator::succeeds(),
        TextSelectionOperator::precedes_exact(),
        TextSelectionOperator::succeeds_exact(),
        TextSelectionOperator::samebegin(),
        TextSelectionOperator::sameend(),
    ];
    let plain = v.clone();
    v.extend(plain.iter().map(|op| op.toggle_negate()));
    v.extend(plain.iter().map(|op| op.toggle_all()));
    v
}

/// the set of an annotation without text (reached through the high-level API only)
#[test]
fn related_text_from_textselectionset_of_annotation_without_text() {
    let store = store();
    let meta = store.annotation("meta").unwrap();
    assert_eq!(
        meta.textselections().count(),
        0,
        "the annotation references no text"
    );
    for op in operators() {
        let result = std::panic::catch_unwind(|| {
            match meta.textselectionset() {
                //None is fine too: the annotation has no text
                None => 0,
                Some(set) => {
                    assert_eq!(set.len(), 0);
                    set.related_text(op).count()
                }
            }
        });
        assert!(
            result.is_ok(),
            "related_text({:?}) from the (empty) text selection set of an annotation without text must not panic",
            op
        );
        assert_eq!(
            result.unwrap(),
            0,
            "nothing is related to an empty reference set (operator {:?})",
            op
        );
    }
}

/// the same with an explicitly constructed empty set
#[test]
fn related_text_from_empty_set() {
    let store = store();
    let resource = store.resource("r").unwrap();
    let known: Vec<_> = resource.textselections().collect();
    for op in operators() {
        //the reference: no known text selection tests true against the empty set
        let set = TextSelectionSet::new(resource.handle()).as_resultset(&store);
        let expected = known.iter().filter(|ts| set.test(&op, ts)).count();
        assert_eq!(expected, 0);
        let result = std::panic::catch_unwind(|| {
            TextSelectionSet::new(resource.handle())
                .as_resultset(&store)
                .related_text(op)
                .count()
        });
        assert!(
            result.is_ok(),
            "related_text({:?}) from an empty reference set must not panic but return nothing",
            op
        );
        assert_eq!(result.unwrap(), expected, "operator {:?}", op);
    }
}

// replay of the defect repaired by /repo commit d08ebd5 (C06): copy to /repo/tests/ and run it with cargo test; it fails on the parent commit.
use stam::*;
use std::panic::{catch_unwind, AssertUnwindSafe};

#[test]
fn inverted_position_ranges_do_not_panic() {
    let mut store = AnnotationStore::new(Config::default())
        .with_id("s")
        .with_resource(TextResourceBuilder::new().with_id("r").with_text("aé€𝄞"))
        .unwrap()
        .with_dataset(AnnotationDataSetBuilder::new().with_id("d"))
        .unwrap();
    store
        .annotate(
            AnnotationBuilder::new()
                .with_id("a")
                .with_target(SelectorBuilder::textselector("r", Offset::simple(1, 3)))
                .with_data("d", "k", "v"),
        )
        .unwrap();
    let resource = store.resource("r").unwrap();

    // an empty range is fine
    assert_eq!(resource.textselections_in_range(3, 3).count(), 0);

    // a range that ends before it begins holds nothing (text_by_offset()/textselection() return an error for such an offset)
    let result = catch_unwind(AssertUnwindSafe(|| {
        resource.textselections_in_range(3, 1).count()
    }));
    assert!(
        result.is_ok(),
        "textselections_in_range(3, 1) must not panic on a range that ends before it begins"
    );
    assert_eq!(result.unwrap(), 0);

    let result = catch_unwind(AssertUnwindSafe(|| {
        resource
            .as_ref()
            .positions_in_range(PositionMode::Both, 3, 1)
            .count()
    }));
    assert!(
        result.is_ok(),
        "positions_in_range(Both, 3, 1) must not panic on a range that ends before it begins"
    );
    assert_eq!(result.unwrap(), 0);

    let result = catch_unwind(AssertUnwindSafe(|| {
        resource.as_ref().range(3, 1).count()
    }));
    assert!(
        result.is_ok(),
        "TextResource::range(3, 1) must not panic on a range that ends before it begins"
    );
    assert_eq!(result.unwrap(), 0);

    let result = catch_unwind(AssertUnwindSafe(|| {
        resource.segmentation_in_range(3, 1).count()
    }));
    assert!(
        result.is_ok(),
        "segmentation_in_range(3, 1) must not panic on a range that ends before it begins"
    );
    assert_eq!(result.unwrap(), 0);
}

// replay of the defect repaired by /repo commit 6fa4340 (C12): copy to /repo/tests/ and run it with cargo test; it fails on the parent commit.
// Inserting a TextResource into a store re-creates the milestones (TextResource::initialize ->
// create_milestones) with BTreeMap::insert, which REPLACES the position index entry of every
// milestone position by an empty one. A resource that already carries text selections (built
// standalone, or cloned out of another store) thereby loses every text selection that begins or
// ends on a milestone position from its position index: lookups and sorted iteration no longer
// find them. Whether this happens depends only on Config::milestone_interval, which is supposed
// to be a performance-only setting (with interval 0 nothing is lost).
use stam::*;

const TEXT: &str = "aé€😀aé€😀"; // 8 codepoints, 1-4 bytes each

fn run(interval: usize) {
    // a store with one annotated resource
    let mut store1 = AnnotationStore::new(Config::default().with_milestone_interval(interval))
        .with_resource(TextResourceBuilder::new().with_id("r").with_text(TEXT))
        .unwrap();
    for (b, e) in [(2usize, 6usize), (1, 3), (4, 8)] {
        store1
            .annotate(
                AnnotationBuilder::new()
                    .with_target(SelectorBuilder::textselector("r", Offset::simple(b, e)))
                    .with_data("set", "key", "value"),
            )
            .unwrap();
    }
    let original: &TextResource = store1.get("r").unwrap();
    let expected: Vec<(usize, usize)> = original.iter().map(|t| (t.begin(), t.end())).collect();
    assert_eq!(expected, vec![(1, 3), (2, 6), (4, 8)]);
    let expected_handle = original.known_textselection(&Offset::simple(2, 6)).unwrap();
    assert!(expected_handle.is_some());

    // copy the resource (text + its text selections) into a second store
    let copy = original.clone().unbind();
    let mut store2 = AnnotationStore::new(Config::default().with_milestone_interval(interval));
    store2.insert(copy).unwrap();
    let copied: &TextResource = store2.get("r").unwrap();

    assert_eq!(
        copied.textselections_len(),
        3,
        "milestone_interval={}: the copy still holds the three text selections",
        interval
    );
    let got: Vec<(usize, usize)> = copied.iter().map(|t| (t.begin(), t.end())).collect();
    assert_eq!(
        got, expected,
        "milestone_interval={}: sorted iteration over the text selections of the inserted resource must give the same selections as before the insertion, whatever the milestone interval",
        interval
    );
    let expected_rev: Vec<(usize, usize)> =
        original.iter().rev().map(|t| (t.begin(), t.end())).collect();
    let got_rev: Vec<(usize, usize)> = copied.iter().rev().map(|t| (t.begin(), t.end())).collect();
    assert_eq!(
        got_rev, expected_rev,
        "milestone_interval={}: backward iteration over the text selections of the inserted resource must give the same selections as before the insertion, whatever the milestone interval",
        interval
    );
    assert_eq!(
        copied.known_textselection(&Offset::simple(2, 6)).unwrap(),
        expected_handle,
        "milestone_interval={}: known_textselection(2,6) must still find the text selection after the resource was inserted into a store",
        interval
    );
    let res = store2.resource("r").unwrap();
    assert!(
        res.textselection(&Offset::simple(2, 6)).unwrap().handle().is_some(),
        "milestone_interval={}: textselection(2,6) must be returned as the known (bound) text selection",
        interval
    );
}

#[test]
fn insertion_keeps_position_index_interval_0() {
    run(0);
}

#[test]
fn insertion_keeps_position_index_interval_100() {
    run(100);
}

#[test]
fn insertion_keeps_position_index_interval_1() {
    run(1);
}

#[test]
fn insertion_keeps_position_index_interval_2() {
    run(2);
}

#[test]
fn insertion_keeps_position_index_interval_3() {
    run(3);
}

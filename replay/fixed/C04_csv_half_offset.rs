// replay of the defect repaired by /repo commit 7a32e00 (C04): copy to /repo/tests/ and run it with cargo test; it fails on the parent commit.
// STAM CSV: an AnnotationSelector row that gives only one of BeginOffset / EndOffset is accepted and
// the half offset is silently dropped: the annotation is created as if no offset had been given
// (it then has no text at all). The same half offset is refused when the AnnotationSelector is a
// subselector of a complex selector, and a TextSelector row refuses it too.
use stam::*;
use std::path::PathBuf;

fn write_store(name: &str, annotation_rows: &str) -> PathBuf {
    let dir = std::env::temp_dir().join(format!("stam_demo_bug4_{}_{}", std::process::id(), name));
    let _ = std::fs::remove_dir_all(&dir);
    std::fs::create_dir_all(&dir).unwrap();
    std::fs::write(
        dir.join("s.store.stam.csv"),
        "Type,Id,Filename\nAnnotationStore,s,s.annotations.stam.csv\nTextResource,r,r.txt\nAnnotationDataSet,ds,ds.annotationset.stam.csv\n",
    )
    .unwrap();
    std::fs::write(dir.join("r.txt"), "héllo wörld").unwrap();
    std::fs::write(dir.join("ds.annotationset.stam.csv"), "Id,Key,Value\nd,k,v\n").unwrap();
    std::fs::write(
        dir.join("s.annotations.stam.csv"),
        format!(
            "Id,AnnotationData,AnnotationDataSet,SelectorType,TargetResource,TargetAnnotation,TargetDataSet,BeginOffset,EndOffset,TargetKey,TargetData\n\
             A1,d,ds,TextSelector,r,,,6,-0,,\n{}",
            annotation_rows
        ),
    )
    .unwrap();
    dir
}

fn load(dir: &PathBuf) -> Result<AnnotationStore, StamError> {
    let result = AnnotationStore::from_file(
        dir.join("s.store.stam.csv").to_str().unwrap(),
        Config::default(),
    );
    let _ = std::fs::remove_dir_all(dir);
    result
}

#[test]
fn sanity_full_offsets_work() {
    let dir = write_store("ok", "A2,d,ds,AnnotationSelector,,A1,,-4,-1,,\nA3,d,ds,AnnotationSelector,,A1,,,,,\n");
    let store = load(&dir).expect("valid rows must load");
    assert_eq!(store.annotation("A1").unwrap().text_simple(), Some("wörld"));
    assert_eq!(store.annotation("A2").unwrap().text_simple(), Some("örl"));
    assert_eq!(
        store.annotation("A2").unwrap().as_ref().target().offset(&store),
        Some(Offset::new(Cursor::EndAligned(-4), Cursor::EndAligned(-1)))
    );
    // no offset at all: the annotation as a whole is the target
    assert_eq!(store.annotation("A3").unwrap().as_ref().target().offset(&store), None);
}

#[test]
fn begin_without_end_is_refused() {
    let dir = write_store("beginonly", "A2,d,ds,AnnotationSelector,,A1,,1,,,\n");
    match load(&dir) {
        Err(_) => {}
        Ok(store) => {
            let a2 = store.annotation("A2").unwrap();
            panic!(
                "an AnnotationSelector row with BeginOffset=1 and no EndOffset does not denote a range and must be refused; it was accepted and the offset was dropped: offset={:?} text={:?}",
                a2.as_ref().target().offset(&store),
                a2.text().collect::<Vec<_>>()
            );
        }
    }
}

#[test]
fn end_without_begin_is_refused() {
    let dir = write_store("endonly", "A2,d,ds,AnnotationSelector,,A1,,,-2,,\n");
    match load(&dir) {
        Err(_) => {}
        Ok(store) => {
            let a2 = store.annotation("A2").unwrap();
            panic!(
                "an AnnotationSelector row with EndOffset=-2 and no BeginOffset does not denote a range and must be refused; it was accepted and the offset was dropped: offset={:?} text={:?}",
                a2.as_ref().target().offset(&store),
                a2.text().collect::<Vec<_>>()
            );
        }
    }
}

#[test]
fn same_half_offset_as_subselector_is_refused_already() {
    // for comparison: inside a complex selector the loader does refuse it
    let dir = write_store(
        "sub",
        "A2,d,ds,CompositeSelector;AnnotationSelector;TextSelector,;;r,;A1;,,;1;0,;;2,,\n",
    );
    assert!(load(&dir).is_err());
}

// replay of the defect repaired by /repo commit ad28578 (C10): copy to /repo/tests/ and run it with cargo test; it fails on the parent commit.
// Data for an annotation (or AnnotationStore::insert_data()) that names its dataset by a handle
// that does not exist is not refused: the data silently ends up in a newly created
// "default-annotationset".
use stam::*;

fn base() -> AnnotationStore {
    AnnotationStore::default()
        .with_id("test")
        .with_resource(
            TextResourceBuilder::new()
                .with_id("testres")
                .with_text("Hello world"),
        )
        .unwrap()
        .with_dataset(
            AnnotationDataSetBuilder::new()
                .with_id("testdataset")
                .with_key_value_id("pos", "noun", "D1"),
        )
        .unwrap()
}

fn datasets(store: &AnnotationStore) -> Vec<String> {
    store
        .datasets()
        .map(|set| {
            format!(
                "{:?} {:?} keys={} data={}",
                set.handle(),
                set.id(),
                set.keys().count(),
                set.data().count()
            )
        })
        .collect()
}

#[test]
fn unknown_dataset_handle_is_refused() {
    let mut store = base();
    let before = datasets(&store);
    assert!(store.dataset(AnnotationDataSetHandle::new(99)).is_none());

    let result = store.annotate(
        AnnotationBuilder::new()
            .with_id("A2")
            .with_target(SelectorBuilder::resourceselector("testres"))
            .with_data(AnnotationDataSetHandle::new(99), "pos", "verb"),
    );
    assert!(
        result.is_err(),
        "dataset 99 does not exist, the annotation must be refused (unknown dataset), got {:?}",
        result
    );
    assert!(
        store.dataset("default-annotationset").is_none(),
        "a dataset nobody asked for has appeared"
    );
    assert_eq!(datasets(&store), before, "the datasets must be what they were");
    assert!(store.annotation("A2").is_none(), "the annotation must not exist");
}

#[test]
fn insert_data_with_unknown_dataset_handle_is_refused() {
    let mut store = base();
    let before = datasets(&store);
    let result = store.insert_data(
        AnnotationDataBuilder::new()
            .with_dataset(AnnotationDataSetHandle::new(99).into())
            .with_key("pos".into())
            .with_value("verb".into()),
    );
    assert!(
        result.is_err(),
        "dataset 99 does not exist, the data must be refused (unknown dataset), got {:?}",
        result
    );
    assert_eq!(datasets(&store), before, "the datasets must be what they were");
}

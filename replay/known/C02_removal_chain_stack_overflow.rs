// K9 (C02): replay of the known finding - copy to /repo/tests/ and run with cargo test; the process is aborted by a stack overflow.
// Removing an annotation that sits at the bottom (or at the top) of a long chain of
// annotations-on-annotations overflows the call stack and aborts the process.
//
// Expected: remove_annotation() succeeds whenever the annotation exists, removes exactly the
// annotations that (transitively) reference it and returns; it must not crash, whatever the
// depth of the chain is.
use stam::*;

/// a0 is on the text, a1 is on a0, a2 is on a1, ... (e.g. a thread of replies, or a chain of corrections)
fn chain(n: usize) -> Result<AnnotationStore, StamError> {
    let mut store = AnnotationStore::default()
        .with_id("test")
        .with_resource(
            TextResourceBuilder::new()
                .with_id("r")
                .with_text("Hello world"),
        )?;
    store.annotate(
        AnnotationBuilder::new()
            .with_id("a0")
            .with_target(SelectorBuilder::textselector("r", Offset::simple(0, 5)))
            .with_data("s", "type", "remark"),
    )?;
    for i in 1..n {
        store.annotate(
            AnnotationBuilder::new()
                .with_id(format!("a{}", i))
                .with_target(SelectorBuilder::annotationselector(
                    format!("a{}", i - 1),
                    None,
                ))
                .with_data("s", "type", "reply"),
        )?;
    }
    // an unrelated annotation that must survive
    store.annotate(
        AnnotationBuilder::new()
            .with_id("other")
            .with_target(SelectorBuilder::textselector("r", Offset::simple(6, 11)))
            .with_data("s", "type", "remark"),
    )?;
    Ok(store)
}

#[test]
fn remove_first_of_a_chain_of_1000() -> Result<(), StamError> {
    // on the unchanged library this aborts with "thread ... has overflowed its stack"
    // (the cascade is a recursion of remove() -> preremove() -> remove() ..., one level per annotation in the chain)
    let mut store = chain(1000)?;
    assert_eq!(store.annotations().count(), 1001);
    store
        .remove_annotation("a0")
        .expect("removing an existing annotation must succeed");
    assert!(
        store.annotation("a0").is_none(),
        "the annotation must be gone"
    );
    assert!(
        store.annotation("a999").is_none(),
        "the annotations that depend on it (transitively) must be gone"
    );
    assert_eq!(
        store.annotations().count(),
        1,
        "exactly the chain must be removed, the unrelated annotation survives"
    );
    assert_eq!(
        store
            .resource("r")
            .expect("resource")
            .annotations()
            .count(),
        1,
        "the reverse index must only list the surviving annotation"
    );
    //the store must still serialise and load
    let json = store.to_json_string(&Config::default())?;
    let store2 = AnnotationStore::from_json_str(&json, Config::default())?;
    assert_eq!(store2.annotations().count(), 1);
    Ok(())
}

#[test]
fn remove_last_of_a_chain_of_20000() -> Result<(), StamError> {
    // nothing depends on the last annotation of the chain, no cascade is needed at all; still the
    // unchanged library aborts with a stack overflow: preremove() follows the targets of the
    // targets recursively (one level per annotation in the chain) although nothing of that was indexed
    let n = 20000;
    let mut store = chain(n)?;
    store
        .remove_annotation(format!("a{}", n - 1).as_str())
        .expect("removing an existing annotation must succeed");
    assert_eq!(
        store.annotations().count(),
        n,
        "only the last annotation of the chain is removed (n-1 of the chain and the unrelated one survive)"
    );
    assert_eq!(
        store
            .annotation(format!("a{}", n - 2).as_str())
            .expect("the one but last must still exist")
            .annotations()
            .count(),
        0,
        "nothing references the one but last annotation anymore"
    );
    Ok(())
}

"""U-dataset: AnnotationDataSet as a store of keys and data with the reverse index key_data_map.
The real accessor and callback implementations are proved against the generic StoreFor contracts of
u_store, plus the dataset invariant "key -> data is exactly the live data carrying that key".
Serves C10 (vocabulary / key->data exact), C01 (index hygiene), C02 (removal), C03."""
from vx.gen import Unit, Fn
from . import common
from . import store_common as sc
from . import u_map

P = ['C10', 'C01', 'C02', 'C03']
DS = 'src/annotationdataset.rs'

OPAQUE = r'''
/// R-opaque: data values are only compared; equality is the uninterpreted relation veq
#[verifier::external_body]
pub struct DataValue { _opaque: usize }
pub uninterp spec fn veq(a: DataValue, b: DataValue) -> bool;
impl PartialEq for DataValue {
    #[verifier::external_body]
    fn eq(&self, other: &Self) -> (r: bool)
        ensures r == veq(*self, *other),
    { unimplemented!() }
}
/// the printed form of a value (Display): uninterpreted; equal values print alike, the converse does not hold
pub uninterp spec fn vstr(a: DataValue) -> Seq<char>;
impl DataValue {
    #[verifier::external_body]
    pub fn to_string(&self) -> (r: String)
        ensures r@ == vstr(*self),
    { unimplemented!() }
}
impl vstd::std_specs::cmp::PartialEqSpecImpl for DataValue {
    open spec fn obeys_eq_spec() -> bool { true }
    open spec fn eq_spec(&self, other: &Self) -> bool { veq(*self, *other) }
}
/// R-outline: stands for `OPT.as_deref()` on an Option<String>
#[verifier::external_body]
pub fn vx_as_deref(o: &Option<String>) -> (r: Option<&str>)
    ensures r is Some <==> o is Some, r is Some ==> r.unwrap()@ == o.unwrap()@,
{ o.as_deref() }
/// the executable `==` of the two item types is not interpreted: StoreFor::insert only branches on it
impl PartialEq for DataKey {
    #[verifier::external_body]
    fn eq(&self, other: &Self) -> bool { unimplemented!() }
}
impl PartialEq for AnnotationData {
    #[verifier::external_body]
    fn eq(&self, other: &Self) -> bool { unimplemented!() }
}
'''

# the tail expression `Ok(())` of a callback: proof hints go right before it, so they do not depend on the text of the statements above
TAIL_OK = r're:(?m)^ *Ok\(\(\)\)\s*\}\s*\Z'

DEDUP_HINT = '''proof {
            if result is Ok {
                let d0 = old(self).data@; let d1 = self.data@;
                assert(d1 =~= d0.push(d1.last()));
                lemma_kd_push(d0, old(self).key_data_map@, d1.last().unwrap());
            }
        }'''

VOCAB_SPEC = r"""
/// the public id a BuildItem carries, if any
pub open spec fn bi_text<'a, T: Storable>(b: BuildItem<'a, T>) -> Option<Seq<char>> {
    match b { BuildItem::Id(s) => Some(s@), BuildItem::IdRef(s) => Some(s@), _ => None }
}
/// appending a data item leaves the index exact for everything but the new item
pub proof fn lemma_kd_push(data: Seq<Option<AnnotationData>>, kdm: Seq<Seq<AnnotationDataHandle>>, item: AnnotationData)
    requires kd_wf(data, kdm),
    ensures kd_wf_except(data.push(Some(item)), kdm, Some(data.len() as int)),
{
    let d2 = data.push(Some(item));
    assert forall|k: int, j: int| 0 <= k < kdm.len() && 0 <= j < kdm[k].len() implies
        live(d2, (#[trigger] kdm[k][j]).idx() as int) && d2[kdm[k][j].idx() as int].unwrap().key.idx() == k && Some(kdm[k][j].idx() as int) != Some(data.len() as int) by {
        assert(live(data, kdm[k][j].idx() as int));
        assert(d2[kdm[k][j].idx() as int] == data[kdm[k][j].idx() as int]);
    }
    assert forall|i: int| live(d2, i) && Some(i) != Some(data.len() as int) implies ({
        let k = (#[trigger] d2[i]).unwrap().key.idx() as int;
        k < kdm.len() && exists|j: int| 0 <= j < kdm[k].len() && kdm[k][j].idx() == i }) by {
        assert(d2[i] == data[i]);
        assert(live(data, i));
    }
}
/// some live data item carries this key and an equal value
pub open spec fn has_pair(data: Seq<Option<AnnotationData>>, key: DataKeyHandle, value: DataValue) -> bool {
    exists|i: int| live(data, i) && (#[trigger] data[i]).unwrap().key.idx() == key.idx() && veq(data[i].unwrap().value, value)
}
"""

DS_SPEC = r'''
/// the reverse index restricted to what it must say, ignoring the data item `except` (if any):
///  sound:    every handle listed under key k is a live data item whose key is k
///  complete: every live data item is listed under its key
///  once:     no handle twice in a row
pub open spec fn kd_wf_except(data: Seq<Option<AnnotationData>>, kdm: Seq<Seq<AnnotationDataHandle>>, except: Option<int>) -> bool {
    (forall|k: int, j: int| 0 <= k < kdm.len() && 0 <= j < kdm[k].len() ==>
        live(data, (#[trigger] kdm[k][j]).idx() as int) && data[kdm[k][j].idx() as int].unwrap().key.idx() == k && Some(kdm[k][j].idx() as int) != except)
    && (forall|i: int| live(data, i) && Some(i) != except ==> {
        let k = (#[trigger] data[i]).unwrap().key.idx() as int;
        k < kdm.len() && exists|j: int| 0 <= j < kdm[k].len() && kdm[k][j].idx() == i })
    && (forall|k: int, j1: int, j2: int| 0 <= k < kdm.len() && 0 <= j1 < j2 < kdm[k].len() ==> (#[trigger] kdm[k][j1]).idx() != (#[trigger] kdm[k][j2]).idx())
}
pub open spec fn kd_wf(data: Seq<Option<AnnotationData>>, kdm: Seq<Seq<AnnotationDataHandle>>) -> bool { kd_wf_except(data, kdm, None) }
impl AnnotationDataSet {
    pub open spec fn kd_wf_except(&self, except: Option<int>) -> bool { kd_wf_except(self.data@, self.key_data_map@, except) }
    pub open spec fn kd_wf(&self) -> bool { kd_wf(self.data@, self.key_data_map@) }
}
'''


INS_HINT = '''
        proof {
            let pre = *old(self);
            let kdm0 = pre.key_data_map@;
            let kdm = self.key_data_map@;
            let h = handle.idx() as int;
            let k0 = pre.data@[h].unwrap().key.idx() as int;
            AnnotationDataHandle::idx_injective(handle, handle);
            if pre.kd_wf_except(Some(h)) && pre.data@[h].unwrap().spec_handle() == Some(handle) {
                assert(kdm[k0] == row_or_empty(pre.key_data_map.data@, k0).push(handle));
                assert forall|k: int, j: int| 0 <= k < kdm.len() && 0 <= j < kdm[k].len() implies
                    live(self.data@, (#[trigger] kdm[k][j]).idx() as int) && self.data@[kdm[k][j].idx() as int].unwrap().key.idx() == k by {
                    if k == k0 {
                        if j < row_or_empty(pre.key_data_map.data@, k0).len() { assert(kdm[k][j] == kdm0[k][j]); }
                    } else {
                        assert(kdm[k] == row_or_empty(pre.key_data_map.data@, k));
                        assert(kdm[k][j] == kdm0[k][j]);
                    }
                }
                assert forall|i: int| live(self.data@, i) implies ({
                    let k = (#[trigger] self.data@[i]).unwrap().key.idx() as int;
                    k < kdm.len() && exists|j: int| 0 <= j < kdm[k].len() && kdm[k][j].idx() == i }) by {
                    let k = self.data@[i].unwrap().key.idx() as int;
                    if i == h {
                        assert(kdm[k0][kdm[k0].len() - 1] == handle);
                    } else {
                        let j = choose|j: int| 0 <= j < kdm0[k].len() && kdm0[k][j].idx() == i;
                        if k == k0 { assert(kdm[k][j] == kdm0[k][j]); } else { assert(kdm[k] == row_or_empty(pre.key_data_map.data@, k)); assert(kdm[k][j] == kdm0[k][j]); }
                    }
                }
                assert forall|k: int, j1: int, j2: int| 0 <= k < kdm.len() && 0 <= j1 < j2 < kdm[k].len() implies (#[trigger] kdm[k][j1]).idx() != (#[trigger] kdm[k][j2]).idx() by {
                    if k == k0 {
                        let n = row_or_empty(pre.key_data_map.data@, k0).len();
                        if j2 < n { assert(kdm[k][j1] == kdm0[k][j1]); assert(kdm[k][j2] == kdm0[k][j2]); }
                        else if j1 < n { assert(kdm[k][j1] == kdm0[k][j1]); }
                    } else {
                        assert(kdm[k] == row_or_empty(pre.key_data_map.data@, k));
                        assert(kdm[k][j1] == kdm0[k][j1]); assert(kdm[k][j2] == kdm0[k][j2]);
                    }
                }
            }
        }
'''


REM_HINT = '''
        proof {
            let pre = *old(self);
            let kdm0 = pre.key_data_map@;
            let kdm = self.key_data_map@;
            let h = handle.idx() as int;
            let k0 = pre.data@[h].unwrap().key.idx() as int;
            if pre.kd_wf() {
                // the handle is listed under its key (complete), exactly once (once)
                let j0 = choose|j: int| 0 <= j < kdm0[k0].len() && kdm0[k0][j].idx() == h;
                AnnotationDataHandle::idx_injective(kdm0[k0][j0], handle);
                assert(kdm0[k0].contains(handle));
                let pos = choose|pos: int| 0 <= pos < kdm0[k0].len() && kdm0[k0][pos] == handle && (forall|i: int| 0 <= i < pos ==> kdm0[k0][i] != handle) && kdm[k0] == kdm0[k0].remove(pos);
                assert forall|k: int, j: int| 0 <= k < kdm.len() && 0 <= j < kdm[k].len() implies
                    live(self.data@, (#[trigger] kdm[k][j]).idx() as int) && self.data@[kdm[k][j].idx() as int].unwrap().key.idx() == k && Some(kdm[k][j].idx() as int) != Some(h) by {
                    if k == k0 {
                        let jo = if j < pos { j } else { j + 1 };
                        assert(kdm[k][j] == kdm0[k][jo]);
                        if jo < pos { assert(kdm0[k][jo].idx() != kdm0[k][pos].idx()); } else { assert(kdm0[k][pos].idx() != kdm0[k][jo].idx()); }
                    } else {
                        assert(kdm[k][j] == kdm0[k][j]);
                    }
                }
                assert forall|i: int| live(self.data@, i) && Some(i) != Some(h) implies ({
                    let k = (#[trigger] self.data@[i]).unwrap().key.idx() as int;
                    k < kdm.len() && exists|j: int| 0 <= j < kdm[k].len() && kdm[k][j].idx() == i }) by {
                    let k = self.data@[i].unwrap().key.idx() as int;
                    let j = choose|j: int| 0 <= j < kdm0[k].len() && kdm0[k][j].idx() == i;
                    if k == k0 {
                        let jn = if j < pos { j } else { j - 1 };
                        assert(kdm[k][jn] == kdm0[k][j]);
                    } else {
                        assert(kdm[k][j] == kdm0[k][j]);
                    }
                }
                assert forall|k: int, j1: int, j2: int| 0 <= k < kdm.len() && 0 <= j1 < j2 < kdm[k].len() implies (#[trigger] kdm[k][j1]).idx() != (#[trigger] kdm[k][j2]).idx() by {
                    if k == k0 {
                        let o1 = if j1 < pos { j1 } else { j1 + 1 };
                        let o2 = if j2 < pos { j2 } else { j2 + 1 };
                        assert(kdm[k][j1] == kdm0[k][o1]); assert(kdm[k][j2] == kdm0[k][o2]);
                    } else {
                        assert(kdm[k][j1] == kdm0[k][j1]); assert(kdm[k][j2] == kdm0[k][j2]);
                    }
                }
            }
        }
'''


D0 = 'old(self).data@'
K0 = 'old(self).keys@'
ID_HIT = f"(bi_denotes::<AnnotationData>(id, {D0}, Some(old(self).data_idmap.data@), old(self).data_idmap.resolve_temp_ids) is Some && live({D0}, bi_denotes::<AnnotationData>(id, {D0}, Some(old(self).data_idmap.data@), old(self).data_idmap.resolve_temp_ids).unwrap() as int))"
KEY_HIT = f"(bi_denotes::<DataKey>(key, {K0}, Some(old(self).key_idmap.data@), old(self).key_idmap.resolve_temp_ids) is Some && live({K0}, bi_denotes::<DataKey>(key, {K0}, Some(old(self).key_idmap.data@), old(self).key_idmap.resolve_temp_ids).unwrap() as int))"
UNCHANGED_DS = 'final(self).data@ == old(self).data@ && final(self).keys@ == old(self).keys@ && final(self).key_data_map@ == old(self).key_data_map@ && final(self).data_idmap.data@ == old(self).data_idmap.data@ && final(self).key_idmap.data@ == old(self).key_idmap.data@'
FULL_REQ = [('kd_wf', 'old(self).kd_wf()'),
            ('keys_wf', 'idmap_wf(old(self).keys@, Some(old(self).key_idmap.data@))'),
            ('data_wf', 'idmap_wf(old(self).data@, Some(old(self).data_idmap.data@))'),
            ('no_merge', '!old(self).config.merge'),
            # ids that look like temporary ids are outside the claim (stated precondition of StoreFor::insert)
            ('ids_not_temp_form', 'bi_text(id) is Some ==> !is_temp_form::<AnnotationData>(old(self).data_idmap.resolve_temp_ids, bi_text(id).unwrap())'),
            ('key_not_temp_form', 'bi_text(key) is Some ==> !is_temp_form::<DataKey>(old(self).key_idmap.resolve_temp_ids, bi_text(key).unwrap())')]
FULL_ENS = [
    ('existing_id', f'{ID_HIT} ==> r is Ok && r->Ok_0.idx() == bi_denotes::<AnnotationData>(id, {D0}, Some(old(self).data_idmap.data@), old(self).data_idmap.resolve_temp_ids).unwrap() && {UNCHANGED_DS}'),
    ('no_key_no_data', f'!{ID_HIT} && key is None ==> r is Err && {UNCHANGED_DS}'),
    ('unknown_key_by_handle', f'!{ID_HIT} && !(key is None) && !{KEY_HIT} && bi_text(key) is None ==> r is Err && {UNCHANGED_DS}'),
    ('key_kept_or_created', f'r is Ok && !{ID_HIT} ==> (if {KEY_HIT} {{ final(self).keys@ == {K0} && final(self).key_idmap.data@ == old(self).key_idmap.data@ }} else {{ '
                            f'bi_text(key) is Some && final(self).keys@.len() == {K0}.len() + 1 && final(self).keys@.take({K0}.len() as int) =~= {K0} && final(self).keys@.last() is Some && final(self).keys@.last().unwrap().id@ == bi_text(key).unwrap() }})'),
    ('the_pair', f'r is Ok && !{ID_HIT} ==> live(final(self).data@, r->Ok_0.idx() as int) && (final(self).data@[r->Ok_0.idx() as int].unwrap().value == value || veq(final(self).data@[r->Ok_0.idx() as int].unwrap().value, value)) '
                 f'&& final(self).data@[r->Ok_0.idx() as int].unwrap().key.idx() == (if {KEY_HIT} {{ bi_denotes::<DataKey>(key, {K0}, Some(old(self).key_idmap.data@), old(self).key_idmap.resolve_temp_ids).unwrap() as int }} else {{ {K0}.len() as int }})'),
    ('reuses', f'!{ID_HIT} && {KEY_HIT} && id is None && safety && has_pair({D0}, DataKeyHandle(bi_denotes::<DataKey>(key, {K0}, Some(old(self).key_idmap.data@), old(self).key_idmap.resolve_temp_ids).unwrap() as u16), value) ==> r is Ok && {UNCHANGED_DS}'),
    ('appends_at_most_one', f'final(self).data@ == {D0} || (final(self).data@.len() == {D0}.len() + 1 && final(self).data@.take({D0}.len() as int) =~= {D0} && r is Ok && r->Ok_0.idx() == {D0}.len())'),
    ('index_exact', 'r is Ok ==> final(self).kd_wf()'),
    ('vocabulary', 'r is Ok ==> idmap_wf(final(self).keys@, Some(final(self).key_idmap.data@))'),
]
DEDUP_HINT_FULL = '''proof {
            if result is Ok {
                let d1 = self.data@;
                assert(d1 =~= vx_d0.push(d1.last()));
                lemma_kd_push(vx_d0, vx_kdm0, d1.last().unwrap());
            }
        }'''


import os
ENABLE_FULL = not os.environ.get('VX_NO_FULL_INSERT')


def build():
    u = Unit('u_dataset', serves=['C10', 'C01', 'C02', 'C03'])
    u.use('use std::marker::PhantomData;')
    common.target64(u)
    common.std_specs(u)
    common.handle_trait(u, P)
    for h in ('DataKeyHandle', 'AnnotationDataHandle'):
        common.handle_impl(u, h, P)
    u.trusted_text(u_map.VX_POSITION, 'external_body vx_position: std Iterator::position semantics + structural == on handles (R-outline)')
    u_map.emit_relationmap(u, P, with_canary=False)
    req = sc.emit_storefor(u, P, with_builditem=True)

    # ------------------------------------------------------------------ item types
    u.item('src/datakey.rs', 'struct', 'DataKey', keep_derives=[],
           rewrites=[('R-vis', r'\bintid:', 'pub intid:'), ('R-vis', r'\bid:', 'pub id:')])
    u.item('src/annotationdata.rs', 'struct', 'AnnotationData', keep_derives=[], rewrites=[('R-vis', r'\bvalue:', 'pub value:')])
    u.trusted_text(OPAQUE, 'external_body DataValue (opaque; == is the uninterpreted relation veq), uninterpreted PartialEq on DataKey/AnnotationData, vx_as_deref (Option<String>::as_deref)')
    for ty, f, t in (('DataKey', 'src/datakey.rs', 'Type::DataKey'), ('AnnotationData', 'src/annotationdata.rs', 'Type::AnnotationData')):
        u.impl(f, f'impl TypeInfo for {ty}', [Fn('typeinfo', props=P, ret='r')],
               extra=f'\n    open spec fn spec_typeinfo() -> Type {{ {t} }}\n')
    STORABLE = [
        Fn('id', props=P, ret='r'), Fn('handle', props=P, ret='r'),
        # R-mutself: `mut self` by-value receivers are not supported: bind to a local
        Fn('with_handle', props=P, ret='r', sig_rewrites=[('R-mutself', r'\bmut self\b', 'self')],
           rewrites=[('R-mutself', r'\bself\b', 'vx_self')], prologue='let mut vx_self = self;'),
        Fn('carries_id', props=P, ret='r'),
        Fn('merge', props=P, ret='r'),
    ]
    u.impl('src/datakey.rs', 'impl Storable for DataKey', STORABLE, extra='''
    type HandleType = DataKeyHandle;
    open spec fn spec_handle(&self) -> Option<DataKeyHandle> { self.intid }
    open spec fn spec_id(&self) -> Option<Seq<char>> { Some(self.id@) }
    open spec fn spec_carries_id() -> bool { true }
    open spec fn same_content(&self, other: &Self) -> bool { true }
    proof fn same_content_refl(a: Self) {}
    proof fn same_content_trans(a: Self, b: Self, c: Self) {}
    #[verifier::external_body]
    fn generate_id(self, idmap: Option<&mut IdMap<DataKeyHandle>>) -> (r: Self) { unimplemented!() }
''')
    STORABLE[0] = Fn('id', props=P, ret='r', rewrites=[('R-outline', r'self\.id\.as_deref\(\)', 'vx_as_deref(&self.id)')])
    u.impl('src/annotationdata.rs', 'impl Storable for AnnotationData', STORABLE, extra='''
    type HandleType = AnnotationDataHandle;
    open spec fn spec_handle(&self) -> Option<AnnotationDataHandle> { self.intid }
    open spec fn spec_id(&self) -> Option<Seq<char>> { match self.id { Some(s) => Some(s@), None => None } }
    open spec fn spec_carries_id() -> bool { true }
    /// a data item's content is its key and its value
    open spec fn same_content(&self, other: &Self) -> bool { self.key == other.key && self.value == other.value }
    proof fn same_content_refl(a: Self) {}
    proof fn same_content_trans(a: Self, b: Self, c: Self) {}
    #[verifier::external_body]
    fn generate_id(self, idmap: Option<&mut IdMap<AnnotationDataHandle>>) -> (r: Self) { unimplemented!() }
''')
    u.trusted.append('external_body Storable::generate_id for DataKey / AnnotationData (random id generation; only its handle-preservation contract is used)')
    u.impl('src/annotationdata.rs', 'impl AnnotationData', [
        Fn('key', props=P, ret='r', ensures=[('key', 'r == self.key')]),
        Fn('value', props=P, ret='r', ensures=[('value', '*r == self.value')]),
    ])

    # ------------------------------------------------------------------ the dataset
    u.item(DS, 'struct', 'AnnotationDataSet', keep_fields=['keys', 'data', 'key_idmap', 'data_idmap', 'key_data_map', 'config'], keep_derives=[],
           rewrites=[('R-vis', r'\b(keys|data|key_idmap|data_idmap|key_data_map):', r'pub \1:')])
    u.spec(DS_SPEC, 'contracts/u_dataset.py:DS_SPEC')
    u.impl(DS, 'impl Configurable for AnnotationDataSet', [Fn('config', props=P, ret='r')],
           extra='\n    open spec fn spec_config(&self) -> Config { self.config }\n')

    MARK = ('R-drop', r'self\.mark_changed\(\);', '')   # sets the `changed` flag (Arc<RwLock<bool>>), a field outside the projection
    CB_K = (DS, 'impl private::StoreCallbacks<DataKey> for AnnotationDataSet')
    CB_D = (DS, 'impl private::StoreCallbacks<AnnotationData> for AnnotationDataSet')
    GET_D = ('R-request', r'self\.get\(handle\)', '<Self as StoreFor<AnnotationData>>::get__handle(self, handle)')

    KEY_GHOST = '''
    type Rest = (Seq<Option<AnnotationData>>, Seq<Seq<AnnotationDataHandle>>, Map<Seq<char>, AnnotationDataHandle>, bool);
    open spec fn view_store(&self) -> Seq<Option<DataKey>> { self.keys@ }
    open spec fn view_idmap(&self) -> Option<Map<Seq<char>, DataKeyHandle>> { Some(self.key_idmap.data@) }
    open spec fn view_temp_ids(&self) -> bool { self.key_idmap.resolve_temp_ids }
    open spec fn view_config(&self) -> Config { self.config }
    open spec fn view_rest(&self) -> (Seq<Option<AnnotationData>>, Seq<Seq<AnnotationDataHandle>>, Map<Seq<char>, AnnotationDataHandle>, bool) { (self.data@, self.key_data_map@, self.data_idmap.data@, self.data_idmap.resolve_temp_ids) }
    open spec fn cascade_free() -> bool { true }
    open spec fn preinsert_ok(rest: (Seq<Option<AnnotationData>>, Seq<Seq<AnnotationDataHandle>>, Map<Seq<char>, AnnotationDataHandle>, bool), item: DataKey) -> bool { true }
    open spec fn inserted_ok(rest: (Seq<Option<AnnotationData>>, Seq<Seq<AnnotationDataHandle>>, Map<Seq<char>, AnnotationDataHandle>, bool), item: DataKey) -> bool { true }
    open spec fn preremove_ok(s: Self, handle_idx: usize) -> bool { true }
    /// inserting a key leaves the key -> data index and the data alone
    open spec fn inserted_post(store: Seq<Option<DataKey>>, pre_rest: (Seq<Option<AnnotationData>>, Seq<Seq<AnnotationDataHandle>>, Map<Seq<char>, AnnotationDataHandle>, bool), post_rest: (Seq<Option<AnnotationData>>, Seq<Seq<AnnotationDataHandle>>, Map<Seq<char>, AnnotationDataHandle>, bool), handle: DataKeyHandle, ok: bool) -> bool {
        ok && post_rest == pre_rest
    }
    /// removing a key clears exactly its own row: no other row moves (the index is addressed by key handle)
    open spec fn preremove_post(pre_store: Seq<Option<DataKey>>, pre_rest: (Seq<Option<AnnotationData>>, Seq<Seq<AnnotationDataHandle>>, Map<Seq<char>, AnnotationDataHandle>, bool), post_store: Seq<Option<DataKey>>, post_rest: (Seq<Option<AnnotationData>>, Seq<Seq<AnnotationDataHandle>>, Map<Seq<char>, AnnotationDataHandle>, bool), handle: DataKeyHandle, ok: bool) -> bool {
        ok
        && (handle.idx() < post_rest.1.len() ==> post_rest.1[handle.idx() as int].len() == 0)
        && post_rest.1.len() == pre_rest.1.len()
        && (forall|k: int| 0 <= k < post_rest.1.len() && k != handle.idx() ==> #[trigger] post_rest.1[k] == pre_rest.1[k])
        && post_rest.0 == pre_rest.0 && post_rest.2 == pre_rest.2 && post_rest.3 == pre_rest.3
    }
    #[verifier::external_body]
    fn preinsert(&self, item: &mut DataKey) -> (r: Result<(), StamError>) { Ok(()) }
'''
    ROWS = 'final(self).key_data_map@'
    u.impl(DS, 'impl StoreFor<DataKey> for AnnotationDataSet', [
        Fn('store', props=P, ret='r'), Fn('store_mut', props=P, ret='r'), Fn('idmap', props=P, ret='r'), Fn('idmap_mut', props=P, ret='r'),
        Fn('store_typeinfo', props=P, ret='r'),
        Fn('config', props=P, ret='r', from_block=(DS, 'impl Configurable for AnnotationDataSet')),
        Fn('inserted', props=P, ret='r', from_block=CB_K, rewrites=[MARK]),
        Fn('preremove', props=P, ret='r', from_block=CB_K, rewrites=[MARK]),
    ], extra=KEY_GHOST)
    u.trusted.append('default StoreCallbacks::preinsert (body `Ok(())`) re-declared external_body in the dataset impls')

    DATA_GHOST = '''
    type Rest = (Seq<Option<DataKey>>, Seq<Seq<AnnotationDataHandle>>, Map<Seq<char>, DataKeyHandle>, bool);
    open spec fn view_store(&self) -> Seq<Option<AnnotationData>> { self.data@ }
    open spec fn view_idmap(&self) -> Option<Map<Seq<char>, AnnotationDataHandle>> { Some(self.data_idmap.data@) }
    open spec fn view_temp_ids(&self) -> bool { self.data_idmap.resolve_temp_ids }
    open spec fn view_config(&self) -> Config { self.config }
    open spec fn view_rest(&self) -> (Seq<Option<DataKey>>, Seq<Seq<AnnotationDataHandle>>, Map<Seq<char>, DataKeyHandle>, bool) { (self.keys@, self.key_data_map@, self.key_idmap.data@, self.key_idmap.resolve_temp_ids) }
    open spec fn cascade_free() -> bool { true }
    open spec fn preinsert_ok(rest: (Seq<Option<DataKey>>, Seq<Seq<AnnotationDataHandle>>, Map<Seq<char>, DataKeyHandle>, bool), item: AnnotationData) -> bool { true }
    open spec fn inserted_ok(rest: (Seq<Option<DataKey>>, Seq<Seq<AnnotationDataHandle>>, Map<Seq<char>, DataKeyHandle>, bool), item: AnnotationData) -> bool { true }
    open spec fn preremove_ok(s: Self, handle_idx: usize) -> bool { live(s.data@, handle_idx as int) }
    /// after a data item has been pushed, `inserted` lists it under its key: the index is complete again
    open spec fn inserted_post(store: Seq<Option<AnnotationData>>, pre_rest: (Seq<Option<DataKey>>, Seq<Seq<AnnotationDataHandle>>, Map<Seq<char>, DataKeyHandle>, bool), post_rest: (Seq<Option<DataKey>>, Seq<Seq<AnnotationDataHandle>>, Map<Seq<char>, DataKeyHandle>, bool), handle: AnnotationDataHandle, ok: bool) -> bool {
        ok
        && (kd_wf_except(store, pre_rest.1, Some(handle.idx() as int)) && store[handle.idx() as int].unwrap().spec_handle() == Some(handle) ==> kd_wf(store, post_rest.1))
        && post_rest.0 == pre_rest.0 && post_rest.2 == pre_rest.2 && post_rest.3 == pre_rest.3
    }
    /// before a data item is tombstoned, `preremove` drops exactly that item from the index
    open spec fn preremove_post(pre_store: Seq<Option<AnnotationData>>, pre_rest: (Seq<Option<DataKey>>, Seq<Seq<AnnotationDataHandle>>, Map<Seq<char>, DataKeyHandle>, bool), post_store: Seq<Option<AnnotationData>>, post_rest: (Seq<Option<DataKey>>, Seq<Seq<AnnotationDataHandle>>, Map<Seq<char>, DataKeyHandle>, bool), handle: AnnotationDataHandle, ok: bool) -> bool {
        (ok && kd_wf(pre_store, pre_rest.1) ==> kd_wf_except(post_store, post_rest.1, Some(handle.idx() as int)))
        && post_rest.0 == pre_rest.0 && post_rest.2 == pre_rest.2 && post_rest.3 == pre_rest.3
    }
    #[verifier::external_body]
    fn preinsert(&self, item: &mut AnnotationData) -> (r: Result<(), StamError>) { Ok(()) }
'''
    u.impl(DS, 'impl StoreFor<AnnotationData> for AnnotationDataSet', [
        Fn('store', props=P, ret='r'), Fn('store_mut', props=P, ret='r'), Fn('idmap', props=P, ret='r'), Fn('idmap_mut', props=P, ret='r'),
        Fn('store_typeinfo', props=P, ret='r'),
        Fn('config', props=P, ret='r', from_block=(DS, 'impl Configurable for AnnotationDataSet')),
        Fn('inserted', props=P, ret='r', from_block=CB_D, rewrites=[MARK, GET_D,
                                                                        ('R-expect', r'\.expect\("item must exist after insertion"\)', '.unwrap()')],
           before=[(TAIL_OK, INS_HINT)]),
        Fn('preremove', props=P, ret='r', from_block=CB_D, rewrites=[MARK, GET_D],
           before=[(TAIL_OK, REM_HINT)]),
    ], extra=DATA_GHOST)
    # ------------------------------------------------------------------ the vocabulary: data_by_value and the de-duplicating tail of insert_data (C10)
    P10 = ['C10']
    ST = sc.ST
    u.spec(VOCAB_SPEC, 'contracts/u_dataset.py:VOCAB_SPEC')
    u.impl(ST, "impl<'a, T> BuildItem<'a, T>", [
        Fn('is_none', props=P10, ret='r', ensures=[('none', 'r == (*self is None)')]),
        Fn('to_string', props=P10, ret='r', ensures=[('text', 'match r { Some(t) => bi_text(self) == Some(t@), None => bi_text(self) is None }')]),
        Fn('is_id', props=P10, ret='r', ensures=[('id', 'r == (bi_text(*self) is Some)')]),
        # the error value raised for an unresolved request: only its being an error matters
        Fn('error', props=P10, ret='r', external_body=True),
    ])
    u.impl('src/datakey.rs', 'impl DataKey', [
        Fn('new', props=P10, ret='r', sig_rewrites=[('R-instantiate', r'id: impl Into<String>', 'id: String')],
           rewrites=[('R-instantiate', r'id: id\.into\(\)', 'id: id')],
           ensures=[('fields', 'r.id@ == id@ && r.intid is None')]),
    ])
    u.impl('src/annotationdata.rs', 'impl AnnotationData', [
        Fn('new', props=P10, ret='r', ensures=[('fields', 'r.id == id && r.key == key && r.value == value && r.intid is None')]),
    ])
    KEYS_WF = 'idmap_wf(self.keys@, Some(self.key_idmap.data@))'
    DS_FNS = [
        Fn('key', emit_name='key__handle', props=P10, ret='r',
           sig_rewrites=[('R-request', r'key: impl Request<DataKey>', 'key: DataKeyHandle')],
           rewrites=[('R-request', r'self\.get\(key\)\.map\(\|x\| x\)\.ok\(\)', '<Self as StoreFor<DataKey>>::get__handle(self, key).ok()')],
           ensures=[('some_iff', 'r is Some <==> live(self.keys@, key.idx() as int)'),
                    ('item', 'r is Some ==> *r.unwrap() == self.keys@[key.idx() as int].unwrap()')]),
        Fn('data_by_value', emit_name='data_by_value__handle', props=P10, ret='r',
           sig_rewrites=[('R-request', r'key: impl Request<DataKey>,', 'key: DataKeyHandle,')],
           rewrites=[('R-request', r'self\.key\(key\)\.map\(\|key\| key\)', 'self.key__handle(key)'),
                     ('R-expect', r'\.expect\("key must be bound at this point"\)', '.unwrap()'),
                     ('R-forname', r'for datahandle in dataitems\.iter\(\) \{', 'for datahandle in vx_it: dataitems.iter() {'),
                     ('R-request', r'self\.get\(\*datahandle\)\.expect\("getting item"\)', '<Self as StoreFor<AnnotationData>>::get__handle(self, *datahandle).unwrap()')],
           requires=[('kd_wf', 'self.kd_wf()'), ('keys_wf', KEYS_WF)],
           loops={r'vx_it: dataitems': dict(invariant=[
               ('kd_wf', 'self.kd_wf()'),
               ('row', 'dataitems@ == self.key_data_map@[key.idx() as int] && key.idx() < self.key_data_map@.len()'),
               ('none_so_far', 'forall|j: int| 0 <= j < vx_it.index@ ==> !veq(self.data@[(#[trigger] dataitems@[j]).idx() as int].unwrap().value, *value)'),
           ])},
           ensures=[('found', 'r is Some ==> has_pair(self.data@, key, *value) && exists|i: int| live(self.data@, i) && self.data@[i].unwrap() == *r.unwrap() && r.unwrap().key.idx() == key.idx() && veq(r.unwrap().value, *value)'),
                    ('none', 'r is None && live(self.keys@, key.idx() as int) ==> !has_pair(self.data@, key, *value)')]),
        Fn('insert_data', emit_name='insert_data__full', props=P10, ret='r',
           # R-instantiate: the `impl Into<..>` parameters at the types themselves (Into<T> for T is the identity)
           sig_rewrites=[('R-instantiate', r"id: impl Into<BuildItem<'a, AnnotationData>>", "id: BuildItem<'a, AnnotationData>"),
                         ('R-instantiate', r"key: impl Into<BuildItem<'a, DataKey>>", "key: BuildItem<'a, DataKey>"),
                         ('R-instantiate', r'value: impl Into<DataValue> \+ std::fmt::Debug', 'value: DataValue')],
           rewrites=[('R-instantiate', r'let id = id\.into\(\);', ''), ('R-instantiate', r'let key = key\.into\(\);', ''), ('R-instantiate', r'let value = value\.into\(\);', ''),
                     ('R-request', r'self\.get\(&id\)', '<Self as StoreFor<AnnotationData>>::get__build(self, &id)'),
                     ('R-request', r'self\.get\(&key\)', '<Self as StoreFor<DataKey>>::get__build(self, &key)'),
                     ('R-request', r'self\.insert\(DataKey::new', '<Self as StoreFor<DataKey>>::insert(self, DataKey::new'),
                     ('R-request', r'self\.insert\(AnnotationData::new', '<Self as StoreFor<AnnotationData>>::insert(self, AnnotationData::new'),
                     ('R-expect', r'\.expect\(\s*"item must have intid when in store"\s*\)', '.unwrap()'),
                     ('R-request', r'self\.data_by_value\(datakey_handle, &value\)', 'self.data_by_value__handle(datakey_handle, &value)'),
                     ('R-expect', r'\.expect\("item must have intid if in store"\)', '.unwrap()')],
           requires=FULL_REQ, ensures=FULL_ENS,
           before=[(r're:let result = <Self as StoreFor<AnnotationData>>::insert\(', 'let ghost vx_d0 = self.data@; let ghost vx_kdm0 = self.key_data_map@;')],
           after=[(r're:let result = <Self as StoreFor<AnnotationData>>::insert\([^;]*;', DEDUP_HINT_FULL, None, 'index_exact')]),
        Fn('insert_data', emit_name='insert_data__dedup', props=P10, ret='r',
           region=('after:let value = value.into();', r're:(?m)^ *result\s*\}\s*\Z',
                   "fn insert_data__dedup<'a>(&mut self, id: BuildItem<'a, AnnotationData>, datakey_handle: DataKeyHandle, value: DataValue, newkey: bool, safety: bool) -> Result<AnnotationDataHandle, StamError>",
                   '        result'),
           rewrites=[('R-request', r'self\.data_by_value\(datakey_handle, &value\)', 'self.data_by_value__handle(datakey_handle, &value)'),
                     ('R-expect', r'\.expect\("item must have intid if in store"\)', '.unwrap()')],
           after=[(r're:let result = self\.insert\([^;]*;', DEDUP_HINT, None, 'index_exact')],
           requires=[('kd_wf', 'old(self).kd_wf()'),
                     ('keys_wf', KEYS_WF.replace('self.', 'old(self).')),
                     ('data_wf', 'idmap_wf(old(self).data@, Some(old(self).data_idmap.data@))'),
                     ('key_live', 'live(old(self).keys@, datakey_handle.idx() as int)'),
                     ('id_free', 'bi_text(id) is Some ==> !is_temp_form::<AnnotationData>(old(self).data_idmap.resolve_temp_ids, bi_text(id).unwrap()) && !old(self).data_idmap.data@.contains_key(bi_text(id).unwrap())')],
           ensures=[('reuses', '!newkey && id is None && safety && has_pair(old(self).data@, datakey_handle, value) ==> '
                               'r is Ok && final(self).data@ == old(self).data@ && final(self).key_data_map@ == old(self).key_data_map@ && final(self).data_idmap.data@ == old(self).data_idmap.data@ '
                               '&& live(old(self).data@, r->Ok_0.idx() as int) && old(self).data@[r->Ok_0.idx() as int].unwrap().key.idx() == datakey_handle.idx() && veq(old(self).data@[r->Ok_0.idx() as int].unwrap().value, value)'),
                    ('appends_the_pair', 'r is Ok && final(self).data@ != old(self).data@ ==> final(self).data@.len() == old(self).data@.len() + 1 && final(self).data@.take(old(self).data@.len() as int) =~= old(self).data@ '
                                         '&& r->Ok_0.idx() == old(self).data@.len() && final(self).data@.last() is Some && final(self).data@.last().unwrap().key == datakey_handle && final(self).data@.last().unwrap().value == value'),
                    ('index_exact', 'r is Ok ==> final(self).kd_wf()'),
                    ('keys_frame', 'r is Ok ==> final(self).keys@ == old(self).keys@')]),
    ]
    if not ENABLE_FULL:
        DS_FNS = [f for f in DS_FNS if f.emit_name != 'insert_data__full']
    u.impl(DS, 'impl AnnotationDataSet', DS_FNS)
    return u

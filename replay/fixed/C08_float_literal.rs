// replay of the defect repaired by /repo commit 234b732 (C08): copy to /repo/tests/ and run it with cargo test; it fails on the parent commit.
// The STAMQL parser never recognises a floating point literal: `4.5` is typed as a string, so every
// ordering comparison with a float is refused although the float operators exist and work.
use stam::*;

fn store() -> AnnotationStore {
    let mut store = AnnotationStore::default()
        .with_id("s")
        .with_resource(
            TextResourceBuilder::new()
                .with_id("r")
                .with_text("Hello world"),
        )
        .unwrap();
    store
        .annotate(
            AnnotationBuilder::new()
                .with_id("A1")
                .with_target(SelectorBuilder::textselector("r", Offset::simple(0, 5)))
                .with_data("set", "confidence", 0.25f64),
        )
        .unwrap();
    store
        .annotate(
            AnnotationBuilder::new()
                .with_id("A2")
                .with_target(SelectorBuilder::textselector("r", Offset::simple(6, 11)))
                .with_data("set", "confidence", 0.75f64),
        )
        .unwrap();
    store
}

fn ids<'a>(store: &'a AnnotationStore, query: Query<'a>) -> Vec<&'a str> {
    let mut out = Vec::new();
    for row in store.query(query).unwrap() {
        if let Some(QueryResultItem::Annotation(a)) = row.iter().next() {
            out.push(a.id().unwrap());
        }
    }
    out
}

#[test]
fn float_literal_in_query() {
    let store = store();
    // built programmatically
    let programmatic = Query::new(QueryType::Select, Some(Type::Annotation), None).with_constraint(
        Constraint::KeyValue {
            set: "set",
            key: "confidence",
            operator: DataOperator::GreaterThanFloat(0.5),
            qualifier: SelectionQualifier::Normal,
        },
    );
    assert_eq!(ids(&store, programmatic), vec!["A2"]);

    // the same query as STAMQL text
    let parsed: Result<Query, StamError> =
        "SELECT ANNOTATION WHERE DATA \"set\" \"confidence\" > 0.5;".try_into();
    assert!(
        parsed.is_ok(),
        "a query with a float literal must be accepted, got: {:?}",
        parsed.err()
    );
    assert_eq!(
        ids(&store, parsed.unwrap()),
        vec!["A2"],
        "the STAMQL text must give the same answer as the programmatically built query"
    );
}

#[test]
fn float_literal_is_typed_as_float() {
    let query: Query = "SELECT ANNOTATION WHERE DATA \"set\" \"confidence\" = 0.75;"
        .try_into()
        .unwrap();
    match query.iter().next() {
        Some(Constraint::KeyValue { operator, .. }) => assert_eq!(
            *operator,
            DataOperator::EqualsFloat(0.75),
            "an unquoted 0.75 is a float literal (EqualsFloat), not a string"
        ),
        x => panic!("unexpected constraint {:?}", x),
    }
    for q in [
        "SELECT ANNOTATION WHERE DATA \"set\" \"confidence\" >= 0.75;",
        "SELECT ANNOTATION WHERE DATA \"set\" \"confidence\" < -1.5;",
        "SELECT DATA WHERE VALUE <= 0.25;",
    ] {
        let parsed: Result<Query, StamError> = q.try_into();
        assert!(
            parsed.is_ok(),
            "'{}' must be accepted, got {:?}",
            q,
            parsed.err()
        );
    }
}

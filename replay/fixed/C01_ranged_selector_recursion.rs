// replay of the defect repaired by /repo commit 37fad82 (C01): copy to /repo/tests/ and run it with cargo test; it fails on the parent commit.
// Forward lookups on an annotation (resources(), resources_as_metadata(),
// annotations_in_targets(AnnotationDepth::Max)) must only depend on what the annotation was
// built with. They must not depend on whether the annotations it targets happen to have
// consecutive handles (which makes the library compress the complex selector into an internal
// RangedAnnotationSelector).
use stam::*;

fn base() -> AnnotationStore {
    AnnotationStore::default()
        .with_id("test")
        .with_resource(
            TextResourceBuilder::new()
                .with_id("r")
                .with_text("Hello wonderful world"),
        )
        .unwrap()
        .with_resource(
            TextResourceBuilder::new()
                .with_id("other")
                .with_text("unrelated text"),
        )
        .unwrap()
        .with_dataset(AnnotationDataSetBuilder::new().with_id("s"))
        .unwrap()
}

fn text(store: &mut AnnotationStore, id: &str, res: &str, b: usize, e: usize) {
    store
        .annotate(
            AnnotationBuilder::new()
                .with_id(id.to_string())
                .with_target(SelectorBuilder::textselector(
                    res.to_string(),
                    Offset::simple(b, e),
                ))
                .with_data("s", "k", id.to_string()),
        )
        .unwrap();
}

/// C = CompositeSelector[ A0 (whole text), A1 (whole text) ], A0 and A1 are plain text annotations on "r".
/// When `gap` is set, an unrelated annotation is added between A0 and A1 so their handles are not consecutive.
fn composite_over_text_annotations(gap: bool) -> AnnotationStore {
    let mut store = base();
    text(&mut store, "A0", "r", 0, 5);
    if gap {
        text(&mut store, "X", "other", 0, 9);
    }
    text(&mut store, "A1", "r", 6, 15);
    store
        .annotate(
            AnnotationBuilder::new()
                .with_id("C")
                .with_target(SelectorBuilder::compositeselector([
                    SelectorBuilder::annotationselector("A0", Some(Offset::whole())),
                    SelectorBuilder::annotationselector("A1", Some(Offset::whole())),
                ]))
                .with_data("s", "k", "c"),
        )
        .unwrap();
    store
}

/// A0 is metadata on resource "r" (ResourceSelector), A1 and A2 both point at A0,
/// C = MultiSelector[ A1, A2 ].
fn multi_over_annotations(gap: bool) -> AnnotationStore {
    let mut store = base();
    store
        .annotate(
            AnnotationBuilder::new()
                .with_id("A0")
                .with_target(SelectorBuilder::resourceselector("r"))
                .with_data("s", "k", "a0"),
        )
        .unwrap();
    store
        .annotate(
            AnnotationBuilder::new()
                .with_id("A1")
                .with_target(SelectorBuilder::annotationselector("A0", None))
                .with_data("s", "k", "a1"),
        )
        .unwrap();
    if gap {
        text(&mut store, "X", "other", 0, 9);
    }
    store
        .annotate(
            AnnotationBuilder::new()
                .with_id("A2")
                .with_target(SelectorBuilder::annotationselector("A0", None))
                .with_data("s", "k", "a2"),
        )
        .unwrap();
    store
        .annotate(
            AnnotationBuilder::new()
                .with_id("C")
                .with_target(SelectorBuilder::multiselector([
                    SelectorBuilder::annotationselector("A1", None),
                    SelectorBuilder::annotationselector("A2", None),
                ]))
                .with_data("s", "k", "c"),
        )
        .unwrap();
    store
}

fn ids<'a, T: Storable>(iter: impl Iterator<Item = ResultItem<'a, T>>) -> Vec<String>
where
    T: 'a,
{
    let mut v: Vec<String> = iter.map(|x| x.id().unwrap().to_string()).collect();
    v.sort();
    v
}

#[test]
fn resources_of_composite_over_text_annotations() {
    for gap in [true, false] {
        let store = composite_over_text_annotations(gap);
        let c = store.annotation("C").unwrap();
        // sanity: the text is found either way
        let spans: Vec<_> = c.textselections().map(|t| (t.begin(), t.end())).collect();
        assert_eq!(spans, vec![(0, 5), (6, 15)]);
        assert_eq!(
            ids(c.resources()),
            vec!["r".to_string()],
            "C selects text of resource 'r' (via A0 and A1), so C.resources() must yield 'r'; \
             consecutive handles for A0,A1 = {} (internal target: {:?})",
            !gap,
            c.as_ref().target()
        );
    }
}

#[test]
fn recursive_targets_of_multi_over_annotations() {
    for gap in [true, false] {
        let store = multi_over_annotations(gap);
        let c = store.annotation("C").unwrap();
        assert_eq!(
            ids(c.annotations_in_targets(AnnotationDepth::One)),
            vec!["A1".to_string(), "A2".to_string()]
        );
        assert_eq!(
            ids(c.annotations_in_targets(AnnotationDepth::Max)),
            vec!["A0".to_string(), "A1".to_string(), "A2".to_string()],
            "annotations_in_targets(Max) must follow A1 and A2 to A0; \
             consecutive handles for A1,A2 = {} (internal target: {:?})",
            !gap,
            c.as_ref().target()
        );
        assert_eq!(
            ids(c.resources_as_metadata()),
            vec!["r".to_string()],
            "resources_as_metadata() must give the same answer whether or not the handles of A1,A2 are consecutive; \
             consecutive = {} (internal target: {:?})",
            !gap,
            c.as_ref().target()
        );
    }
}

// replay of the defect repaired by /repo commit 06f58f5 (C03): copy to /repo/tests/ and run it with cargo test; it fails on the parent commit.
// A sub-store that is loaded through "@include" carries the public identifier given by the "@id"
// of the included file, but that identifier is never entered in the identifier map:
// looking it up returns nothing although a live item carries it.
use stam::*;

const SUB: &str = r#"{
    "@type": "AnnotationStore",
    "@id": "sub-one",
    "resources": [{"@type": "TextResource", "@id": "r1", "text": "Hello world"}],
    "annotationsets": [],
    "annotations": []
}"#;

fn write_files(tag: &str) -> String {
    let dir = std::env::temp_dir().join(format!("stam_hunt_h_bug1_{}_{}", tag, std::process::id()));
    std::fs::create_dir_all(&dir).expect("create temp dir");
    std::fs::write(dir.join("sub.store.stam.json"), SUB).expect("write sub store");
    let main = format!(
        r#"{{
    "@type": "AnnotationStore",
    "@id": "main",
    "@include": "{}",
    "resources": [],
    "annotationsets": [],
    "annotations": []
}}"#,
        dir.join("sub.store.stam.json").to_str().unwrap()
    );
    let mainfile = dir.join("main.store.stam.json");
    std::fs::write(&mainfile, main).expect("write main store");
    mainfile.to_str().unwrap().to_string()
}

#[test]
fn included_substore_is_found_by_its_public_id() {
    let mainfile = write_files("json");
    let store = AnnotationStore::from_file(&mainfile, Config::default()).expect("store must load");

    // the substore is there, is live, and carries the identifier "sub-one" ...
    let ids: Vec<Option<String>> = store
        .substores()
        .map(|s| s.id().map(|s| s.to_string()))
        .collect();
    assert_eq!(ids, vec![Some("sub-one".to_string())]);
    let handle = store.substores().next().unwrap().handle();
    assert_eq!(store.substore(handle).unwrap().id(), Some("sub-one"));

    // ... so looking up that identifier must return exactly this item
    let found = store.substore("sub-one");
    assert!(
        found.is_some(),
        "expected: substore(\"sub-one\") returns the live substore whose id() is \"sub-one\"; got None"
    );
    assert_eq!(found.unwrap().handle(), handle);
}

#[test]
fn substore_added_by_hand_is_found_by_its_public_id() {
    let mainfile = write_files("api");
    let subfile = mainfile.replace("main.store.stam.json", "sub.store.stam.json");
    let mut store = AnnotationStore::new(Config::default()).with_id("main");
    let handle = store.add_substore(&subfile).expect("substore must load");
    assert_eq!(store.substore(handle).unwrap().id(), Some("sub-one"));
    assert!(
        store.substore("sub-one").is_some(),
        "expected: the identifier the substore carries resolves to it; got None"
    );
    assert_eq!(store.substore("sub-one").unwrap().handle(), handle);
}

// replay of the defect repaired by /repo commit 716601e (C10): copy to /repo/tests/ and run it with cargo test; it fails on the parent commit.
// Keys and data of different datasets that happen to carry the same internal handle are
// collapsed into one by AnnotationStore::keys(), ResultItem<Annotation>::keys(),
// DataIterator::keys(), AnnotationIterator::keys() and AnnotationIterator::data().
use stam::*;

/// Two datasets, each with one key and one data item. In both sets the key has handle 0 and the
/// data item has handle 0. One annotation uses both data items.
fn store() -> AnnotationStore {
    AnnotationStore::default()
        .with_id("s")
        .with_resource(
            TextResourceBuilder::new()
                .with_id("r")
                .with_text("Hello world"),
        )
        .unwrap()
        .with_dataset(
            AnnotationDataSetBuilder::new()
                .with_id("A")
                .with_key_value("pos", "noun"),
        )
        .unwrap()
        .with_dataset(
            AnnotationDataSetBuilder::new()
                .with_id("B")
                .with_key_value("lemma", "world"),
        )
        .unwrap()
        .with_annotation(
            AnnotationBuilder::new()
                .with_id("a1")
                .with_target(SelectorBuilder::textselector("r", Offset::simple(6, 11)))
                .with_data("A", "pos", "noun")
                .with_data("B", "lemma", "world"),
        )
        .unwrap()
}

fn names<'a>(iter: impl Iterator<Item = ResultItem<'a, DataKey>>) -> Vec<(String, String)> {
    let mut v: Vec<_> = iter
        .map(|k| (k.set().id().unwrap().to_string(), k.as_str().to_string()))
        .collect();
    v.sort();
    v
}

fn expected_keys() -> Vec<(String, String)> {
    vec![
        ("A".to_string(), "pos".to_string()),
        ("B".to_string(), "lemma".to_string()),
    ]
}

#[test]
fn store_keys_lists_the_keys_of_every_dataset() {
    let store = store();
    // scan: the keys of all datasets
    let scan = names(store.datasets().flat_map(|set| set.keys()));
    assert_eq!(scan, expected_keys());
    assert_eq!(
        names(store.keys()),
        scan,
        "AnnotationStore::keys() must return every key of every dataset (A/pos and B/lemma are different keys)"
    );
}

#[test]
fn annotation_keys_lists_the_keys_of_all_its_data() {
    let store = store();
    let annotation = store.annotation("a1").unwrap();
    assert_eq!(annotation.data().count(), 2);
    assert_eq!(
        names(annotation.keys()),
        expected_keys(),
        "annotation.keys() must return the key of each data item of the annotation"
    );
    assert_eq!(
        names(store.data().keys()),
        expected_keys(),
        "store.data().keys() must return the keys of all data"
    );
    assert_eq!(
        names(store.annotations().keys()),
        expected_keys(),
        "store.annotations().keys() must return the keys of all data of the annotations"
    );
}

#[test]
fn annotations_data_lists_the_data_of_every_dataset() {
    let store = store();
    let mut got: Vec<_> = store
        .annotations()
        .data()
        .map(|d| {
            (
                d.set().id().unwrap().to_string(),
                d.key().as_str().to_string(),
                d.value().to_string(),
            )
        })
        .collect();
    got.sort();
    assert_eq!(
        got,
        vec![
            ("A".to_string(), "pos".to_string(), "noun".to_string()),
            ("B".to_string(), "lemma".to_string(), "world".to_string()),
        ],
        "store.annotations().data() must return both data items (A: pos=noun and B: lemma=world are different items)"
    );
}

#[test]
fn items_of_different_sets_are_not_equal() {
    let store = store();
    let pos = store.key("A", "pos").unwrap();
    let lemma = store.key("B", "lemma").unwrap();
    assert!(
        pos != lemma,
        "key 'pos' of set A and key 'lemma' of set B must not compare equal"
    );
    let noun = store.find_data("A", "pos", DataOperator::Any).next().unwrap();
    let world = store.find_data("B", "lemma", DataOperator::Any).next().unwrap();
    assert!(
        noun != world,
        "data pos=noun of set A and data lemma=world of set B must not compare equal"
    );
}

// replay of known finding K2 (C08): copy to /repo/tests/ and run it with cargo test; the two orders of the same two constraints give different results.
use stam::*;
fn build() -> AnnotationStore {
    let mut store = AnnotationStore::default()
        .with_resource(TextResourceBuilder::new().with_id("r0").with_text("hello world")).unwrap()
        .with_dataset(AnnotationDataSetBuilder::new().with_id("d0")).unwrap();
    store.annotate(AnnotationBuilder::new().with_id("A1").with_target(SelectorBuilder::textselector("r0", Offset::simple(0, 5))).with_data("d0", "k0", "x")).unwrap();
    store.annotate(AnnotationBuilder::new().with_id("A5").with_target(SelectorBuilder::annotationselector("A1", None)).with_data("d0", "k2", "n")).unwrap();
    store
}
fn run(store: &AnnotationStore, q: &str) -> Vec<String> {
    let query: Query = q.try_into().unwrap();
    let mut out = vec![];
    for results in store.query(query).unwrap() { for r in results.iter() { if let QueryResultItem::Annotation(a) = r { out.push(a.id().unwrap().to_string()); } } }
    out
}
#[test]
fn constraint_order() {
    let store = build();
    let a = run(&store, "SELECT ANNOTATION ?a WHERE RESOURCE \"r0\";");
    let b = run(&store, "SELECT ANNOTATION ?a WHERE DATASET \"d0\";");
    let ab = run(&store, "SELECT ANNOTATION ?a WHERE RESOURCE \"r0\"; DATASET \"d0\";");
    let ba = run(&store, "SELECT ANNOTATION ?a WHERE DATASET \"d0\"; RESOURCE \"r0\";");
    println!("RESOURCE r0: {:?}\nDATASET d0: {:?}\nRESOURCE;DATASET: {:?}\nDATASET;RESOURCE: {:?}", a, b, ab, ba);
    assert_eq!(ab, ba);
}

// replay of the defect repaired by /repo commit 80b3f40 (C06): copy to /repo/tests/ and run it with cargo test; it fails on the parent commit.
// related_text() on an iterator of text selections / annotations that spans two resources returns
// the same text selection twice: results are sorted by offset only, and the de-duplication
// (Vec::dedup, adjacent elements only) is defeated when a selection of another resource with
// the same offsets is sorted in between.
use stam::*;

fn setup() -> AnnotationStore {
    let mut store = AnnotationStore::default()
        .with_id("test")
        .with_resource(
            TextResourceBuilder::new()
                .with_id("A")
                .with_text("aaaa bbbb cccc"),
        )
        .unwrap()
        .with_resource(
            TextResourceBuilder::new()
                .with_id("B")
                .with_text("xxxx yyyy zzzz"),
        )
        .unwrap()
        .with_dataset(AnnotationDataSetBuilder::new().with_id("d"))
        .unwrap();
    // two parallel texts, annotated alternately
    for (id, res, b, e) in [
        ("a1", "A", 0, 4),
        ("b1", "B", 0, 4),
        ("a2", "A", 5, 9),
        ("a3", "A", 10, 14),
        ("b3", "B", 10, 14),
    ] {
        store
            .annotate(
                AnnotationBuilder::new()
                    .with_id(id)
                    .with_target(SelectorBuilder::textselector(res, Offset::simple(b, e)))
                    .with_data("d", "k", "v"),
            )
            .unwrap();
    }
    store
}

fn expected() -> Vec<(String, usize, usize)> {
    // everything that comes after some reference selection, each once
    vec![
        ("A".to_string(), 5, 9),
        ("A".to_string(), 10, 14),
        ("B".to_string(), 10, 14),
    ]
}

#[test]
fn textselections_related_text_returns_each_selection_once() {
    let store = setup();
    let mut got: Vec<_> = store
        .annotations()
        .textselections() // A[0,4] B[0,4] A[5,9] A[10,14] B[10,14]
        .related_text(TextSelectionOperator::before())
        .map(|t| (t.resource().id().unwrap().to_string(), t.begin(), t.end()))
        .collect();
    got.sort();
    assert_eq!(
        got,
        expected(),
        "expected: A[10,14] (after both A[0,4] and A[5,9]) is returned once, not twice"
    );
}

#[test]
fn annotations_related_text_returns_each_selection_once() {
    let store = setup();
    let mut got: Vec<_> = store
        .annotations()
        .related_text(TextSelectionOperator::before())
        .map(|t| (t.resource().id().unwrap().to_string(), t.begin(), t.end()))
        .collect();
    got.sort();
    assert_eq!(
        got,
        expected(),
        "expected: A[10,14] (after both a1 and a2) is returned once, not twice"
    );
}

#[test]
fn explicit_reference_list() {
    let store = setup();
    let a = store.resource("A").unwrap();
    let b = store.resource("B").unwrap();
    let refs = vec![
        a.textselection(&Offset::simple(0, 4)).unwrap(),
        b.textselection(&Offset::simple(0, 4)).unwrap(),
        a.textselection(&Offset::simple(5, 9)).unwrap(),
    ];
    let got: Vec<_> = refs
        .into_iter()
        .related_text(TextSelectionOperator::before())
        .map(|t| (t.resource().id().unwrap().to_string(), t.begin(), t.end()))
        .collect();
    let n = got
        .iter()
        .filter(|x| **x == ("A".to_string(), 10, 14))
        .count();
    assert_eq!(
        n, 1,
        "expected: A[10,14] occurs once in the result, got {:?}",
        got
    );
}

use vstd::prelude::*;
use std::collections::BTreeMap;
verus! {
#[derive(Debug)]
pub enum StamError { CursorOutOfBounds(usize, &'static str) }

pub struct PositionIndexItem { pub bytepos: usize }
pub struct PositionIndex(pub BTreeMap<usize, PositionIndexItem>);

pub struct TextResource {
    pub text: String,
    pub textlen: usize,
    pub positionindex: PositionIndex,
}

// ---- trusted abstraction of UTF-8 layout -------------------------------------------------
pub uninterp spec fn cb(s: Seq<char>) -> Seq<usize>;   // char index -> byte offset, length len+1

#[verifier::external_body]
pub fn vx_last_below<'a>(m: &'a BTreeMap<usize, PositionIndexItem>, a: usize, b: usize) -> (r: Option<(&'a usize, &'a PositionIndexItem)>)
    ensures
        match r {
            Some((k, v)) => a <= *k < b && m@.contains_key(*k) && m@[*k] == *v && forall|j: usize| #![auto] a <= j < b && m@.contains_key(j) ==> j <= *k,
            None => forall|j: usize| #![auto] a <= j < b ==> !m@.contains_key(j),
        }
{ m.range((std::ops::Bound::Included(&a), std::ops::Bound::Excluded(&b))).next_back() }

#[verifier::external_body]
pub fn vx_str_from<'a>(s: &'a String, from_char: Ghost<int>, b: usize) -> (r: &'a str)
    requires 0 <= from_char@ <= s@.len(), b == cb(s@)[from_char@],
    ensures r@ == s@.subrange(from_char@, s@.len() as int)
{ &s[b..] }

#[verifier::external_body]
pub fn vx_strlen_bytes(s: &str) -> (r: usize)
    ensures r == cb(s@)[s@.len() as int]
{ s.len() }

#[verifier::external_body]
pub fn vx_char_index_pairs(s: &str) -> (r: Vec<(usize, usize)>)
    ensures r@.len() == s@.len(), forall|i: int| 0 <= i < r@.len() ==> (#[trigger] r@[i]).0 == i && r@[i].1 == cb(s@)[i]
{ s.char_indices().enumerate().map(|(c,(b,_))| (c,b)).collect() }

// layout axioms (trusted): suffix layout shifts by the prefix's byte length; cb strictly increasing; cb[0]==0
pub broadcast axiom fn cb_axioms(s: Seq<char>)
    ensures #![trigger cb(s)]
        cb(s).len() == s.len() + 1, cb(s)[0] == 0,
        forall|i: int, j: int| 0 <= i < j <= s.len() ==> cb(s)[i] < cb(s)[j],
        forall|k: int, i: int| #![auto] 0 <= k <= s.len() && 0 <= i <= s.len() - k ==> cb(s.subrange(k, s.len() as int))[i] + cb(s)[k] == cb(s)[k + i];

impl TextResource {
    pub open spec fn inv(&self) -> bool {
        &&& self.textlen == self.text@.len()
        &&& forall|p: usize| #![auto] self.positionindex.0@.contains_key(p) ==> p <= self.textlen && self.positionindex.0@[p].bytepos == cb(self.text@)[p as int]
    }

    fn utf8byte(&self, abscursor: usize) -> (r: Result<usize, StamError>)
        requires self.inv(), self.text@.len() < usize::MAX / 8, forall|i:int| 0 <= i <= self.text@.len() ==> cb(self.text@)[i] < usize::MAX / 2,
        ensures
            r is Ok <==> abscursor <= self.textlen,
            r matches Ok(b) ==> b == cb(self.text@)[abscursor as int],
    {
        broadcast use cb_axioms;
        if let Some(posindexitem) = self.positionindex.0.get(&abscursor) {
            //exact position is in the position index, return the byte
            Ok(posindexitem.bytepos)
        } else {
            // Get the item previous to abscursor using a double ended range iterator
            if let Some((before_pos, posindexitem)) = vx_last_below(&self.positionindex.0, 0, abscursor)
            {
                let before_bytepos = posindexitem.bytepos;
                let textslice = vx_str_from(&self.text, Ghost(*before_pos as int), before_bytepos);
                if self.textlen == abscursor {
                    //non-inclusive end is also a valid point to return
                    return Ok(before_bytepos + vx_strlen_bytes(textslice));
                }
                // now we just count characters and keep track of the bytes they take,
                let pairs = vx_char_index_pairs(textslice);
                for p in iter: pairs.iter()
                    invariant
                        self.inv(), *before_pos < abscursor, abscursor != self.textlen, *before_pos <= self.textlen,
                        pairs@.len() == textslice@.len(), textslice@ == self.text@.subrange(*before_pos as int, self.text@.len() as int),
                        before_bytepos == cb(self.text@)[*before_pos as int],
                        self.text@.len() < usize::MAX / 8, forall|i:int| 0 <= i <= self.text@.len() ==> cb(self.text@)[i] < usize::MAX / 2,
                        forall|i: int| 0 <= i < pairs@.len() ==> (#[trigger] pairs@[i]).0 == i && pairs@[i].1 == cb(textslice@)[i],
                        *before_pos + iter.index@ <= abscursor,
                {
                    let (charpos, bytepos) = *p;
                    if *before_pos + charpos == abscursor {
                        return Ok(before_bytepos + bytepos);
                    }
                }
            } else {
                return Err(StamError::CursorOutOfBounds(abscursor, "x"));
            }
            Err(StamError::CursorOutOfBounds(
                abscursor,
                "TextResource::utf8byte()",
            ))
        }
    }
}
} // verus!
fn main() {}

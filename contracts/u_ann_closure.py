"""U-ann-closure: the lifted closure of Annotation::remove_data on its own, so that a change elsewhere in the
function that Verus cannot read does not hide a change of the predicate."""
from . import u_ann


def build():
    return u_ann._build('closure')

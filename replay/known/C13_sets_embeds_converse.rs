// K7 (C13): replay of the known finding - copy to /repo/tests/ and run with cargo test; it fails on the current tree.
// EMBEDS on sets does not mean what its documentation says and is not the converse of EMBEDDED.
//
// Documentation of TextSelectionOperator::Embeds (src/textselection.rs):
//   "All TextSelections in B are embedded by a TextSelection in A"
// Documentation of TextSelectionOperator::Embedded:
//   "All TextSelections in A are embedded by a TextSelection in B"
// so  A EMBEDS B  must hold exactly when  B EMBEDDED A  holds.
use stam::*;

fn store() -> Result<AnnotationStore, StamError> {
    AnnotationStore::default()
        .with_id("s")
        .with_resource(
            TextResourceBuilder::new()
                .with_id("r")
                .with_text("0123456789abcdefghijklmnopqrstuvwxyz"),
        )?
        .with_dataset(AnnotationDataSetBuilder::new().with_id("d"))?
        // A selects two stretches: [0,10) and [20,21)
        .with_annotation(
            AnnotationBuilder::new()
                .with_id("A")
                .with_target(SelectorBuilder::compositeselector([
                    SelectorBuilder::textselector("r", Offset::simple(0, 10)),
                    SelectorBuilder::textselector("r", Offset::simple(20, 21)),
                ]))
                .with_data("d", "k", "a"),
        )?
        // B selects [1,2), which lies inside the first stretch of A
        .with_annotation(
            AnnotationBuilder::new()
                .with_id("B")
                .with_target(SelectorBuilder::textselector("r", Offset::simple(1, 2)))
                .with_data("d", "k", "b"),
        )
}

fn set<'a>(store: &'a AnnotationStore, ranges: &[(usize, usize)]) -> ResultTextSelectionSet<'a> {
    let resource = store.resource("r").unwrap();
    ranges
        .iter()
        .map(|(b, e)| resource.textselection(&Offset::simple(*b, *e)).unwrap())
        .collect()
}

#[test]
fn set_embeds_follows_its_documentation() -> Result<(), StamError> {
    let store = store()?;
    let a = set(&store, &[(0, 10), (20, 21)]);
    let b = set(&store, &[(1, 2)]);
    // every member of B is embedded by a member of A
    assert!(
        b.test_set(&TextSelectionOperator::embedded(), &a),
        "B EMBEDDED A: [1,2) lies in [0,10)"
    );
    assert!(
        a.test_set(&TextSelectionOperator::embeds(), &b),
        "A={{[0,10),[20,21)}} EMBEDS B={{[1,2)}} must hold: all text selections in B are embedded by a text selection in A (it is the converse of B EMBEDDED A, which holds)"
    );
    assert!(
        !a.test_set(&TextSelectionOperator::embeds().toggle_negate(), &b),
        "the negated relation must be the complement"
    );
    Ok(())
}

#[test]
fn set_embeds_requires_every_member_of_b_to_be_embedded() -> Result<(), StamError> {
    let store = store()?;
    let a = set(&store, &[(0, 1)]);
    let b = set(&store, &[(0, 1), (0, 2)]);
    assert!(
        !b.test_set(&TextSelectionOperator::embedded(), &a),
        "B EMBEDDED A does not hold: [0,2) does not fit in [0,1)"
    );
    assert!(
        !a.test_set(&TextSelectionOperator::embeds(), &b),
        "A={{[0,1)}} EMBEDS B={{[0,1),[0,2)}} must not hold: [0,2) in B is not embedded by any text selection in A"
    );
    let single = store
        .resource("r")
        .unwrap()
        .textselection(&Offset::simple(0, 1))?;
    assert!(
        !single.test_set(&TextSelectionOperator::embeds(), &b),
        "[0,1) EMBEDS B={{[0,1),[0,2)}} must not hold either: [0,2) is not embedded by [0,1)"
    );
    Ok(())
}

#[test]
fn set_embeds_a_single_textselection() -> Result<(), StamError> {
    let store = store()?;
    let a = set(&store, &[(0, 10), (20, 21)]);
    let b = set(&store, &[(1, 2)]);
    let single = store
        .resource("r")
        .unwrap()
        .textselection(&Offset::simple(1, 2))?;
    assert_eq!(
        a.test(&TextSelectionOperator::embeds(), &single),
        a.test_set(&TextSelectionOperator::embeds(), &b),
        "testing against a text selection and against the singleton set of it must agree"
    );
    assert!(
        a.test(&TextSelectionOperator::embeds(), &single),
        "A={{[0,10),[20,21)}} EMBEDS [1,2) must hold: it is embedded by a text selection in A"
    );
    Ok(())
}

#[test]
fn annotation_embeds_is_converse_of_embedded() -> Result<(), StamError> {
    let store = store()?;
    let a = store.annotation("A").unwrap();
    let b = store.annotation("B").unwrap();
    assert!(b.test(&TextSelectionOperator::embedded(), &a));
    assert!(
        a.test(&TextSelectionOperator::embeds(), &b),
        "annotation A (text [0,10) + [20,21)) EMBEDS annotation B (text [1,2)) must hold because B EMBEDDED A holds"
    );
    // and the text found through the relation contains B's text
    let found: Vec<_> = a
        .related_text(TextSelectionOperator::embeds())
        .map(|t| (t.begin(), t.end()))
        .collect();
    assert!(
        found.contains(&(1, 2)),
        "related_text(EMBEDS) of A must find [1,2), got {:?}",
        found
    );
    Ok(())
}

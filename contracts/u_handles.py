"""U-handles: the handle collections behind query constraints and unions (src/api.rs `Handles<T>`):
contains / position / add / union / intersection / contains_subset / sort / from_iter, with their sorted fast
paths, against set semantics and the representation invariant "the sorted flag is only set on a sorted array".
Serves C08 (a disjunction returns the union of its branches without duplicates; constraint intersection)."""
import re
from vx.gen import Unit, Fn
from vx.rustsrc import ExtractError
from . import common
from . import u_map

P = ['C08']
API = 'src/api.rs'

SPEC = r'''
/// R-instantiate: `T::FullHandleType` is instantiated at the full handle type of annotations
pub type VxH = AnnotationHandle;

/// the derived `Ord` of a one-field tuple struct is the order of the wrapped integer (trusted)
pub open spec fn hk(h: VxH) -> int { h.idx() as int }

pub open spec fn sorted_seq(s: Seq<VxH>) -> bool { forall|i: int, j: int| 0 <= i < j < s.len() ==> hk(s[i]) <= hk(s[j]) }
pub open spec fn no_dups(s: Seq<VxH>) -> bool { s.no_duplicates() }

impl Handles {
    /// representation invariant: the sorted flag is only set on a sorted array
    pub open spec fn wf(&self) -> bool { self.sorted ==> sorted_seq(self.array@) }
}

pub proof fn lemma_key_eq(a: VxH, b: VxH)
    ensures hk(a) == hk(b) <==> a == b,
{
    if hk(a) == hk(b) { AnnotationHandle::idx_injective(a, b); }
}

pub proof fn lemma_sorted_sub(s: Seq<VxH>, lo: int, hi: int)
    requires sorted_seq(s), 0 <= lo <= hi <= s.len(),
    ensures sorted_seq(s.subrange(lo, hi)),
{
}

/// a permutation has the same members and the same duplicates
pub proof fn lemma_perm(a: Seq<VxH>, b: Seq<VxH>)
    requires a.to_multiset() == b.to_multiset(),
    ensures forall|h: VxH| a.contains(h) <==> b.contains(h),
            no_dups(a) <==> no_dups(b),
{
    assert forall|h: VxH| a.contains(h) <==> b.contains(h) by {
        vstd::seq_lib::to_multiset_contains(a, h);
        vstd::seq_lib::to_multiset_contains(b, h);
    }
    if a.no_duplicates() { a.lemma_multiset_has_no_duplicates(); b.lemma_multiset_has_no_duplicates_conv(); }
    if b.no_duplicates() { b.lemma_multiset_has_no_duplicates(); a.lemma_multiset_has_no_duplicates_conv(); }
}

pub proof fn lemma_sorted_push(s: Seq<VxH>, x: VxH)
    ensures sorted_seq(s.push(x)) <==> (sorted_seq(s) && (s.len() == 0 || hk(s.last()) <= hk(x))),
{
    let t = s.push(x);
    if sorted_seq(t) {
        assert forall|i: int, j: int| 0 <= i < j < s.len() implies hk(s[i]) <= hk(s[j]) by { assert(t[i] == s[i] && t[j] == s[j]); }
        if s.len() > 0 { assert(t[s.len() - 1] == s.last() && t[s.len() as int] == x); }
    }
    if sorted_seq(s) && (s.len() == 0 || hk(s.last()) <= hk(x)) {
        assert forall|i: int, j: int| 0 <= i < j < t.len() implies hk(t[i]) <= hk(t[j]) by {
            if j < s.len() { assert(t[i] == s[i] && t[j] == s[j]); }
            else { assert(t[i] == s[i]); if i < s.len() - 1 { assert(hk(s[i]) <= hk(s[s.len() - 1])); } }
        }
    }
}

/// inserting x at its insertion point of a sorted sequence
pub proof fn lemma_insert_sorted(s: Seq<VxH>, pos: int, x: VxH)
    requires sorted_seq(s), 0 <= pos <= s.len(),
        forall|j: int| 0 <= j < pos ==> hk(s[j]) < hk(x),
        forall|j: int| pos <= j < s.len() ==> hk(s[j]) > hk(x),
    ensures sorted_seq(s.insert(pos, x)),
        forall|h: VxH| #[trigger] s.insert(pos, x).contains(h) <==> s.contains(h) || h == x,
        !s.contains(x),
        no_dups(s) ==> no_dups(s.insert(pos, x)),
{
    let t = s.insert(pos, x);
    assert forall|i: int, j: int| 0 <= i < j < t.len() implies hk(t[i]) <= hk(t[j]) by {
        let oi = if i < pos { i } else { i - 1 };
        let oj = if j < pos { j } else { j - 1 };
        if i != pos && j != pos { assert(t[i] == s[oi]); assert(t[j] == s[oj]); }
        else if i == pos { assert(t[j] == s[oj]); }
        else { assert(t[i] == s[oi]); }
    }
    lemma_mem_insert(s, pos, x);
    assert forall|i: int| 0 <= i < s.len() implies s[i] != x by { lemma_key_eq(s[i], x); }
    if no_dups(s) {
        assert forall|i: int, j: int| 0 <= i < j < t.len() implies t[i] != t[j] by {
            let oi = if i < pos { i } else { i - 1 };
            let oj = if j < pos { j } else { j - 1 };
            if i != pos && j != pos { assert(t[i] == s[oi]); assert(t[j] == s[oj]); }
            else if i == pos { assert(t[j] == s[oj]); }
            else { assert(t[i] == s[oi]); }
        }
    }
}
pub proof fn lemma_mem_insert(s: Seq<VxH>, pos: int, x: VxH)
    requires 0 <= pos <= s.len(),
    ensures forall|h: VxH| #[trigger] s.insert(pos, x).contains(h) <==> s.contains(h) || h == x,
{
    let t = s.insert(pos, x);
    assert forall|h: VxH| #[trigger] t.contains(h) <==> s.contains(h) || h == x by {
        if t.contains(h) {
            let i = choose|i: int| 0 <= i < t.len() && t[i] == h;
            if i < pos { assert(s[i] == h); } else if i > pos { assert(s[i - 1] == h); }
        }
        if s.contains(h) {
            let i = choose|i: int| 0 <= i < s.len() && s[i] == h;
            if i < pos { assert(t[i] == h); } else { assert(t[i + 1] == h); }
        }
        if h == x { assert(t[pos] == h); }
    }
}
pub proof fn lemma_mem_push(s: Seq<VxH>, x: VxH)
    ensures forall|h: VxH| #[trigger] s.push(x).contains(h) <==> s.contains(h) || h == x,
{
    let t = s.push(x);
    assert forall|h: VxH| #[trigger] t.contains(h) <==> s.contains(h) || h == x by {
        if t.contains(h) { let i = choose|i: int| 0 <= i < t.len() && t[i] == h; if i < s.len() { assert(s[i] == h); } }
        if s.contains(h) { let i = choose|i: int| 0 <= i < s.len() && s[i] == h; assert(t[i] == h); }
        if h == x { assert(t[s.len() as int] == h); }
    }
}
pub proof fn lemma_nodup_push(s: Seq<VxH>, x: VxH)
    requires no_dups(s), !s.contains(x),
    ensures no_dups(s.push(x)),
{
}

/// state invariant of the sorted fast path of `intersection`: everything before `off` in `other` is not above x, and if
/// x occurs before `off` it also occurs at or after `off` (so searching other[off..] finds x iff other contains x)
pub open spec fn step_inv(other: Seq<VxH>, off: int, x: VxH) -> bool {
    0 <= off <= other.len()
    && (forall|j: int| 0 <= j < off ==> hk(#[trigger] other[j]) <= hk(x))
    && ((exists|j: int| 0 <= j < off && other[j] == x) ==> (exists|j2: int| off <= j2 < other.len() && other[j2] == x))
}

/// keep exactly the members of `other`, in order
pub open spec fn kept(s: Seq<VxH>, other: Seq<VxH>) -> Seq<VxH> { s.filter(|h: VxH| other.contains(h)) }

pub proof fn lemma_filter_sorted(s: Seq<VxH>, other: Seq<VxH>)
    ensures sorted_seq(s) ==> sorted_seq(kept(s, other)),
            kept(s, other).len() <= s.len(),
            forall|i: int| 0 <= i < kept(s, other).len() ==> s.contains(#[trigger] kept(s, other)[i]),
    decreases s.len(),
{
    reveal(Seq::filter);
    if s.len() > 0 {
        lemma_filter_sorted(s.drop_last(), other);
        let p = kept(s.drop_last(), other);
        let f = |h: VxH| other.contains(h);
        assert forall|i: int| 0 <= i < p.len() implies s.contains(#[trigger] p[i]) by {
            let w = choose|w: int| 0 <= w < s.drop_last().len() && s.drop_last()[w] == p[i];
            assert(s[w] == p[i]);
        }
        if f(s.last()) {
            assert(kept(s, other) == p.push(s.last()));
            assert(s[s.len() - 1] == s.last());
            if sorted_seq(s) {
                assert forall|i: int, j: int| 0 <= i < j < s.drop_last().len() implies hk(s.drop_last()[i]) <= hk(s.drop_last()[j]) by { }
                assert forall|i: int, j: int| 0 <= i < j < p.push(s.last()).len() implies hk(p.push(s.last())[i]) <= hk(p.push(s.last())[j]) by {
                    if j == p.len() {
                        let w = choose|w: int| 0 <= w < s.drop_last().len() && s.drop_last()[w] == p[i];
                        assert(s[w] == p[i]);
                    }
                }
            }
        } else {
            assert(kept(s, other) == p);
            if sorted_seq(s) { assert forall|i: int, j: int| 0 <= i < j < s.drop_last().len() implies hk(s.drop_last()[i]) <= hk(s.drop_last()[j]) by { } }
        }
    }
}

pub proof fn lemma_filter_mem(s: Seq<VxH>, other: Seq<VxH>)
    ensures forall|h: VxH| #[trigger] kept(s, other).contains(h) <==> s.contains(h) && other.contains(h),
    decreases s.len(),
{
    reveal(Seq::filter);
    if s.len() > 0 {
        lemma_filter_mem(s.drop_last(), other);
        let f = |h: VxH| other.contains(h);
        assert forall|h: VxH| #[trigger] kept(s, other).contains(h) <==> s.contains(h) && other.contains(h) by {
            let p = kept(s.drop_last(), other);
            if s.contains(h) {
                let i = choose|i: int| 0 <= i < s.len() && s[i] == h;
                if i < s.len() - 1 { assert(s.drop_last()[i] == h); }
            }
            if s.drop_last().contains(h) {
                let i = choose|i: int| 0 <= i < s.drop_last().len() && s.drop_last()[i] == h;
                assert(s[i] == h);
            }
            if f(s.last()) {
                assert(kept(s, other) == p.push(s.last()));
                if p.push(s.last()).contains(h) {
                    let i = choose|i: int| 0 <= i < p.push(s.last()).len() && p.push(s.last())[i] == h;
                    if i < p.len() { assert(p[i] == h); }
                }
                if p.contains(h) { let i = choose|i: int| 0 <= i < p.len() && p[i] == h; assert(p.push(s.last())[i] == h); }
                if h == s.last() { assert(p.push(s.last())[p.len() as int] == h); assert(s[s.len() - 1] == h); }
            } else {
                assert(kept(s, other) == p);
            }
        }
    }
}
'''

TRUSTED = r'''
/// R-outline: stands for `A[LO..HI].binary_search(X)`; the body is that expression.  Trusted: std's binary search on a
/// slice that is sorted (precondition - on an unsorted slice the result is unspecified) returns Ok(i) with A[LO+i] == X,
/// or Err(i) with i the insertion point.
#[verifier::external_body]
pub fn vx_binary_search_range(a: &Vec<VxH>, lo: usize, hi: usize, x: &VxH) -> (r: Result<usize, usize>)
    requires lo <= hi <= a@.len(), sorted_seq(a@.subrange(lo as int, hi as int)),
    ensures match r {
        Ok(i) => i < hi - lo && a@[lo + i] == *x,
        Err(i) => i <= hi - lo && (forall|j: int| lo <= j < lo + i ==> hk(a@[j]) < hk(*x)) && (forall|j: int| lo + i <= j < hi ==> hk(a@[j]) > hk(*x)),
    },
{ a[lo..hi].binary_search(x) }

/// R-outline: `A.binary_search(X)` on the whole array
#[verifier::external_body]
pub fn vx_binary_search(a: &Vec<VxH>, x: &VxH) -> (r: Result<usize, usize>)
    requires sorted_seq(a@),
    ensures match r {
        Ok(i) => i < a@.len() && a@[i as int] == *x,
        Err(i) => i <= a@.len() && (forall|j: int| 0 <= j < i ==> hk(a@[j]) < hk(*x)) && (forall|j: int| i <= j < a@.len() ==> hk(a@[j]) > hk(*x)),
    },
{ a.binary_search(x) }

/// R-outline: `A.contains(X)` on a slice (linear search, std semantics)
#[verifier::external_body]
pub fn vx_slice_contains(a: &Vec<VxH>, x: &VxH) -> (r: bool)
    ensures r == a@.contains(*x),
{ a.contains(x) }

/// R-outline: `A.sort_unstable()`: a sorted permutation (std semantics)
#[verifier::external_body]
pub fn vx_sort(a: &mut Vec<VxH>)
    ensures sorted_seq(final(a)@), final(a)@.to_multiset() == old(a)@.to_multiset(),
{ a.sort_unstable() }

/// R-outline: `P > ITEM` (and >=, <, <=) on two handles (derived PartialOrd)
#[verifier::external_body]
pub fn vx_gt(a: VxH, b: VxH) -> (r: bool)
    ensures r == (hk(a) > hk(b)),
{ a > b }
#[verifier::external_body]
pub fn vx_ge(a: VxH, b: VxH) -> (r: bool)
    ensures r == (hk(a) >= hk(b)),
{ a >= b }
#[verifier::external_body]
pub fn vx_lt(a: VxH, b: VxH) -> (r: bool)
    ensures r == (hk(a) < hk(b)),
{ a < b }
#[verifier::external_body]
pub fn vx_le(a: VxH, b: VxH) -> (r: bool)
    ensures r == (hk(a) <= hk(b)),
{ a <= b }

/// R-outline: `A.iter().zip(B.iter()).all(|(x, y)| x == y)`
#[verifier::external_body]
pub fn vx_all_equal(a: &Vec<VxH>, b: &Vec<VxH>) -> (r: bool)
    ensures a@.len() == b@.len() ==> r == (a@ == b@),
{ a.iter().zip(b.iter()).all(|(x, y)| x == y) }

/// R-lambda: `self.array.retain(|x| BODY)` with a closure that updates the captured `offset` - the closure is lifted into
/// vx_intersection_keep (its body is the closure body, cut from the source on every run, and verified against the
/// contract below).  Trusted: Vec::retain calls the closure once per element, in order, and keeps exactly the elements
/// for which it returns true; on a sorted receiver successive elements do not decrease, so by the closure's own
/// postcondition (step_inv for every later element) its precondition holds at every call.
#[verifier::external_body]
pub fn vx_retain_members(v: &mut Vec<VxH>, self_sorted: bool, other: &Handles, offset: &mut usize)
    requires other.wf(), *old(offset) == 0, self_sorted ==> sorted_seq(old(v)@),
    ensures final(v)@ == kept(old(v)@, other.array@),
{ unimplemented!() }

/// R-outline: `A.clone()` of a vector of Copy handles
#[verifier::external_body]
pub fn vx_clone(a: &Vec<VxH>) -> (r: Vec<VxH>)
    ensures r@ == a@,
{ a.clone() }
'''

UNION_PRE = '''proof {
                            let orig = old(self).array@;
                            assert(self.array@.subrange(offset as int, vx_n as int) =~= orig.subrange(offset as int, vx_n as int));
                            lemma_sorted_sub(orig, offset as int, vx_n as int);
                        }'''

UNION_STEP = '''proof {
                    let i = vx_it.index@ as int; let orig = old(self).array@; let ot = other.array@;
                    assert(ot.take(i + 1) =~= ot.take(i).push(item));
                    lemma_mem_push(ot.take(i), item);
                    lemma_mem_push(vx_pre, item);
                    assert(self.array@ == vx_pre || self.array@ == vx_pre.push(item));
                    assert(forall|j: int| 0 <= j < vx_n ==> self.array@.take(vx_n as int)[j] == self.array@[j]);
                    if self.array@ == vx_pre {
                        // the item was found: it is a member already
                        assert(vx_pre.contains(item));
                    } else if no_dups(orig) && no_dups(ot) {
                        // the item was not found: it is new
                        assert(!ot.take(i).contains(item)) by {
                            if ot.take(i).contains(item) { let w = choose|w: int| 0 <= w < i && ot.take(i)[w] == item; assert(ot[w] == ot[i]); }
                        }
                        if self.sorted && other.sorted {
                            assert forall|j: int| 0 <= j < vx_n implies orig[j] != item by {
                                lemma_key_eq(orig[j], item);
                                if i > 0 { assert(ot[i - 1] != ot[i]); lemma_key_eq(ot[i - 1], ot[i]); }
                            }
                        }
                        assert(!vx_pre.contains(item));
                        lemma_nodup_push(vx_pre, item);
                    }
                }'''

# the common rewrites of the Handles bodies (R-instantiate / R-cow): T::FullHandleType := VxH, Cow<[H]> := Vec<H>
COMMON = [
    ('R-instantiate', r'T::FullHandleType', 'VxH', 'opt'),
    ('R-cow', r'\.to_mut\(\)', '', 'opt'),
]


def CMP_OUTLINE(m):
    return {'>': 'vx_gt', '>=': 'vx_ge', '<': 'vx_lt', '<=': 'vx_le'}[m.group(2)] + '(%s, %s)' % (m.group(1), m.group(3))


def F(name, **kw):
    kw['rewrites'] = COMMON + kw.get('rewrites', [])
    kw['sig_rewrites'] = kw.get('sig_rewrites', []) + [('R-instantiate', r'T::FullHandleType', 'VxH', 'opt')]
    return Fn(name, props=P, **kw)


def build():
    u = Unit('u_handles', serves=['C08'])
    common.target64(u)
    common.std_specs(u)
    common.handle_trait(u, P)
    common.handle_impl(u, 'AnnotationHandle', P)
    u.trusted_text(u_map.VX_POSITION, 'external_body vx_position: std Iterator::position semantics + structural == on handles (R-outline)')
    u.item(API, 'struct', 'Handles', keep_fields=['array', 'sorted'], keep_derives=[],
           rewrites=[('R-instantiate', r"Handles<'store, T>\s*where\s*T: Storable,", 'Handles'),
                     ('R-cow', r"Cow<'store, \[T::FullHandleType\]>", 'Vec<VxH>'),
                     ('R-vis', r'\barray:', 'pub array:'), ('R-vis', r'\bsorted:', 'pub sorted:')])
    u.spec(SPEC, 'contracts/u_handles.py:SPEC')
    u.trusted_text(TRUSTED, 'external_body outlines of std slice operations on handle arrays: binary_search (requires a sorted slice), contains, sort_unstable, derived PartialOrd, zip/all equality, clone')

    O, N = 'old(self)', 'final(self)'
    MEM_SELF = f'forall|h: VxH| #[trigger] {N}.array@.contains(h) <==> '
    BS = ('R-outline', r'self\.array\.binary_search\(&handle\)', 'vx_binary_search(&self.array, handle)')
    fns = [
        F('len', ret='r', ensures=[('len', 'r == self.array@.len()')]),
        F('contains', ret='r', requires=[('wf', 'self.wf()')],
          rewrites=[BS, ('R-outline', r'self\.array\.contains\(&handle\)', 'vx_slice_contains(&self.array, handle)')],
          prologue='proof { assert forall|a: VxH, b: VxH| hk(a) == hk(b) <==> a == b by { lemma_key_eq(a, b); } }',
          ensures=[('iff_member', 'r == self.array@.contains(*handle)')]),
        F('position', ret='r', requires=[('wf', 'self.wf()')],
          rewrites=[BS, ('R-outline', r'self\.array\.iter\(\)\.position\(\|x\| x == handle\)', 'vx_position(&self.array, *handle)')],
          prologue='proof { assert forall|a: VxH, b: VxH| hk(a) == hk(b) <==> a == b by { lemma_key_eq(a, b); } }',
          ensures=[('some_iff_member', 'r is Some <==> self.array@.contains(*handle)'),
                   ('index', 'r is Some ==> r.unwrap() < self.array@.len() && self.array@[r.unwrap() as int] == *handle')]),
        F('add', requires=[('wf', 'old(self).wf()')],
          rewrites=[('R-outline', r'self\.array\.binary_search\(&item\)', 'vx_binary_search(&self.array, &item)')],
          before=[(r're:self\.array\.insert\(pos, item\)', 'proof { lemma_insert_sorted(self.array@, pos as int, item); }'),
                  (r're:self\.array\.push\(item\);', 'proof { lemma_mem_push(self.array@, item); if no_dups(self.array@) { lemma_nodup_push(self.array@, item); } }')],
          ensures=[('wf', f'{N}.wf() && {N}.sorted == {O}.sorted'),
                   ('member', MEM_SELF + f'{O}.array@.contains(h) || h == item'),
                   ('present_unchanged', f'{O}.array@.contains(item) ==> {N}.array@ == {O}.array@'),
                   ('absent_grows', f'!{O}.array@.contains(item) ==> {N}.array@.len() == {O}.array@.len() + 1'),
                   ('no_duplicates', f'no_dups({O}.array@) ==> no_dups({N}.array@)')]),
        F('sort', requires=[('wf', 'old(self).wf()')], rewrites=[('R-outline', r'self\.array\.sort_unstable\(\);', 'vx_sort(&mut self.array);')],
          ensures=[('sorted', f'{N}.sorted && sorted_seq({N}.array@)'),
                   ('permutation', f'{N}.array@.to_multiset() == {O}.array@.to_multiset()'),
                   ('idempotent', f'{O}.sorted ==> {N}.array@ == {O}.array@')]),
        F('contains_subset', ret='r', requires=[('wf', 'self.wf()')],
          rewrites=[('R-forname', r'for handle in subset\.iter\(\) \{', 'for vx_h in vx_it: subset.array.iter() { let handle = *vx_h;')],
          loops={0: dict(invariant=[('wf', 'self.wf()'), ('so_far', 'forall|j: int| 0 <= j < vx_it.index@ ==> self.array@.contains(#[trigger] subset.array@[j])')])},
          ensures=[('iff_subset', 'r == (forall|h: VxH| subset.array@.contains(h) ==> self.array@.contains(h))')]),
        F('from_iter', ret='r',
          sig_rewrites=[('R-instantiate', r"iter: impl Iterator<Item = T::FullHandleType>,\s*store: &'store AnnotationStore,", 'iter: Vec<VxH>,')],
          rewrites=[('R-forname', r'for item in iter \{', 'for item in vx_it: iter {'),
                    ('R-outline', r'\b(p|item) (>=|<=|>|<) (p|item)\b', CMP_OUTLINE),
                    ('R-cow', r'Cow::Owned\(v\)', 'v'),
                    ('R-field', r'(?m)^\s*store,\n', '')],
          loops={0: dict(invariant=[('copy', 'v@ == iter@.take(vx_it.index@ as int)'),
                                    ('prev', 'prev == (if vx_it.index@ > 0 { Some(iter@[vx_it.index@ - 1]) } else { None::<VxH> })'),
                                    ('flag', 'sorted <==> sorted_seq(v@)')])},
          after=[('prev = Some(item);', 'proof { let i = vx_it.index@ as int; assert(iter@.take(i + 1) =~= iter@.take(i).push(item)); lemma_sorted_push(iter@.take(i), item); if i > 0 { assert(iter@.take(i).last() == iter@[i - 1]); } }')],
          ensures=[('array', 'r.array@ == iter@'), ('flag_exact', 'r.sorted <==> sorted_seq(iter@)'), ('wf', 'r.wf()')]),
        F('union', requires=[('wf', 'old(self).wf() && other.wf()')],
          prologue='let ghost vx_n: usize = self.array@.len() as usize;',
          rewrites=[('R-outline', r'other\.iter\(\)\.next\(\)\.unwrap\(\)', 'other.array[0]'),
                    ('R-forname', r'for item in other\.iter\(\) \{', 'for vx_h in vx_it: other.array.iter() { let item = *vx_h; let ghost vx_pre = self.array@;'),
                    ('R-outline', r'self\.array\[offset\.\.(\w*)\]\.binary_search\(&item\)', lambda m: 'vx_binary_search_range(&self.array, offset, %s, &item)' % (m.group(1) or 'self.array.len()')),
                    ('R-outline', r'self\.array\.contains\(&item\)', 'vx_slice_contains(&self.array, &item)', 'opt'),
                    ('R-outline', r'self\.array\.sort_unstable\(\);', 'vx_sort(&mut self.array);')],
          before=[(r're:match vx_binary_search_range\(', UNION_PRE, None, 'fast_path'),
                  (r're:if self\.sorted && updated \{', 'let ghost vx_unsorted = self.array@; proof { assert(other.array@.take(other.array@.len() as int) =~= other.array@); }')],
          after=[(r're:vx_sort\(&mut self\.array\);', 'proof { lemma_perm(vx_unsorted, self.array@); }')],
          loops={r'vx_it: other\.array': dict(invariant=[
              ('wf_in', 'old(self).wf() && other.wf()'),
              ('flag', 'self.sorted == old(self).sorted'),
              ('orig', 'vx_n == old(self).array@.len() && self.array@.len() >= vx_n && self.array@.take(vx_n as int) =~= old(self).array@'),
              ('offset', 'offset <= vx_n'),
              ('origlen', 'origlen == vx_n', 'origlen'),
              ('fast', 'self.sorted && other.sorted && offset > 0 ==> vx_it.index@ > 0 && forall|j: int| 0 <= j < offset ==> hk(#[trigger] old(self).array@[j]) <= hk(other.array@[vx_it.index@ - 1])'),
              ('member', 'forall|h: VxH| #[trigger] self.array@.contains(h) <==> old(self).array@.contains(h) || other.array@.take(vx_it.index@ as int).contains(h)'),
              ('no_duplicates', 'no_dups(old(self).array@) && no_dups(other.array@) ==> no_dups(self.array@)'),
              ('updated', '!updated ==> self.array@ == old(self).array@'),
          ], at_end=UNION_STEP)},
          ensures=[('wf', f'{N}.wf() && {N}.sorted == {O}.sorted'),
                   ('member', MEM_SELF + f'{O}.array@.contains(h) || other.array@.contains(h)'),
                   ('no_duplicates', f'no_dups({O}.array@) && no_dups(other.array@) ==> no_dups({N}.array@)')]),
        F('intersection', requires=[('wf', 'old(self).wf() && other.wf()')],
          rewrites=[('R-outline', r'self\.iter\(\)\.zip\(other\.iter\(\)\)\.all\(\|\(x, y\)\| x == y\)', 'vx_all_equal(&self.array, &other.array)'),
                    ('R-outline', r'other\.array\.clone\(\)', 'vx_clone(&other.array)'),
                    ('R-lambda', r'(?s)self\.array\.retain\(\|x\| \{.*\}\);', 'let vx_sorted = self.sorted; vx_retain_members(&mut self.array, vx_sorted, other, &mut offset);')],
          prologue='proof { lemma_filter_mem(old(self).array@, other.array@); lemma_filter_sorted(old(self).array@, other.array@); }',
          ensures=[('member', MEM_SELF + f'{O}.array@.contains(h) && other.array@.contains(h)'),
                   ('wf', f'{N}.wf()'),
                   ('no_new', f'{N}.array@.len() <= {O}.array@.len()')]),
        F('add_unchecked', ensures=[('push', f'{N}.array@ == {O}.array@.push(item) && {N}.sorted == {O}.sorted')]),
    ]
    u.impl(API, "impl<'store, T> Handles<'store, T>", fns, verus_header='impl Handles')
    lift_closure(u)
    return u


def lift_closure(u):
    """R-lambda: the closure of `retain` in Handles::intersection, as a function with the captured state made explicit"""
    rf = u.rf(API)
    hs, o, c = rf.find_impl("impl<'store, T> Handles<'store, T>")
    loc = rf.find_fn('intersection', (o, c))
    body = rf.text[loc['body_open']:loc['end']]
    ms = list(re.finditer(r'(?s)self\.array\.to_mut\(\)\.retain\(\|x\| \{(.*)\}\);', body))
    if len(ms) != 1:
        raise ExtractError(f"{API}: intersection: expected exactly one `self.array.to_mut().retain(|x| {{ .. }});`, found {len(ms)}")
    cbody = ms[0].group(1)
    line = rf.line_of(loc['body_open'] + ms[0].start(1))
    subs = [(r'\bself\.sorted\b', 'vx_self_sorted'),
            (r'other\.array\[offset\.\.\]\.binary_search\(x\)', 'vx_binary_search_range(&other.array, *offset, other.array.len(), x)'),
            (r'\boffset (\+?=)', r'*offset \1')]
    for pat, repl in subs:
        cbody, n = re.subn(pat, repl, cbody)
        if n == 0:
            raise ExtractError(f"{API}:{line}: intersection closure: pattern {pat!r} did not fire")
    u.rewrite_log.append(dict(rule='R-lambda', at=f"{API}:{line}", what="closure of self.array.retain(|x| ..) lifted into vx_intersection_keep; captured self.sorted / offset made parameters"))
    u.raw_fn('Handles::intersection::{closure}', P, API, line,
             'pub fn vx_intersection_keep(x: &VxH, vx_self_sorted: bool, other: &Handles, offset: &mut usize) -> (r: bool)',
             [('wf', 'requires', 'other.wf()'),
              ('state', 'requires', 'vx_self_sorted && other.sorted ==> step_inv(other.array@, *old(offset) as int, *x)'),
              ('keeps_iff_member', 'ensures', 'r == other.array@.contains(*x)'),
              ('state_for_later_elements', 'ensures', 'vx_self_sorted && other.sorted ==> forall|x2: VxH| hk(x2) >= hk(*x) ==> #[trigger] step_inv(other.array@, *final(offset) as int, x2)')],
             'proof { assert forall|a: VxH, b: VxH| hk(a) == hk(b) <==> a == b by { lemma_key_eq(a, b); } if vx_self_sorted && other.sorted { lemma_sorted_sub(other.array@, *offset as int, other.array@.len() as int); } }\n' + cbody,
             'R-lambda lifted closure')

#!/bin/bash
# runs the repository's own test suite (guard off) on /repo's working tree; prints a summary
cd /repo && CARGO_NET_OFFLINE=true cargo test --workspace --no-fail-fast --offline "$@" 2>&1 | grep -E "^test result|FAILED|failed|panicked|error(\[|:)" 

"""U-store: the generic store layer of src/store.rs - StoreFor::{insert, remove, get, get_mut, has,
resolve_id, next_handle}, verified once, modularly, against contracts on the accessors and the
callbacks.  Serves C03 (identifiers), C02 (removal), C14 (failure atomicity of insert), C10."""
from vx.gen import Unit, Fn
from . import common
from . import store_common as sc

P = ['C03', 'C02', 'C14']
ST = sc.ST


def build():
    u = Unit('u_store', serves=['C03', 'C02', 'C14', 'C10', 'C19'])
    common.target64(u)
    common.handle_trait(u, P)
    for h in common.HANDLE_TYPES:
        common.handle_impl(u, h, P)
    callbacks = sc.emit_store_layer(u, P)
    for cb in callbacks:
        cb.from_block = (ST, 'pub trait StoreCallbacks<T: crate::store::Storable>')
        cb.sig_rewrites.append(('R-path', r'crate::error::StamError', 'StamError'))
    str_req = sc.inline_request(sc.request_body(u, "impl<'a, T> Request<T> for &'a str"))
    h_req = sc.inline_request(sc.handle_request_body(u))

    def req_variants(name, **kw):
        """R-request: one instance per request type used"""
        out = []
        for suffix, ty, body in (('__str', '&str', str_req), ('__handle', 'T::HandleType', h_req)):
            k = dict(kw)
            ens = k.pop('ensures_fn')(suffix)
            out.append(Fn(name, emit_name=name + suffix, props=P, ret='r',
                          sig_rewrites=[('R-request', r'item: impl Request<T>', f'item: {ty}')],
                          rewrites=[('R-request', r'item\.to_handle\(self\)', body)] + k.pop('rewrites', []),
                          ensures=ens, **k))
        return out

    def target(suffix):
        # the handle index the request denotes
        if suffix == '__str':
            return "(match self.view_idmap() { Some(m) => resolves_to::<T>(m, self.view_temp_ids(), item@), None => None })"
        return 'Some(item.idx())'

    def get_ens(suffix):
        t = target(suffix)
        return [('ok_iff', f'r is Ok <==> ({t} is Some && live(self.view_store(), {t}.unwrap() as int))'),
                ('item', f'r is Ok ==> *r->Ok_0 == self.view_store()[{t}.unwrap() as int].unwrap()')]

    def has_ens(suffix):
        t = target(suffix)
        return [('iff', f'r <==> ({t} is Some && live(self.view_store(), {t}.unwrap() as int))')]

    def get_mut_ens(suffix):
        t = target(suffix).replace('self.', 'old(self).')
        return [('ok_iff', f'r is Ok <==> ({t} is Some && live(old(self).view_store(), {t}.unwrap() as int))'),
                ('item', f'r is Ok ==> *r->Ok_0 == old(self).view_store()[{t}.unwrap() as int].unwrap()'),
                ('writes_back', f'r is Ok ==> final(self).view_store() == old(self).view_store().update({t}.unwrap() as int, Some(*final(r->Ok_0)))'),
                ('err_frame', 'r is Err ==> final(self).view_store() == old(self).view_store()'),
                ('frame', 'final(self).view_idmap() == old(self).view_idmap() && final(self).view_temp_ids() == old(self).view_temp_ids() && final(self).view_config() == old(self).view_config()')]

    def remove_ens(suffix):
        t = target(suffix).replace('self.', 'old(self).')
        return [('ok_iff_resolves', f'r is Ok ==> {t} is Some && live(old(self).view_store(), {t}.unwrap() as int)'),
                ('tombstone', f'r is Ok ==> final(self).view_store()[{t}.unwrap() as int] is None'),
                ('only_shrinks', 'store_shrinks(old(self).view_store(), final(self).view_store())'),
                ('wf', 'r is Ok ==> idmap_wf(final(self).view_store(), final(self).view_idmap())'),
                ('id_gone', f'''r is Ok && final(self).view_idmap() is Some ==> forall|id: Seq<char>| #[trigger] final(self).view_idmap().unwrap().contains_key(id) ==> final(self).view_idmap().unwrap()[id].idx() != {t}.unwrap()'''),
                ('idmap_sub', 'old(self).view_idmap() is Some ==> final(self).view_idmap() is Some && final(self).view_idmap().unwrap().submap_of(old(self).view_idmap().unwrap())'),
                ('exact', f'''r is Ok && Self::cascade_free() ==> final(self).view_store() == old(self).view_store().update({t}.unwrap() as int, None)
                      && (old(self).view_idmap() is Some ==> final(self).view_idmap() == Some(match old(self).view_store()[{t}.unwrap() as int].unwrap().spec_id() {{ Some(id) => old(self).view_idmap().unwrap().remove(id), None => old(self).view_idmap().unwrap() }}))'''),
                ('succeeds', f'(Self::cascade_free() && {t} is Some && live(old(self).view_store(), {t}.unwrap() as int) && Self::preremove_ok(*old(self), {t}.unwrap())) ==> r is Ok')]

    fns = [
        Fn('store', props=P, ret='r', ensures=[('view', 'r@ == self.view_store()')]),
        Fn('store_mut', props=P, ret='r',
           ensures=[('view', 'r@ == old(self).view_store()'), ('writes_back', 'final(self).view_store() == final(r)@'),
                    ('frame', 'final(self).view_idmap() == old(self).view_idmap() && final(self).view_temp_ids() == old(self).view_temp_ids() && final(self).view_config() == old(self).view_config() && final(self).view_rest() == old(self).view_rest()')]),
        Fn('idmap_mut', props=P, ret='r', decl_only=True,
           ensures=[('view', '''match r { Some(m) => old(self).view_idmap() == Some(m.data@) && m.resolve_temp_ids == old(self).view_temp_ids()
                                 && final(self).view_idmap() == Some(final(m).data@) && final(self).view_temp_ids() == final(m).resolve_temp_ids,
                             None => old(self).view_idmap() is None && final(self).view_idmap() is None && final(self).view_temp_ids() == old(self).view_temp_ids() }'''),
                    ('frame', 'final(self).view_store() == old(self).view_store() && final(self).view_config() == old(self).view_config() && final(self).view_rest() == old(self).view_rest()')]),
        Fn('idmap', props=P, ret='r', decl_only=True,
           ensures=[('view', 'match r { Some(m) => self.view_idmap() == Some(m.data@) && m.resolve_temp_ids == self.view_temp_ids(), None => self.view_idmap() is None }')]),
        Fn('store_typeinfo', props=P, ret='r'),
        Fn('config', props=P, ret='r', from_block=('src/config.rs', 'pub trait Configurable: Sized'), ensures=[('view', '*r == self.view_config()')]),
    ] + callbacks + [
        Fn('resolve_id', props=P + ['C19'], ret='r',
           rewrites=[('R-outline', r'id\.starts_with\(T::temp_id_prefix\(\)\)', 'vx_starts_with(id, T::temp_id_prefix())'),
                     ('R-err', r'id\.to_string\(\)', 'vx_msg()')],
           ensures=[('ok_iff', 'r is Ok <==> (self.view_idmap() is Some && resolves_to::<T>(self.view_idmap().unwrap(), self.view_temp_ids(), id@) is Some)'),
                    ('handle', 'r is Ok ==> r->Ok_0.idx() == resolves_to::<T>(self.view_idmap().unwrap(), self.view_temp_ids(), id@).unwrap()')],
           prologue='proof { T::HandleType::hmax_bound(); }'),
        Fn('next_handle', props=P, ret='r', requires=[('fits', 'self.view_store().len() <= T::HandleType::hmax()')],
           ensures=[('next', 'r.idx() == self.view_store().len()')]),
    ] + req_variants('has', ensures_fn=has_ens) + req_variants('get', ensures_fn=get_ens) \
      + req_variants('get_mut', ensures_fn=get_mut_ens) + req_variants('remove', ensures_fn=remove_ens, requires=[('wf', 'idmap_wf(old(self).view_store(), old(self).view_idmap())')],
                                                                        rewrites=[('R-outline', r'item\.id\(\)\.map\(\|x\| x\.to_string\(\)\)', 'vx_owned(item.id())')])
    # ------------------------------------------------------------------ insert
    OLD = 'old(self).view_store()'
    OLDM = 'old(self).view_idmap()'
    UNCH = 'final(self).view_store() == old(self).view_store() && final(self).view_idmap() == old(self).view_idmap()'
    # the id of the item resolves to an existing live item (duplicate id)
    DUP = f'(T::spec_carries_id() && item.spec_id() is Some && {OLDM} is Some && resolves_to::<T>({OLDM}.unwrap(), old(self).view_temp_ids(), item.spec_id().unwrap()) is Some && live({OLD}, resolves_to::<T>({OLDM}.unwrap(), old(self).view_temp_ids(), item.spec_id().unwrap()).unwrap() as int))'
    GEN = '(T::spec_carries_id() && item.spec_id() is None && old(self).view_config().generate_ids)'
    fns.append(Fn('insert', props=P, ret='r',
                  rewrites=[('R-request', r'self\.has\(id\)', 'self.has__str(id)'),
                            ('R-request', r'self\.get\(id\)', 'self.get__str(id)'),
                            ('R-request', r'self\.get_mut\(id\)', 'self.get_mut__str(id)'),
                            ('R-closure-inline', r'self\.idmap_mut\(\)\.map\(\|idmap\| \{(.*?)\}\);', r'if let Some(idmap) = self.idmap_mut() {\1; }'),
                            ('R-asserteq', r'assert_eq!\(handle, T::HandleType::new\(self\.store\(\)\.len\(\) - 1\), "[^"]*"\);', 'vx_assert_eq_handle(handle, T::HandleType::new(self.store().len() - 1));')],
                  after=[('item = item.with_handle(self.next_handle());', 'proof { T::HandleType::idx_injective(intid, item.spec_handle().unwrap()); }')],
                  requires=[('wf', f'idmap_wf({OLD}, {OLDM})'),
                            ('fits', f'{OLD}.len() < T::HandleType::hmax()'),
                            ('unbound_or_next', f'item.spec_handle() is None || item.spec_handle().unwrap().idx() == {OLD}.len()')],
                  ensures=[
                      ('duplicate_rejected', f'{DUP} && !old(self).view_config().merge ==> (r is Err || (r is Ok && r->Ok_0.idx() == resolves_to::<T>({OLDM}.unwrap(), old(self).view_temp_ids(), item.spec_id().unwrap()).unwrap())) && {UNCH}'),
                      ('atomic', f'r is Err && !old(self).view_config().merge && (forall|it: T| #![trigger Self::preinsert_ok(old(self).view_rest(), it)] #![trigger Self::inserted_ok(old(self).view_rest(), it)] Self::preinsert_ok(old(self).view_rest(), it) && Self::inserted_ok(old(self).view_rest(), it)) ==> {UNCH}'),
                      ('appends', f'r is Ok && !{DUP} ==> r->Ok_0.idx() == {OLD}.len() && final(self).view_store().len() == {OLD}.len() + 1 && final(self).view_store().take({OLD}.len() as int) =~= {OLD} && final(self).view_store().last() is Some && final(self).view_store().last().unwrap().spec_handle() == Some(r->Ok_0)'),
                      ('keeps_id', f'r is Ok && !{DUP} && !{GEN} ==> final(self).view_store().last().unwrap().spec_id() == item.spec_id()'),
                      ('idmap', f'r is Ok && !{DUP} && !{GEN} ==> (final(self).view_idmap() is Some <==> {OLDM} is Some) && ({OLDM} is Some ==> final(self).view_idmap().unwrap() =~= (if T::spec_carries_id() && item.spec_id() is Some {{ {OLDM}.unwrap().insert(item.spec_id().unwrap(), r->Ok_0) }} else {{ {OLDM}.unwrap() }}))'),
                      ('wf', f'r is Ok && !{DUP} && !{GEN} && (!T::spec_carries_id() ==> item.spec_id() is None) && (item.spec_id() is Some ==> !is_temp_form::<T>(old(self).view_temp_ids(), item.spec_id().unwrap())) ==> idmap_wf(final(self).view_store(), final(self).view_idmap())'),
                  ]))
    u.impl(ST, 'pub trait StoreFor<T: Storable>: Configurable + private::StoreCallbacks<T>', fns,
           verus_header='pub trait StoreFor<T: Storable>: Sized', extra=sc.STOREFOR_GHOST)
    return u

"""U-cascade: the index-hygiene half of the removal callbacks of AnnotationStore (src/annotationstore.rs).
The part of StoreCallbacks<Annotation>::preremove that updates the reverse indices is cut out as a
region (R-region) and proved to remove exactly the pairs (target, removed annotation) from exactly the
right index.  Serves C02 and C01."""
import re
from vx.gen import Unit, Fn
from . import common
from . import u_map

P = ['C02', 'C01']
AS = 'src/annotationstore.rs'

SPEC = r'''
pub open spec fn at_most_once<B>(s: Seq<B>, y: B) -> bool {
    forall|i: int, j: int| 0 <= i < j < s.len() ==> !(s[i] == y && s[j] == y)
}

pub proof fn lemma_removed_gone<B>(old: Seq<B>, new: Seq<B>, y: B)
    requires is_remove_first(old, new, y), at_most_once(old, y),
    ensures !new.contains(y),
{
    if old.contains(y) {
        let pos = choose|pos: int| 0 <= pos < old.len() && old[pos] == y && (forall|i: int| 0 <= i < pos ==> old[i] != y) && new == old.remove(pos);
        assert forall|k: int| 0 <= k < new.len() implies new[k] != y by {
            if k < pos { assert(new[k] == old[k]); } else { assert(new[k] == old[k + 1]); }
        }
    }
}

pub proof fn lemma_remove_absent<B>(old: Seq<B>, new: Seq<B>, y: B)
    requires is_remove_first(old, new, y), !old.contains(y),
    ensures new == old,
{
}

/// one more removal of h from a row that was (or was not) already un-indexed
pub proof fn lemma_row_step<B>(o: Seq<B>, c: Seq<B>, n: Seq<B>, h: B, was_target: bool)
    requires
        at_most_once(o, h),
        was_target ==> is_remove_first(o, c, h) && !c.contains(h),
        !was_target ==> c == o,
        is_remove_first(c, n, h),
    ensures is_remove_first(o, n, h), !n.contains(h),
{
    if was_target { lemma_remove_absent(c, n, h); } else { lemma_removed_gone(o, n, h); }
}

// ------------------------------------------------------------------ row views of the three index shapes

/// the annotation `h` is listed at most once in every row of the index (C01: "none twice")
pub open spec fn rm_once<A, B>(m: RelationMap<A, B>, h: B) -> bool { forall|x: int| at_most_once(#[trigger] rm_row(m, x), h) }
pub open spec fn bt_once<A: Handle, B: Handle>(m: RelationBTreeMap<A, B>, h: B) -> bool { forall|x: A| at_most_once(#[trigger] bt_row(m, x), h) }
pub open spec fn tr_once<A, B, C>(m: TripleRelationMap<A, B, C>, h: C) -> bool { forall|x: int, y: int| at_most_once(#[trigger] m.cell(x, y), h) }

/// effect of un-indexing annotation `h` from the rows `targets` of one index: exactly the first
/// (= only) occurrence of h leaves each targeted row, in place; every other row is untouched
pub open spec fn rm_unindexed<A: Handle, B>(old: RelationMap<A, B>, new: RelationMap<A, B>, targets: Seq<A>, h: B) -> bool {
    forall|x: int| #![trigger rm_row(new, x)]
        ((exists|t: int| 0 <= t < targets.len() && targets[t].idx() == x) ==> is_remove_first(rm_row(old, x), rm_row(new, x), h) && !rm_row(new, x).contains(h))
        && (!(exists|t: int| 0 <= t < targets.len() && targets[t].idx() == x) ==> rm_row(new, x) == rm_row(old, x))
}
pub open spec fn bt_unindexed<A: Handle, B: Handle>(old: RelationBTreeMap<A, B>, new: RelationBTreeMap<A, B>, targets: Seq<A>, h: B) -> bool {
    forall|x: A| #![trigger bt_row(new, x)]
        (targets.contains(x) ==> is_remove_first(bt_row(old, x), bt_row(new, x), h) && !bt_row(new, x).contains(h))
        && (!targets.contains(x) ==> bt_row(new, x) == bt_row(old, x))
}
pub open spec fn tr_unindexed<A: Handle, B: Handle, C>(old: TripleRelationMap<A, B, C>, new: TripleRelationMap<A, B, C>, targets: Seq<(A, B)>, h: C) -> bool {
    forall|x: int, y: int| #![trigger new.cell(x, y)]
        ((exists|t: int| 0 <= t < targets.len() && targets[t].0.idx() == x && targets[t].1.idx() == y) ==> is_remove_first(old.cell(x, y), new.cell(x, y), h) && !new.cell(x, y).contains(h))
        && (!(exists|t: int| 0 <= t < targets.len() && targets[t].0.idx() == x && targets[t].1.idx() == y) ==> new.cell(x, y) == old.cell(x, y))
}
'''


def build():
    u = Unit('u_cascade', serves=['C02', 'C01'])
    u.use('use std::marker::PhantomData;')
    u.use('use std::collections::BTreeMap;')
    common.target64(u)
    common.std_specs(u)
    common.handle_trait(u, P)
    for h in ('AnnotationHandle', 'TextResourceHandle', 'AnnotationDataSetHandle', 'AnnotationDataHandle', 'DataKeyHandle', 'TextSelectionHandle', 'AnnotationSubStoreHandle'):
        common.handle_impl(u, h, P)
    u.trusted_text(u_map.VX_POSITION, 'external_body vx_position: std Iterator::position semantics + structural == on handles (R-outline)')
    u_map.emit_relationmap(u, P, with_canary=False, pushed=True)
    u_map.emit_other_maps(u, P, pushed=True)
    u.spec(SPEC, 'contracts/u_cascade.py:SPEC')
    MAPS = ['dataset_data_annotation_map', 'textrelationmap', 'resource_annotation_metamap', 'dataset_annotation_metamap',
            'annotation_annotation_map', 'key_annotation_metamap', 'data_annotation_metamap']
    u.item('src/error.rs', 'enum', 'StamError', keep_variants=['HandleError', 'NotFoundError', 'OtherError'], keep_derives=['Debug'],
           rewrites=[('R-field', r'NotFoundError\(Type, &\'static str\)', "NotFoundError(&'static str)")])
    UNTOUCHED = ['key_annotation_map', 'annotation_substore_map', 'resource_substore_map', 'dataset_substore_map']
    u.item(AS, 'struct', 'AnnotationStore', keep_fields=MAPS + UNTOUCHED, keep_derives=[])
    CMP = 'vstd::laws_cmp::obeys_cmp::<AnnotationHandle>()'
    SIG = ('fn preremove__unindex(&mut self, handle: AnnotationHandle, annotation_targets: Vec<AnnotationHandle>, resource_targets: Vec<TextResourceHandle>, '
           'dataset_targets: Vec<AnnotationDataSetHandle>, data_handles: Vec<(AnnotationDataSetHandle, AnnotationDataHandle)>, '
           'data_targets: Vec<(AnnotationDataSetHandle, AnnotationDataHandle)>, key_targets: Vec<(AnnotationDataSetHandle, DataKeyHandle)>, '
           'text_targets: Vec<(TextResourceHandle, TextSelectionHandle)>) -> Result<(), StamError>')

    LOOPS = [  # (targets var, loop var pattern, map field, shape)
        ('annotation_targets', 'annotation_handle', 'annotation_annotation_map', 'bt'),
        ('resource_targets', 'resource_handle', 'resource_annotation_metamap', 'rm'),
        ('dataset_targets', 'dataset_handle', 'dataset_annotation_metamap', 'rm'),
        ('data_handles', '(set_handle, data_handle)', 'dataset_data_annotation_map', 'tr'),
        ('data_targets', '(set_handle, data_handle)', 'data_annotation_metamap', 'tr'),
        ('key_targets', '(set_handle, key_handle)', 'key_annotation_metamap', 'tr'),
        ('text_targets', '(resource_handle, ts_handle)', 'textrelationmap', 'tr'),
    ]
    loops = {}
    rewrites = []
    before = []
    after = []
    for k, (tv, lv, mf, shape) in enumerate(LOOPS):
        inv = [('cmp', CMP)] + [(f'untouched_{f}', f'self.{f} == old(self).{f}') for f in ('key_annotation_map', 'annotation_substore_map', 'resource_substore_map', 'dataset_substore_map')]
        for j, (tv2, lv2, mf2, shape2) in enumerate(LOOPS):
            if j < k:
                inv.append((f'done_{mf2}', f'{shape2}_unindexed(old(self).{mf2}, self.{mf2}, {tv2}@, handle)'))
            elif j > k:
                inv.append((f'untouched_{mf2}', f'self.{mf2} == old(self).{mf2}'))
                inv.append((f'once_{mf2}', f'{shape2}_once(old(self).{mf2}, handle)'))
            else:
                inv.append((f'partial_{mf2}', f'{shape2}_unindexed(old(self).{mf2}, self.{mf2}, {tv2}@.take(vx_it.index@ as int), handle)'))
                inv.append((f'complete_{mf2}', f'vx_it.index@ == {tv2}@.len() ==> {shape2}_unindexed(old(self).{mf2}, self.{mf2}, {tv2}@, handle)'))
                inv.append((f'once_{mf2}', f'{shape2}_once(old(self).{mf2}, handle)'))
        loops[r'vx_it: ' + tv + r'\b'] = dict(invariant=inv)
        # R-forname: name the ghost iterator of `for X in VEC`
        rewrites.append(('R-forname', r'for ' + re.escape(lv) + r' in ' + tv + r' \{', f'for {lv} in vx_it: {tv} {{'))
        call = r're:self\.' + mf + r'\s*\.remove\([^;]*;'
        before.append((call, f'let ghost vx_cur = self.{mf}; let ghost vx_i = vx_it.index@ as int;'))
        after.append((call, f'proof {{ assert({tv}@.take({tv}@.len() as int) =~= {tv}@); }}'))
        if shape == 'bt':
            hint = f"""
            proof {{
                let o = old(self).{mf}; let c = vx_cur; let n = self.{mf}; let pre = {tv}@.take(vx_i); let x0 = {tv}@[vx_i];
                assert({tv}@.take(vx_i + 1) == pre.push(x0));
                assert forall|x: AnnotationHandle| #![trigger bt_row(n, x)]
                    (pre.push(x0).contains(x) ==> is_remove_first(bt_row(o, x), bt_row(n, x), handle) && !bt_row(n, x).contains(handle))
                    && (!pre.push(x0).contains(x) ==> bt_row(n, x) == bt_row(o, x)) by {{
                    if x == x0 {{
                        assert(pre.push(x0)[vx_i] == x0);
                        assert(at_most_once(bt_row(o, x), handle));
                        lemma_row_step(bt_row(o, x), bt_row(c, x), bt_row(n, x), handle, pre.contains(x));
                    }} else {{
                        assert(bt_row(n, x) == bt_row(c, x));
                        if pre.push(x0).contains(x) {{ let w = choose|w: int| 0 <= w < pre.push(x0).len() && pre.push(x0)[w] == x; assert(w < vx_i); assert(pre[w] == x); }}
                        if pre.contains(x) {{ let w = choose|w: int| 0 <= w < pre.len() && pre[w] == x; assert(pre.push(x0)[w] == x); }}
                    }}
                }}
            }}"""
        elif shape == 'rm':
            hint = f"""
            proof {{
                let o = old(self).{mf}; let c = vx_cur; let n = self.{mf}; let pre = {tv}@.take(vx_i); let x0 = {tv}@[vx_i]; let nxt = {tv}@.take(vx_i + 1);
                assert(nxt == pre.push(x0));
                assert forall|x: int| #![trigger rm_row(n, x)]
                    ((exists|t: int| 0 <= t < nxt.len() && nxt[t].idx() == x) ==> is_remove_first(rm_row(o, x), rm_row(n, x), handle) && !rm_row(n, x).contains(handle))
                    && (!(exists|t: int| 0 <= t < nxt.len() && nxt[t].idx() == x) ==> rm_row(n, x) == rm_row(o, x)) by {{
                    let was = exists|t: int| 0 <= t < pre.len() && pre[t].idx() == x;
                    if x == x0.idx() {{
                        assert(nxt[vx_i].idx() == x);
                        assert(at_most_once(rm_row(o, x), handle));
                        if x < c@.len() {{ }} else {{ assert(rm_row(c, x) =~= Seq::empty()); assert(rm_row(n, x) =~= Seq::empty()); }}
                        lemma_row_step(rm_row(o, x), rm_row(c, x), rm_row(n, x), handle, was);
                    }} else {{
                        assert(rm_row(n, x) == rm_row(c, x)) by {{ if 0 <= x < c@.len() {{ assert(n@[x] == c@[x]); }} }}
                        if exists|t: int| 0 <= t < nxt.len() && nxt[t].idx() == x {{ let w = choose|t: int| 0 <= t < nxt.len() && nxt[t].idx() == x; assert(w < vx_i); assert(pre[w].idx() == x); }}
                        if was {{ let w = choose|t: int| 0 <= t < pre.len() && pre[t].idx() == x; assert(nxt[w].idx() == x); }}
                    }}
                }}
            }}"""
        else:
            hint = f"""
            proof {{
                let o = old(self).{mf}; let c = vx_cur; let n = self.{mf}; let pre = {tv}@.take(vx_i); let p0 = {tv}@[vx_i]; let nxt = {tv}@.take(vx_i + 1);
                assert(nxt == pre.push(p0));
                assert forall|x: int, y: int| #![trigger n.cell(x, y)]
                    ((exists|t: int| 0 <= t < nxt.len() && nxt[t].0.idx() == x && nxt[t].1.idx() == y) ==> is_remove_first(o.cell(x, y), n.cell(x, y), handle) && !n.cell(x, y).contains(handle))
                    && (!(exists|t: int| 0 <= t < nxt.len() && nxt[t].0.idx() == x && nxt[t].1.idx() == y) ==> n.cell(x, y) == o.cell(x, y)) by {{
                    let was = exists|t: int| 0 <= t < pre.len() && pre[t].0.idx() == x && pre[t].1.idx() == y;
                    if x == p0.0.idx() && y == p0.1.idx() {{
                        assert(nxt[vx_i].0.idx() == x && nxt[vx_i].1.idx() == y);
                        assert(at_most_once(o.cell(x, y), handle));
                        lemma_row_step(o.cell(x, y), c.cell(x, y), n.cell(x, y), handle, was);
                    }} else {{
                        assert(n.cell(x, y) == c.cell(x, y));
                        if exists|t: int| 0 <= t < nxt.len() && nxt[t].0.idx() == x && nxt[t].1.idx() == y {{ let w = choose|t: int| 0 <= t < nxt.len() && nxt[t].0.idx() == x && nxt[t].1.idx() == y; assert(w < vx_i); assert(pre[w].0.idx() == x && pre[w].1.idx() == y); }}
                        if was {{ let w = choose|t: int| 0 <= t < pre.len() && pre[t].0.idx() == x && pre[t].1.idx() == y; assert(nxt[w].0.idx() == x && nxt[w].1.idx() == y); }}
                    }}
                }}
            }}"""
        after.append((call, hint, None, mf))
    O, N = 'old(self)', 'final(self)'
    u.impl(AS, 'impl private::StoreCallbacks<Annotation> for AnnotationStore', [
        Fn('preremove', emit_name='preremove__unindex', props=P, ret='r',
           region=('for annotation_handle in annotation_targets {', r're:(?m)^ *Ok\(\(\)\)\s*\}\s*\Z', SIG, '        Ok(())'),
           loops=loops, rewrites=rewrites, before=before, after=after,
           requires=[('cmp_laws', CMP),
                     ('once', f'bt_once({O}.annotation_annotation_map, handle) && rm_once({O}.resource_annotation_metamap, handle) && rm_once({O}.dataset_annotation_metamap, handle) '
                              f'&& tr_once({O}.dataset_data_annotation_map, handle) && tr_once({O}.data_annotation_metamap, handle) && tr_once({O}.key_annotation_metamap, handle) && tr_once({O}.textrelationmap, handle)')],
           ensures=[
               ('ok', 'r is Ok'),
               ('other_indices_untouched', ' && '.join(f'{N}.{f} == {O}.{f}' for f in UNTOUCHED)),
               ('annotation_annotation_map', f'bt_unindexed({O}.annotation_annotation_map, {N}.annotation_annotation_map, annotation_targets@, handle)'),
               ('resource_annotation_metamap', f'rm_unindexed({O}.resource_annotation_metamap, {N}.resource_annotation_metamap, resource_targets@, handle)'),
               ('dataset_annotation_metamap', f'rm_unindexed({O}.dataset_annotation_metamap, {N}.dataset_annotation_metamap, dataset_targets@, handle)'),
               ('dataset_data_annotation_map', f'tr_unindexed({O}.dataset_data_annotation_map, {N}.dataset_data_annotation_map, data_handles@, handle)'),
               ('data_annotation_metamap', f'tr_unindexed({O}.data_annotation_metamap, {N}.data_annotation_metamap, data_targets@, handle)'),
               ('key_annotation_metamap', f'tr_unindexed({O}.key_annotation_metamap, {N}.key_annotation_metamap, key_targets@, handle)'),
               ('textrelationmap', f'tr_unindexed({O}.textrelationmap, {N}.textrelationmap, text_targets@, handle)'),
           ]),
    ], verus_header='impl AnnotationStore')
    return u

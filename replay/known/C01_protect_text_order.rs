// known finding K5 (C01, second form), recorded, not repaired: copy to /repo/tests/ and run it with cargo test; it fails on the unchanged tree.
// protect_text() hands existing annotations new (text validation) data and updates the reverse
// index by hand. Afterwards the reverse lookup data.annotations() must still be what it claims to
// be: in chronological order (the iterator itself says so via returns_sorted()).
use stam::*;

const TEXTVALIDATION_SET: &str = "https://w3id.org/stam/extensions/stam-textvalidation/";

#[test]
fn protect_text_keeps_reverse_index_chronological() {
    let mut store = AnnotationStore::default()
        .with_id("test")
        .with_resource(
            TextResourceBuilder::new()
                .with_id("r")
                .with_text("Hello wonderful world"),
        )
        .unwrap()
        .with_dataset(AnnotationDataSetBuilder::new().with_id("s"))
        .unwrap();
    // A0: not protected yet
    store
        .annotate(
            AnnotationBuilder::new()
                .with_id("A0")
                .with_target(SelectorBuilder::textselector("r", Offset::simple(0, 5)))
                .with_data("s", "k", "v"),
        )
        .unwrap();
    // A1: same text, already carries its validation text (as it would when it comes from a
    // store that was protected earlier)
    store
        .annotate(
            AnnotationBuilder::new()
                .with_id("A1")
                .with_target(SelectorBuilder::textselector("r", Offset::simple(0, 5)))
                .with_data(TEXTVALIDATION_SET, "text", "Hello"),
        )
        .unwrap();

    // protect the rest
    store.protect_text(TextValidationMode::Text).unwrap();
    assert!(store.validate_text(true).is_ok(), "all annotations validate");

    let key = store.key(TEXTVALIDATION_SET, "text").unwrap();
    let data: Vec<_> = key.data().collect();
    assert_eq!(data.len(), 1, "A0 and A1 share one validation text 'Hello'");
    let data = &data[0];

    let iter = data.annotations();
    assert!(
        iter.returns_sorted(),
        "data.annotations() declares chronological order"
    );
    let got: Vec<String> = iter.map(|a| a.id().unwrap().to_string()).collect();
    assert_eq!(
        got,
        vec!["A0".to_string(), "A1".to_string()],
        "data.annotations() must yield the annotations in chronological order (A0 before A1), as it does for every other data item"
    );

    // the same two annotations through the other side, for comparison: the lookup via the key sorts and is fine
    let via_key: Vec<String> = key
        .annotations()
        .map(|a| a.id().unwrap().to_string())
        .collect();
    assert_eq!(via_key, vec!["A0".to_string(), "A1".to_string()]);
}

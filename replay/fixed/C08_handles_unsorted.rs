// replay of the defects repaired by /repo commits 5cca040 and 295b39f (C08): copy to /repo/tests/ and run it with cargo test; before the fixes it reports mismatches.
use stam::*;
#[test]
fn probe() {
    let store = AnnotationStore::default();
    let h = |v: &[u32]| Handles::<Annotation>::from_iter(v.iter().map(|x| AnnotationHandle::new(*x as usize)), &store);
    // exhaustive: a sorted without duplicates, b any sequence without duplicates over 0..5, len <= 4
    let n = 5u32;
    let mut seqs: Vec<Vec<u32>> = vec![vec![]];
    let mut frontier = vec![vec![]];
    for _ in 0..4 { let mut next = vec![]; for s in &frontier { for x in 0..n { if !s.contains(&x) { let mut t: Vec<u32> = s.clone(); t.push(x); next.push(t); } } } seqs.extend(next.clone()); frontier = next; }
    let mut bad = 0;
    for va in &seqs { for vb in &seqs {
        let mut a = h(va); let b = h(vb);
        a.union(&b);
        let got: Vec<u32> = a.iter().map(|x| x.as_usize() as u32).collect();
        let mut g2 = got.clone(); g2.sort(); g2.dedup();
        let mut want: Vec<u32> = va.clone(); for x in vb { if !want.contains(x) { want.push(*x); } } want.sort();
        if g2 != want || g2.len() != got.len() { if bad < 4 { println!("{:?} ∪ {:?} = {:?}", va, vb, got); } bad += 1; }
        let mut a = h(va); a.intersection(&b);
        let got: Vec<u32> = a.iter().map(|x| x.as_usize() as u32).collect();
        let mut g2 = got.clone(); g2.sort();
        let mut want: Vec<u32> = va.iter().copied().filter(|x| vb.contains(x)).collect(); want.sort();
        let member_ok = (0..n).all(|x| a.contains(&AnnotationHandle::new(x as usize)) == want.contains(&x));
        if g2 != want || !member_ok { if bad < 8 { println!("{:?} ∩ {:?} = {:?} (sorted flag {}), contains agrees: {}", va, vb, got, a.returns_sorted(), member_ok); } bad += 1; }
    }}
    println!("mismatches: {}", bad);
    assert_eq!(bad, 0);
}

// replay of the defect repaired by /repo commit 438004b (C07): copy to /repo/tests/ and run it with cargo test; it fails on the parent commit.
// find_text_nocase() must agree with a case-insensitive search on the plain string, also
// when the text contains characters whose lower-casing changes their utf-8 length
// (U+0130 'İ': 2 bytes -> 3 bytes, U+212A KELVIN SIGN: 3 bytes -> 1 byte).
use stam::*;

fn store(text: &str) -> AnnotationStore {
    let mut store = AnnotationStore::default();
    store
        .add_resource(TextResourceBuilder::new().with_id("r").with_text(text))
        .unwrap();
    store
}

fn found<'a>(it: impl Iterator<Item = ResultTextSelection<'a>>) -> Vec<(usize, usize, String)> {
    it.map(|t| (t.begin(), t.end(), t.text().to_string()))
        .collect()
}

#[test]
fn nocase_wrong_text_after_lengthening_char() {
    // "İİxab": the only 'x' is codepoint 2
    let store = store("\u{130}\u{130}xab");
    let resource = store.resource("r").unwrap();
    let result = found(resource.find_text_nocase("X"));
    assert_eq!(
        result,
        vec![(2, 3, "x".to_string())],
        "expected find_text_nocase(\"X\") to return exactly the 'x' at 2..3 (the library returned a selection whose text is not the needle)"
    );
}

#[test]
fn nocase_panics_after_lengthening_char() {
    // "İx": expected a single match "x" at 1..2, no panic
    let store = store("\u{130}x");
    let resource = store.resource("r").unwrap();
    let result = found(resource.find_text_nocase("x"));
    assert_eq!(
        result,
        vec![(1, 2, "x".to_string())],
        "expected find_text_nocase(\"x\") on \"İx\" to return the 'x' at 1..2"
    );
}

#[test]
fn nocase_panics_after_shortening_char() {
    // KELVIN SIGN lowercases to plain 'k' (3 bytes -> 1 byte)
    let store = store("\u{212A}x\u{212A}");
    let resource = store.resource("r").unwrap();
    let result = found(resource.find_text_nocase("x"));
    assert_eq!(
        result,
        vec![(1, 2, "x".to_string())],
        "expected find_text_nocase(\"x\") on \"\\u{{212A}}x\\u{{212A}}\" to return the 'x' at 1..2"
    );
    let result = found(resource.find_text_nocase("K"));
    assert_eq!(
        result,
        vec![
            (0, 1, "\u{212A}".to_string()),
            (2, 3, "\u{212A}".to_string())
        ],
        "expected both kelvin signs (which lowercase to 'k') to be found at 0..1 and 2..3"
    );
}

#[test]
fn nocase_in_subselection() {
    let store = store("ab \u{130}\u{130} Needle \u{212A} needle");
    let resource = store.resource("r").unwrap();
    let sub = resource.textselection(&Offset::simple(3, 21)).unwrap();
    let result = found(sub.find_text_nocase("NEEDLE"));
    assert_eq!(
        result,
        vec![(6, 12, "Needle".to_string()), (15, 21, "needle".to_string())],
        "expected both occurrences of 'needle' at their real codepoint offsets"
    );
}

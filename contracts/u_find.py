"""U-find: FindTextSelectionsIter (src/textselection.rs) - the related-text search.  Built on top of
U-rel: the oracle is the relation specification the tests are proved equal to.  Serves C06."""
import re
from vx.gen import Unit, Fn
from . import common
from . import u_rel

P = ['C06']
F = 'src/textselection.rs'
R = 'src/resources.rs'

STUBS = r'''
/// R-opaque: TextSelectionIter (a btree_map::Range over the position index plus per-position cursors).
/// Only its bounds matter to the search; its walk is an assumed contract (see next_textselection).
#[verifier::external_body]
pub struct TextSelectionIter<'a> { _p: std::marker::PhantomData<&'a usize> }

impl<'a> TextSelectionIter<'a> {
    /// ghost: the half-open range [lo, hi) of positions this iterator walks
    pub uninterp spec fn lo(&self) -> usize;
    pub uninterp spec fn hi(&self) -> usize;
    /// ghost: the selections `next()` will still yield (ascending by begin) / `next_back()` will still yield
    /// (taken from the back of a sequence ascending by end).  Walk assumption (trusted, not verified): at
    /// creation fwd() lists each indexed selection with lo <= begin < hi once, bwd() each with lo <= end < hi once.
    pub uninterp spec fn fwd(&self) -> Seq<TextSelection>;
    pub uninterp spec fn bwd(&self) -> Seq<TextSelection>;

    /// stands for `impl Iterator for TextSelectionIter` (src/resources.rs)
    #[verifier::external_body]
    pub fn next(&mut self) -> (r: Option<&'a TextSelection>)
        ensures
            old(self).fwd().len() == 0 ==> r is None && final(self).fwd() == old(self).fwd(),
            old(self).fwd().len() > 0 ==> r is Some && *r.unwrap() == old(self).fwd()[0] && final(self).fwd() == old(self).fwd().skip(1),
            final(self).bwd() == old(self).bwd(), final(self).lo() == old(self).lo(), final(self).hi() == old(self).hi(),
    { unimplemented!() }

    /// stands for `impl DoubleEndedIterator for TextSelectionIter`
    #[verifier::external_body]
    pub fn next_back(&mut self) -> (r: Option<&'a TextSelection>)
        ensures
            old(self).bwd().len() == 0 ==> r is None && final(self).bwd() == old(self).bwd(),
            old(self).bwd().len() > 0 ==> r is Some && *r.unwrap() == old(self).bwd().last() && final(self).bwd() == old(self).bwd().drop_last(),
            final(self).fwd() == old(self).fwd(), final(self).lo() == old(self).lo(), final(self).hi() == old(self).hi(),
    { unimplemented!() }
}

pub assume_specification<T, A: std::alloc::Allocator> [VecDeque::<T, A>::is_empty] (q: &VecDeque<T, A>) -> (r: bool)
    ensures r == (q@.len() == 0);

impl TextSelectionSet {
    /// stands for TextSelectionSet::has_handle: `self.data.iter().any(|t| t.handle() == Some(handle))`
    #[verifier::external_body]
    pub fn has_handle(&self, handle: TextSelectionHandle) -> (r: bool)
        ensures r == has_handle_spec(self.data@, handle),
    { unimplemented!() }
}
pub open spec fn has_handle_spec(rs: Seq<TextSelection>, h: TextSelectionHandle) -> bool {
    exists|i: int| 0 <= i < rs.len() && (#[trigger] rs[i]).intid == Some(h)
}

/// a walked selection is reported iff the relation test holds for it and it is not itself a member of the reference set
pub open spec fn keep(op: TextSelectionOperator, rs: Seq<TextSelection>, res: &TextResource, t: TextSelection) -> bool {
    t1(op, rs, t, res) && !has_handle_spec(rs, t.intid.unwrap())
}

/// the handles a walk still has to contribute (as a multiset: "each once")
pub open spec fn kept(op: TextSelectionOperator, rs: Seq<TextSelection>, res: &TextResource, s: Seq<TextSelection>) -> Multiset<TextSelectionHandle>
    decreases s.len()
{
    if s.len() == 0 { Multiset::empty() }
    else if keep(op, rs, res, s.last()) { kept(op, rs, res, s.drop_last()).insert(s.last().intid.unwrap()) }
    else { kept(op, rs, res, s.drop_last()) }
}

pub proof fn lemma_kept_front(op: TextSelectionOperator, rs: Seq<TextSelection>, res: &TextResource, s: Seq<TextSelection>)
    requires s.len() > 0,
    ensures kept(op, rs, res, s) == (if keep(op, rs, res, s[0]) { kept(op, rs, res, s.skip(1)).insert(s[0].intid.unwrap()) } else { kept(op, rs, res, s.skip(1)) }),
    decreases s.len(),
{
    if s.len() == 1 {
        assert(s.skip(1) =~= s.drop_last());
        assert(s.last() == s[0]);
    } else {
        lemma_kept_front(op, rs, res, s.drop_last());
        assert(s.drop_last().skip(1) =~= s.skip(1).drop_last());
        assert(s.drop_last()[0] == s[0]);
        assert(s.skip(1).last() == s.last());
        let a = kept(op, rs, res, s.skip(1).drop_last());
        let h0 = s[0].intid.unwrap(); let hl = s.last().intid.unwrap();
        if keep(op, rs, res, s[0]) && keep(op, rs, res, s.last()) {
            assert(a.insert(h0).insert(hl) =~= a.insert(hl).insert(h0));
        }
    }
}

pub open spec fn pending(it: (TextSelectionIter, bool)) -> Seq<TextSelection> { if it.1 { it.0.fwd() } else { it.0.bwd() } }

/// what the iterators from index k on still have to contribute
pub open spec fn rest(op: TextSelectionOperator, rs: Seq<TextSelection>, res: &TextResource, its: Seq<(TextSelectionIter, bool)>, k: int) -> Multiset<TextSelectionHandle>
    decreases its.len() - k
{
    if k < 0 || k >= its.len() { Multiset::empty() } else { kept(op, rs, res, pending(its[k])).add(rest(op, rs, res, its, k + 1)) }
}

pub proof fn lemma_rest_frame(op: TextSelectionOperator, rs: Seq<TextSelection>, res: &TextResource, a: Seq<(TextSelectionIter, bool)>, b: Seq<(TextSelectionIter, bool)>, k: int)
    requires a.len() == b.len(), forall|j: int| k <= j < a.len() ==> pending(#[trigger] a[j]) == pending(b[j]),
    ensures rest(op, rs, res, a, k) == rest(op, rs, res, b, k),
    decreases a.len() - k,
{
    if 0 <= k < a.len() { lemma_rest_frame(op, rs, res, a, b, k + 1); }
}

/// every selection a walk yields is a known, well-formed selection
pub open spec fn walk_ok(it: (TextSelectionIter, bool)) -> bool {
    forall|i: int| 0 <= i < pending(it).len() ==> wf(#[trigger] pending(it)[i]) && pending(it)[i].intid is Some
}

'''


COVER_HINT = '''proof {
            let rs = old(self).refset.data@;
            lemma_min_begin(rs); lemma_max_end(rs);
            assert forall|t: TextSelection| wf(t) && t.end <= old(self).resource.tl() && #[trigger] t1(old(self).operator, rs, t, old(self).resource) implies finds(self.textseliters@[0], t) by {
                assert(rel_pos(old(self).operator, rs[0], t, old(self).resource) || subject_by_bound(old(self).operator) || negated(old(self).operator));
            }
        }'''


FUTURE = r'''
impl<'store> FindTextSelectionsIter<'store> {
    /// everything this iterator will still return, as a multiset of handles
    pub open spec fn future(&self) -> Multiset<TextSelectionHandle> {
        if self.drain_buffer { self.buffer@.to_multiset() }
        else { self.buffer@.to_multiset().add(rest(self.operator, self.refset.data@, self.resource, self.textseliters@, self.textseliter_index as int)) }
    }
    pub open spec fn walks_ok(&self) -> bool {
        forall|j: int| 0 <= j < self.textseliters@.len() ==> walk_ok(#[trigger] self.textseliters@[j])
    }
    /// termination measure of the outer loop: total number of selections still to walk, plus iterators left
    pub open spec fn measure(&self) -> nat {
        if self.drain_buffer { 0 } else { 1 + todo_len(self.textseliters@, self.textseliter_index as int) }
    }
}
pub open spec fn todo_len(its: Seq<(TextSelectionIter, bool)>, k: int) -> nat
    decreases its.len() - k
{
    if k < 0 || k >= its.len() { 0 } else { 1 + pending(its[k]).len() + todo_len(its, k + 1) }
}
pub proof fn lemma_todo_frame(a: Seq<(TextSelectionIter, bool)>, b: Seq<(TextSelectionIter, bool)>, k: int)
    requires a.len() == b.len(), forall|j: int| k <= j < a.len() ==> pending(#[trigger] a[j]) == pending(b[j]),
    ensures todo_len(a, k) == todo_len(b, k),
    decreases a.len() - k,
{
    if 0 <= k < a.len() { lemma_todo_frame(a, b, k + 1); }
}

impl TextResource {
    /// ghost: length of the text in codepoints
    pub uninterp spec fn tl(&self) -> usize;

    /// stands for `impl Text for TextResource { fn textlen(&self) -> usize { self.textlen } }`
    #[verifier::external_body]
    pub fn textlen(&self) -> (r: usize)
        ensures r == self.tl(),
    { unimplemented!() }

    /// stands for TextResource::range (src/resources.rs): positionindex.range((Included(&begin), Excluded(&end)))
    #[verifier::external_body]
    pub fn range<'a>(&'a self, begin: usize, end: usize) -> (r: TextSelectionIter<'a>)
        ensures r.lo() == begin, r.hi() == end,
    { unimplemented!() }
}

/// a (range, direction) pair finds candidate t: forward iteration visits selections by their begin,
/// backward iteration by their end
pub open spec fn finds(it: (TextSelectionIter, bool), t: TextSelection) -> bool {
    if it.1 { it.0.lo() <= t.begin < it.0.hi() } else { it.0.lo() <= t.end < it.0.hi() }
}

pub open spec fn covered(its: Seq<(TextSelectionIter, bool)>, t: TextSelection) -> bool {
    exists|k: int| 0 <= k < its.len() && finds(#[trigger] its[k], t)
}

/// no candidate is visited by two of the chosen ranges ("each once")
pub open spec fn found_once(its: Seq<(TextSelectionIter, bool)>, t: TextSelection) -> bool {
    forall|k1: int, k2: int| 0 <= k1 < k2 < its.len() ==> !(finds(#[trigger] its[k1], t) && finds(#[trigger] its[k2], t))
}
'''


FRAME_HINT = '''proof { let k = old(self).textseliter_index as int; lemma_rest_frame(old(self).operator, old(self).refset.data@, old(self).resource, old(self).textseliters@, self.textseliters@, k + 1); lemma_todo_frame(old(self).textseliters@, self.textseliters@, k + 1); }'''


BACKWARD_HINT = '''proof {
            let k = old(self).textseliter_index as int;
            let op = self.operator; let rs = self.refset.data@; let res = self.resource;
            lemma_rest_frame(op, rs, res, old(self).textseliters@, self.textseliters@, k + 1); lemma_todo_frame(old(self).textseliters@, self.textseliters@, k + 1);
            assert(kept(op, rs, res, pending(self.textseliters@[k])) =~= Multiset::empty());
            assert(rest(op, rs, res, self.textseliters@, k) =~= rest(op, rs, res, self.textseliters@, k + 1));
            assert(rest(op, rs, res, old(self).textseliters@, k) =~= kept(op, rs, res, old(self).textseliters@[k].0.bwd()).add(rest(op, rs, res, old(self).textseliters@, k + 1)));
            assert(self.buffer@.to_multiset() =~= old(self).buffer@.to_multiset().add(kept(op, rs, res, old(self).textseliters@[k].0.bwd())));
            assert(self.buffer@.to_multiset().add(rest(op, rs, res, self.textseliters@, k)) =~= old(self).future());
        }'''


def build():
    u = u_rel.build()
    u.name = 'u_find'
    u.serves = ['C06']
    u.use('use std::collections::VecDeque;')
    u.use('use vstd::multiset::Multiset;')
    u.trusted_text(STUBS, 'external_body TextSelectionIter (opaque range over the position index), TextResource::{textlen, range} stubs')
    u.impl(R, 'impl TextResource', [
        Fn('iter', props=P, ret='r', requires=[('fits', 'self.tl() < usize::MAX')],
           ensures=[('covers_all', 'forall|t: TextSelection| wf(t) && t.end <= self.tl() ==> r.lo() <= #[trigger] t.begin < r.hi()')]),
    ])
    OPT_MAP = lambda m, f: ('R-closure-inline', r'self\.' + m + r'\(\)\.map\(\|x\| x\.' + f + r'\(\)\)',
                            f'(match self.{m}() {{ Some(x) => Some(x.{f}()), None => None }})')
    u.impl(F, 'impl TextSelectionSet', [
        Fn('get', props=P, ret='r', ensures=[('some_iff', 'r is Some <==> index < self.data@.len()'), ('item', 'r is Some ==> *r.unwrap() == self.data@[index as int]')]),
        Fn('begin', props=P, ret='r', rewrites=[OPT_MAP('leftmost', 'begin')], requires=[('inv', 'self.inv()')],
           ensures=[('some_iff', 'r is Some <==> self.data@.len() > 0'), ('min', 'r is Some ==> r.unwrap() == min_begin(self.data@)')]),
        Fn('end', props=P, ret='r', rewrites=[OPT_MAP('rightmost', 'end')],
           ensures=[('some_iff', 'r is Some <==> self.data@.len() > 0'), ('max', 'r is Some ==> r.unwrap() == max_end(self.data@)')]),
    ])
    u.item(F, 'struct', 'FindTextSelectionsIter', keep_derives=[],
           rewrites=[('R-vis', r'\b(resource|operator|refset|textseliters|textseliter_index|buffer|drain_buffer):', r'pub \1:')])
    u.spec(FUTURE, 'contracts/u_find.py:FUTURE')
    REF_IT = ('R-wrapiter', r'for reftextselection in self\.refset\.iter\(\)', 'for reftextselection in vx_it: self.refset.data.iter()')
    L = 'old(self).resource.tl()'
    RS = 'old(self).refset.data@'
    u.impl(F, "impl<'store> FindTextSelectionsIter<'store>", [
        Fn('init_textseliters', props=P,
           prologue='proof { lemma_min_begin(old(self).refset.data@); lemma_max_end(old(self).refset.data@); }',
           before=[('return;', COVER_HINT, None, 'cover'), (r're:\}\s*\Z', COVER_HINT, None, 'cover')],
           requires=[('nonempty', f'{RS}.len() > 0'), ('wf', f'set_wf({RS}) && old(self).refset.inv()'),
                     ('inside', f'forall|i: int| 0 <= i < {RS}.len() ==> (#[trigger] {RS}[i]).end <= {L}'),
                     ('fits', f'{L} < usize::MAX - WHITESPACE_LIMIT - 1'),
                     ('fresh', 'old(self).textseliters@.len() == 0')],
           ensures=[
               ('frame', 'final(self).operator == old(self).operator && final(self).refset == old(self).refset && final(self).resource == old(self).resource && final(self).buffer == old(self).buffer && final(self).drain_buffer == old(self).drain_buffer && final(self).textseliter_index == old(self).textseliter_index'),
               ('some_range', 'final(self).textseliters@.len() > 0'),
               ('cover', f'forall|t: TextSelection| wf(t) && t.end <= {L} && #[trigger] t1(old(self).operator, {RS}, t, old(self).resource) ==> covered(final(self).textseliters@, t)'),
               ('once', f'forall|t: TextSelection| wf(t) && t.end <= {L} && #[trigger] t1(old(self).operator, {RS}, t, old(self).resource) ==> found_once(final(self).textseliters@, t)'),
           ]),
    ])

    # ------------------------------------------------------------------ filter + buffer (walk region), next_iterator, next
    FRAME = 'final(self).operator == old(self).operator && final(self).refset == old(self).refset && final(self).resource == old(self).resource'
    STEP = [('emits_from_future', 'r is Some ==> old(self).future().count(r.unwrap()) > 0 && final(self).future() =~= old(self).future().remove(r.unwrap())'),
            ('nothing_lost', 'r is None ==> final(self).future() =~= old(self).future()'),
            ('progress', 'r is None ==> final(self).measure() < old(self).measure()'),
            ('walks_ok', 'final(self).walks_ok()'),
            ('still_active_or_drained', 'final(self).textseliters@.len() == old(self).textseliters@.len() && (final(self).drain_buffer || final(self).textseliter_index < final(self).textseliters@.len())'),
            ('frame', FRAME)]
    REFS_OK = ('refset_ok', 'old(self).refset.data@.len() > 0 && set_wf(old(self).refset.data@) && old(self).refset.inv()')
    WALK_SIG = 'fn next_textselection__walk(&mut self) -> Option<TextSelectionHandle>'
    # R-inherent: Storable::handle for TextSelection emitted as an inherent method
    u.impl(F, 'impl Storable for TextSelection', [
        Fn('handle', props=P, ret='r', ensures=[('intid', 'r == self.intid')]),
    ], verus_header='impl TextSelection')
    u.impl(F, "impl<'store> FindTextSelectionsIter<'store>", [
        Fn('next_iterator', props=P,
           prologue='let vx_n = self.textseliters.len(); proof { reveal_with_fuel(rest, 3); reveal_with_fuel(todo_len, 3); }',
           requires=[('active', '!old(self).drain_buffer && old(self).textseliter_index < old(self).textseliters@.len()'),
                     ('exhausted', 'pending(old(self).textseliters@[old(self).textseliter_index as int]).len() == 0')],
           ensures=[('future_kept', 'final(self).future() =~= old(self).future()'),
                    ('progress', 'final(self).measure() < old(self).measure()'),
                    ('bounds', 'final(self).drain_buffer || final(self).textseliter_index < final(self).textseliters@.len()'),
                    ('frame', FRAME + ' && final(self).textseliters == old(self).textseliters && final(self).buffer == old(self).buffer')]),
        Fn('next_textselection', emit_name='next_textselection__walk', props=P, ret='r',
           region=('let forward = self.textseliters.get_mut(self.textseliter_index).unwrap().1;',
                   r're:None //triggers normal looping behaviour\s*\}\s*\}\s*\Z', WALK_SIG, '        None'),
           requires=[('active', '!old(self).drain_buffer && old(self).textseliter_index < old(self).textseliters@.len()'),
                     ('walks_ok', 'old(self).walks_ok()'), REFS_OK],
           ensures=STEP, reach_guard=True,
           prologue='''broadcast use vstd::seq_lib::group_to_multiset_ensures;
        proof { reveal_with_fuel(rest, 2); reveal_with_fuel(todo_len, 2); reveal_with_fuel(kept, 2); }
        proof { let k = old(self).textseliter_index as int; let p = pending(old(self).textseliters@[k]);
                if old(self).textseliters@[k].1 && p.len() > 0 { lemma_kept_front(old(self).operator, old(self).refset.data@, old(self).resource, p); } }''',
           before=[('return Some(textselection.handle().unwrap());', FRAME_HINT, None, 'emits_from_future'),
                   ('self.buffer.push_back(textselection.handle().unwrap());', FRAME_HINT, None, 'nothing_lost'),
                   ('self.next_iterator();', FRAME_HINT, 0, 'nothing_lost'),
                   ('self.next_iterator();', BACKWARD_HINT, 1, 'nothing_lost'),
                   (r're:None\s*\}\s*\Z', FRAME_HINT, None, 'nothing_lost'),
                   ('self.buffer.push_front(textselection.handle().unwrap())', 'let ghost vx_buf = self.buffer@;')],
           after=[('self.buffer.push_front(textselection.handle().unwrap())', '; proof { let h = textselection.intid.unwrap(); assert(self.buffer@ =~= vx_buf.insert(0, h)); vstd::seq_lib::to_multiset_insert(vx_buf, 0, h); }'),
                  ('self.buffer.push_back(textselection.handle().unwrap());', 'proof { let h = textselection.intid.unwrap(); vstd::seq_lib::to_multiset_build(old(self).buffer@, h); }')],
           loops={0: dict(invariant=[
               ('state', '!self.drain_buffer && self.textseliter_index == old(self).textseliter_index && self.textseliters@.len() == old(self).textseliters@.len() && (self.textseliter_index as int) < self.textseliters@.len()'),
               ('backward', '!self.textseliters@[self.textseliter_index as int].1 && !old(self).textseliters@[old(self).textseliter_index as int].1'),
               ('others', 'forall|j: int| 0 <= j < self.textseliters@.len() && j != self.textseliter_index ==> pending(#[trigger] self.textseliters@[j]) == pending(old(self).textseliters@[j])'),
               ('walks_ok', 'self.walks_ok()'),
               ('frame', 'self.operator == old(self).operator && self.refset == old(self).refset && self.resource == old(self).resource'),
               ('refs', 'self.refset.data@.len() > 0 && set_wf(self.refset.data@) && self.refset.inv()'),
               ('accounting', 'self.buffer@.to_multiset().add(kept(self.operator, self.refset.data@, self.resource, self.textseliters@[self.textseliter_index as int].0.bwd())) =~= old(self).buffer@.to_multiset().add(kept(old(self).operator, old(self).refset.data@, old(self).resource, old(self).textseliters@[old(self).textseliter_index as int].0.bwd()))'),
           ], ensures=['self.textseliters@[self.textseliter_index as int].0.bwd().len() == 0'],
              decreases='self.textseliters@[self.textseliter_index as int].0.bwd().len()')}),
    ])
    # the glue of next_textselection (Equals shortcut, lazy call of init_textseliters) is not verified: the whole
    # function is declared with the step contract that its walk region is proved against (assumed for next())
    u.impl(F, "impl<'store> FindTextSelectionsIter<'store>", [
        Fn('next_textselection', props=P, ret='r', external_body=True,
           requires=[('active', '!old(self).drain_buffer && old(self).textseliter_index < old(self).textseliters@.len()'),
                     ('walks_ok', 'old(self).walks_ok()'), REFS_OK],
           ensures=STEP),
    ])
    u.impl(F, "impl<'store> Iterator for FindTextSelectionsIter<'store>", [
        Fn('next', props=P, ret='r', sig_rewrites=[('R-inherent', r'Self::Item', 'TextSelectionHandle')],
           requires=[('initialised', 'old(self).drain_buffer || old(self).textseliter_index < old(self).textseliters@.len()'),
                     ('walks_ok', 'old(self).walks_ok()'), REFS_OK],
           ensures=[('emits_from_future', 'r is Some ==> old(self).future().count(r.unwrap()) > 0 && final(self).future() =~= old(self).future().remove(r.unwrap())'),
                    ('none_only_when_done', 'r is None ==> old(self).future() =~= Multiset::empty() && final(self).future() =~= Multiset::empty()'),
                    ('state', 'final(self).walks_ok() && (final(self).drain_buffer || final(self).textseliter_index < final(self).textseliters@.len())'),
                    ('frame', FRAME)],
           prologue='broadcast use vstd::seq_lib::group_to_multiset_ensures;',
           before=[('return self.buffer.pop_front();', 'proof { let b = self.buffer@; if b.len() > 0 { assert(b.skip(1) =~= b.remove(0)); vstd::seq_lib::to_multiset_remove(b, 0); assert(b.contains(b[0])); vstd::seq_lib::to_multiset_contains(b, b[0]); } else { vstd::seq_lib::to_multiset_len(b); assert(b.to_multiset().len() == 0); vstd::multiset::lemma_multiset_empty_len(b.to_multiset()); } }')],
           loops={0: dict(invariant=[
               ('future', 'self.future() =~= old(self).future()'),
               ('state', 'self.walks_ok() && (self.drain_buffer || self.textseliter_index < self.textseliters@.len())'),
               ('refs', 'self.refset.data@.len() > 0 && set_wf(self.refset.data@) && self.refset.inv()'),
               ('frame', 'self.operator == old(self).operator && self.refset == old(self).refset && self.resource == old(self).resource'),
           ], decreases='self.measure()')}),
    ], verus_header="impl<'store> FindTextSelectionsIter<'store>")
    return u

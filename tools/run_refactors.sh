#!/bin/bash
# applies every behaviour-preserving refactoring under refactors/ to /repo in turn, runs the checks of the properties whose
# units read the touched file, restores /repo.  Expected: OK or exit 2 (undecided), never a VIOLATION.
cd /verif
[ -n "$VX_NO_WITNESS" ] || export VX_TARGET_CACHE=/var/tmp/vx_target_cache
export VX_EVIDENCE_DIR=$(mktemp -d /var/tmp/vx_ref_evidence.XXXXXX)
props_for() {
  case "$1" in
    src/store.rs) echo "C01 C02 C03 C10 C14 C19";;
    src/types.rs) echo "C03 C04 C19";;
    src/annotationstore.rs) echo "C01 C02 C14 C19";;
    src/api.rs) echo "C08";;
    src/textselection.rs) echo "C04 C06 C13 C14 C19";;
    src/annotationdataset.rs) echo "C10 C01 C02 C03";;
    src/resources.rs) echo "C12 C06 C04 C01 C14 C19";;
    src/annotation.rs) echo "C02 C14";;
    src/api/resources.rs) echo "C07";;
    src/selector.rs) echo "C04 C14 C19";;
    *) echo "";;
  esac
}
for d in refactors/*/; do
  r=$(basename $d)
  [ -z "$(git -C /repo status --porcelain -- src)" ] || { echo "/repo/src dirty"; exit 2; }
  f=$(grep -m1 '^+++ b/' $d/patch.diff | sed 's|+++ b/||')
  git -C /repo apply /verif/$d/patch.diff || { echo "$r patch-does-not-apply"; continue; }
  res=""
  for p in $(props_for $f); do
    out=$(./check $p 2>&1); rc=$?
    v=$(echo "$out" | grep "failed obligation" | head -1 | sed 's/  failed obligation: //' | cut -c1-110)
    i=$(echo "$out" | grep -m1 "^  reason\|^INFRA\|reason:" | cut -c1-150)
    res="$res $p=$rc"
    [ $rc -eq 1 ] && res="$res[$v]"
  done
  git -C /repo checkout HEAD -- .
  echo "$r file=$f ::$res"
done
rm -rf "$VX_EVIDENCE_DIR"
rm -rf /var/tmp/vx_target_cache

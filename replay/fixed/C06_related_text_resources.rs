// replay of the defect repaired by /repo commit 76e90fb (C06): copy to /repo/tests/ and run it with cargo test; it fails on the parent commit.
// Annotation::related_text() on an annotation whose text lies in two resources
// (CompositeSelector over resource A and resource B).
//
// The library throws the text selections of both resources into ONE TextSelectionSet that is
// labelled with the resource of the first member. Offsets and handles of the second resource
// are then compared against the selections of the first resource.
use stam::*;

/// `b_order` is the order in which the three annotations on resource B are added (it only
/// determines the internal handle numbers of B's text selections).
fn setup(b_order: &[&str]) -> AnnotationStore {
    let mut store = AnnotationStore::default()
        .with_id("test")
        .with_resource(
            TextResourceBuilder::new()
                .with_id("A")
                .with_text("aaaa bbbb cccc dddd"),
        )
        .unwrap()
        .with_resource(
            TextResourceBuilder::new()
                .with_id("B")
                .with_text("xxxx yyyy zzzz wwww"),
        )
        .unwrap()
        .with_dataset(AnnotationDataSetBuilder::new().with_id("d"))
        .unwrap();
    let mut add = |id: &str, res: &str, b: usize, e: usize| {
        store
            .annotate(
                AnnotationBuilder::new()
                    .with_id(id.to_string())
                    .with_target(SelectorBuilder::textselector(
                        res.to_string(),
                        Offset::simple(b, e),
                    ))
                    .with_data("d", "k", "v"),
            )
            .unwrap();
    };
    add("a_word1", "A", 0, 4);
    add("a_word2", "A", 5, 9);
    add("a_word3", "A", 10, 14);
    for id in b_order {
        match *id {
            "b_word3" => add("b_word3", "B", 10, 14),
            "b_word4" => add("b_word4", "B", 15, 19),
            "b_all" => add("b_all", "B", 0, 19),
            _ => unreachable!(),
        }
    }
    store
}

fn composite(store: &mut AnnotationStore, id: &str, a: (usize, usize), b: (usize, usize)) {
    store
        .annotate(
            AnnotationBuilder::new()
                .with_id(id.to_string())
                .with_target(SelectorBuilder::CompositeSelector(vec![
                    SelectorBuilder::textselector("A", Offset::simple(a.0, a.1)),
                    SelectorBuilder::textselector("B", Offset::simple(b.0, b.1)),
                ]))
                .with_data("d", "k", "v"),
        )
        .unwrap();
}

fn related(
    store: &AnnotationStore,
    id: &str,
    op: TextSelectionOperator,
) -> Vec<(String, usize, usize)> {
    let mut v: Vec<_> = store
        .annotation(id)
        .unwrap()
        .related_text(op)
        .map(|t| (t.resource().id().unwrap().to_string(), t.begin(), t.end()))
        .collect();
    v.sort();
    v
}

/// The library's own relation test (Annotation::test) says the relation holds, so related_text()
/// has to list the text.
#[test]
fn related_text_agrees_with_annotation_test() {
    let mut store = setup(&["b_word3", "b_word4", "b_all"]);
    composite(&mut store, "comp", (0, 4), (15, 19));
    let comp = store.annotation("comp").unwrap();
    let a_word2 = store.annotation("a_word2").unwrap();
    let b_word3 = store.annotation("b_word3").unwrap();

    // comp (A[0,4]) comes before a_word2 (A[5,9]); the library agrees:
    assert!(comp.test(&TextSelectionOperator::before(), &a_word2));
    assert_eq!(
        related(&store, "comp", TextSelectionOperator::before()),
        vec![("A".to_string(), 5, 9), ("A".to_string(), 10, 14)],
        "expected: related_text(before) lists A[5,9] and A[10,14], which come after the part A[0,4] of the reference (nothing comes after B[15,19])"
    );

    // comp (B[15,19]) comes after b_word3 (B[10,14]); the library agrees:
    assert!(comp.test(&TextSelectionOperator::after(), &b_word3));
    assert_eq!(
        related(&store, "comp", TextSelectionOperator::after()),
        vec![("B".to_string(), 10, 14)],
        "expected: related_text(after) lists B[10,14], which comes before the part B[15,19] of the reference (nothing comes before A[0,4])"
    );
}

/// A selection of resource A is withheld only because a reference member that lives in resource B
/// happens to carry the same handle number; the answer changes with the order in which
/// unrelated annotations were added to resource B.
#[test]
fn result_must_not_depend_on_handle_numbers_of_other_resource() {
    let not_overlaps = TextSelectionOperator::overlaps().toggle_negate();
    let expected = vec![("A".to_string(), 5, 9), ("A".to_string(), 10, 14)];

    // here B[0,19] gets handle 0 in B (same number as A[0,4] in A)
    let mut store1 = setup(&["b_all", "b_word3", "b_word4"]);
    composite(&mut store1, "comp", (0, 4), (0, 19));
    let got1 = related(&store1, "comp", not_overlaps);

    // here B[0,19] gets handle 2 in B (same number as A[10,14] in A)
    let mut store2 = setup(&["b_word3", "b_word4", "b_all"]);
    composite(&mut store2, "comp", (0, 4), (0, 19));
    let got2 = related(&store2, "comp", not_overlaps);

    assert_eq!(
        got1, got2,
        "expected: the same annotations give the same related text, whatever order they were added in"
    );
    assert_eq!(
        got2, expected,
        "expected: A[5,9] and A[10,14] do not overlap the reference (A[0,4] + B[0,19]); everything in B overlaps B[0,19]"
    );
}

/// Side symptom of the same `collect()`: an annotation without any text (ResourceSelector) gives an
/// empty set labelled with resource 0, and the search then panics instead of finding nothing.
#[test]
fn annotation_without_text_has_no_related_text() {
    let mut store = setup(&["b_word3", "b_word4", "b_all"]);
    store
        .annotate(
            AnnotationBuilder::new()
                .with_id("meta")
                .with_target(SelectorBuilder::resourceselector("B"))
                .with_data("d", "k", "v"),
        )
        .unwrap();
    let result = std::panic::catch_unwind(|| {
        store
            .annotation("meta")
            .unwrap()
            .related_text(TextSelectionOperator::overlaps())
            .count()
    });
    assert_eq!(
        result.ok(),
        Some(0),
        "expected: an annotation that selects no text has no related text (empty result, no panic)"
    );
}

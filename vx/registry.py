"""property -> units that carry its obligations, plus the text that goes into MANIFEST.json.
tools/mk_manifest.py regenerates MANIFEST.json from this file."""

TECH = "contract-based deductive verification: Verus (Z3) on functions sliced mechanically from /repo each run"

PROPERTIES = {
    'C01': dict(
        units=['u_map', 'u_index', 'u_cascade', 'u_dataset', 'u_sub', 'u_posidx'],
        finders=['find_store_consistency', 'find_subselectors'],
        level_text="Deductive proof (Verus/Z3), for all inputs and without bound, that (1) every reverse-index primitive (RelationMap, RelationBTreeMap, TripleRelationMap, ExclusiveRelationMap: insert/extend/remove/remove_all/remove_second/get) changes exactly the addressed row and nothing else; (2) StoreCallbacks<Annotation>::inserted, verified whole, enters a new annotation into each of the seven indices exactly once per matching leaf of its target, in order, under the right keys, for every target selector and every index configuration, and changes nothing else; (3) the un-indexing part of StoreCallbacks<Annotation>::preremove removes exactly the pairs (target, annotation) from exactly the right index; (4) the dataset callbacks keep key_data_map equal to the keys of the live data; (5) the range compression of subselectors loses no target; (6) position-index insertion enters a text selection under its begin and its end. The claim is partial and says so.",
        level_note="Trusted: Vec::resize_with / Option::copied std specs, vx_position (Iterator::position semantics, structural == on handles), lawful Ord on handle types (obeys_cmp precondition), 64-bit usize, BTreeMap entry API model, SelectorIter (the sequence of leafs of a complex target is the uninterpreted walk(target); a non-complex selector yields itself). Not decided: the target collection at the head of preremove (high-level API iterators), protect_text, map reindex, totalcount.",
        design_ref='DESIGN.md §7.1',
        explanation="index primitives under full-view contracts (touched row + frame); insertion and removal callbacks of annotations proved to append / remove exactly the entries the target denotes",
        assumptions=["SelectorIter yields the leafs of a complex target (assumed, uninterpreted)", "the lists of targets computed at the head of preremove are the annotation's targets (not verified)"],
    ),
    'C13': dict(
        units=['u_rel'],
        finders=['find_rel_pair'],
        level_text="Deductive proof (Verus/Z3) that the four relation tests (TextSelection::test/test_set, TextSelectionSet::test/test_set) return exactly the interval-arithmetic relation of DESIGN.md appendix A for every operator value and every pair of ranges / sets, never panic or underflow, and that toggle_negate/toggle_all/with_limit change exactly one modifier; converse, symmetry, implication, complement and singleton laws are lemmas over that specification. TextSelection::intersection returns Some exactly when Overlaps holds, with the exact overlap part, and leaves nothing of a side exactly when that side is embedded; the Ord impl of TextSelection is the canonical order (begin, then end); TextSelectionSet::add and sort establish and keep the sorted-flag invariant the set tests take as precondition.",
        level_note="Trusted: whitespace-gap scan is an uninterpreted predicate (vx_gap_is_whitespace), derived PartialEq on TextSelection is structural, TextSelectionSet::iter is a plain wrapper of data.iter() (anchor-checked text), binary_search / sort_unstable over the canonical order and != on std's Ordering are outlined, 64-bit usize. Requires well-formed ranges (begin <= end) and the sorted-flag invariant of TextSelectionSet.",
        design_ref='DESIGN.md §7.11 and appendix A',
        explanation="relation tests proved equal to a specification written from the operator documentation; algebraic laws proved over the specification",
        assumptions=["for an empty subject set the code returns false for both an operator and its negation; the complement law is stated for non-empty subject sets"],
    ),
    'C04': dict(
        units=['u_off'],
        finders=['find_offset_accept', 'find_relative_offsets'],
        level_text="Deductive proof (Verus/Z3), for every cursor pair and every text length, that TextResource::textselection_by_offset(_unchecked) and TextSelection::textselection_by_offset accept an offset exactly when it denotes 0 <= begin <= end <= length and then return exactly that range; that beginaligned_cursor rejects positive end-aligned cursors; that relative_offset reports, in all four alignment modes, a well-formed offset (end-aligned cursors <= 0) that re-resolves to the same absolute range; no arithmetic overflow or panic in any of these.",
        level_note="Trusted: isize::abs/unsigned_abs specs, 64-bit usize, error-message text (vx_msg). Preconditions: ranges are well formed and text positions fit isize (Rust allocation limit). Not decided: that the annotation's text is precisely those codepoints (needs utf8byte, see C12) and Selector::offset_with_mode's store lookups.",
        design_ref='DESIGN.md §7.4',
        explanation="acceptance condition taken from the property statement (accept(o, len)), proved as an iff on the real functions",
        assumptions=["text length <= isize::MAX (Rust allocation limit)"],
    ),
    'C03': dict(
        units=['u_store', 'u_reindex'],
        finders=['find_reindex_ids', 'find_store_consistency'],
        kani=[dict(harness='k_temp_id', function='resolve_temp_id (src/store.rs)', file='src/store.rs', bound='every valid UTF-8 string of at most 4 bytes')],
        level_text="Deductive proof (Verus/Z3) of the generic store layer, once for every store type: StoreFor::resolve_id returns exactly the handle the id map holds for that string, or the number of a temporary id of the right kind that fits the handle type; get/has/get_mut succeed exactly for live items; remove tombstones the item, drops its id from the id map and preserves the id-map representation invariant (every id points at the live item carrying it and vice versa); insert (C14) either fails without changing the store or appends exactly one item. No lookup panics, whatever the string. Compaction: Handle::reindex shifts a handle by the deltas of the gaps recorded at or before it; ReindexStore::gaps records, for every live position, minus the number of tombstones before it; ReindexStore::reindex moves every live item, in order, to exactly the position Handle::reindex computes from its old handle, where it knows its new handle and keeps id and content, and nothing else is live; a lemma over these contracts shows the id-map invariant is preserved when every stored handle is shifted the same way (IdMap::reindex), i.e. no identifier is redirected to another item by compaction.",
        level_note="Trusted: HashMap<String,H> modelled as a map (VxStrMap), str::starts_with, Option::map(to_string), resolve_temp_id's contract (bounded Kani stand-in), callback contracts of StoreCallbacks (proved for the dataset implementations in u_dataset, assumed for AnnotationStore), 64-bit usize. Compaction: the values_mut loop of IdMap::reindex (one call of the verified Handle::reindex per value) and gaps.iter().map().sum() are outlined; AnnotationStore::reindex itself (which calls gaps / reindex / IdMap::reindex with the same gap list per store) is read, not verified; it does not remap annotation targets nor four of the reverse indices (recorded in DESIGN.md section 8 with a replay).",
        design_ref='DESIGN.md §7.3',
        explanation="representation invariant idmap_wf as pre/postcondition of every mutating operation of the generic StoreFor trait",
        assumptions=["accessor contracts (store/store_mut/idmap/idmap_mut are plain field accessors) and callback contracts hold for each implementing type"],
    ),
    'C10': dict(
        units=['u_dataset'],
        finders=['find_store_consistency', 'find_data_search'],
        level_text="Deductive proof (Verus/Z3) over the real AnnotationDataSet code that (1) the key -> data reverse index is exact at all times: the StoreCallbacks implementations for AnnotationData and DataKey (inserted / preremove) re-establish 'row k lists exactly the live data with key k, each once' around every insertion and removal, removing a key clears only its own row, and the generic StoreFor::insert/remove (proved once, instantiated here on the real accessors) pass the callbacks' effect on to their callers and keep each key and each id unique; (2) data_by_value(key, value) returns a live item with that key and an equal value, and returns None only if no live item carries that pair; (3) the de-duplicating tail of insert_data: for an id-less insertion with safety on, if a live item with the same (key, value) exists it is returned and the dataset is unchanged, otherwise exactly one item with that key and value is appended, and the index is exact again afterwards. (4) Bounded stand-in, thorough tier only, labelled and never counted as proved: DataValue::test against the documented comparison semantics written out independently (13 values of five types x 19 operators including cross-type Equals, Not, And, Or) and find_data by key, by value and by both against a full scan (string parsing, floats and boxed iterators are outside the verifier's reach).",
        level_note="Trusted: DataValue equality is an uninterpreted relation (veq: the derived ==); random id generation (generate_id); the changed-flag write (mark_changed) is dropped; HashMap<String,H> model; vx_position. insert_data is verified as a region: the BuildItem resolution at its head (lookup of the id, key creation) is not verified and enters as preconditions (the id does not resolve, the key is live). Not decided: DataValue::test comparison semantics, find_data iterators, AnnotationStore::insert_data (implicit dataset creation).",
        design_ref='DESIGN.md §7.9',
        explanation="dataset invariant kd_wf as a pre/postcondition pair of the real callbacks, carried through the generic insert/remove; de-duplication as a postcondition of the real insert_data tail over data_by_value's contract",
        assumptions=["the head of insert_data establishes the region's preconditions (read, not verified)"],
    ),
    'C07': dict(
        units=['u_seg'],
        finders=['find_segmentation', 'find_text_ops'],
        level_text="Narrow claim: deductive proof (Verus/Z3) that SegmentationIter::next yields consecutive, non-empty, non-overlapping pieces that stay inside the segmented range, cuts only at positions where a known selection begins or ends (never at an empty milestone entry) or at the end of the range, skips no such boundary, and terminates. The rest of C07 compares against str and regex library behaviour on UTF-8 bytes, which no contract within reach can express: find_text, find_text_nocase, split_text and trim_text (on a whole resource and inside every sub-selection) have a BOUNDED stand-in in the thorough tier (replay/finder.rs find_text_ops: every sub-range of 6 short texts over 1-4 byte codepoints, 7 needles / delimiters, 3 trim sets, compared with the plain string operation), labelled bounded and never counted as proved; regex search and find_text_sequence are NOT claimed.",
        level_note="Trusted: the positions iterator yields the keys of the position index in strictly increasing order; TextResource::position is a plain index lookup; textselection(&offset) succeeds exactly for accepted offsets (proved for the underlying functions in u_off).",
        design_ref='DESIGN.md §7.6',
        explanation="partition and boundary clauses on the real SegmentationIter::next with the iterator and resource accessors stubbed",
        assumptions=["find_text_regex / find_text_sequence are not covered; find_text / find_text_nocase / split_text / trim_text only by the bounded stand-in of the thorough tier"],
    ),
    'C02': dict(
        units=['u_store', 'u_cascade', 'u_map', 'u_dataset', 'u_ann', 'u_ann_closure'],
        finders=['find_store_consistency'],
        level_text="Deductive proof (Verus/Z3): the generic StoreFor::remove succeeds whenever the item exists (and its callback succeeds), leaves a tombstone, drops the item's id and only ever turns other slots into tombstones; the index half of StoreCallbacks<Annotation>::preremove (cut out as a region) removes the removed annotation from exactly the rows of exactly the reverse index that its targets and data occupy, leaving every other row untouched; the index primitives used by the cascade (remove / remove_all / remove_second) and the dataset callbacks are exact. The transitive set of dependents that is removed is defined by the un-contracted part of preremove and is NOT decided.",
        level_note="Trusted: the collection of an annotation's targets through the high-level iterator API at the start of preremove(Annotation) (outside the region), preremove for TextResource / AnnotationDataSet, remove_data/remove_key orchestration, DELETE query routing; HashMap model; vx_position; lawful Ord on handles.",
        design_ref='DESIGN.md §7.2',
        explanation="removal = generic tombstone contract + exact un-indexing of the removed annotation",
        assumptions=["each reverse-index row lists an annotation at most once (stated as a precondition of the un-indexing region)"],
    ),
    'C06': dict(
        units=['u_find', 'u_tsiter', 'u_rel', 'u_posidx'],
        finders=['find_related_text', 'find_index_walk'],
        level_text="Deductive proof (Verus/Z3) of the range choice of the related-text search: for every operator/modifier combination, every non-empty reference set and every well-formed candidate inside the text, if the relation test (proved equal to the appendix-A specification in u_rel) holds for the candidate then FindTextSelectionsIter::init_textseliters has chosen an index range and direction that visits it (forward by begin / backward by end), and no candidate is visited by two ranges; TextResource::iter covers every selection including one that begins at the very end of the text. The filter/buffer logic (walk region of next_textselection, next_iterator, next) is proved to return, as a multiset, exactly the handles of the walked selections for which the test holds and which are not members of the reference set - nothing lost, nothing twice - and to terminate.",
        level_note="TextSelectionIter::next / next_back (the walk over the position index) are verified in u_tsiter against the sequence of handles still to be yielded (rest of the current per-position list, then the lists of the remaining entries from the front / from the back); trusted there: btree_map::Range is a double-ended iterator over the entries of the range in key order, slice iterators obey vstd's iterator laws. Two lemmas over that contract (u_tsiter) show that a walk over index entries with distinct ascending positions, each listing exactly the selections that begin / end there, yields every such selection exactly once - the 'each indexed selection once' assumption of u_find. Still assumed: that a fresh TextResource::range(b,e) holds exactly the entries with b <= position < e (BTreeMap::range), and entry exactness as a standing invariant (its insertion side is u_posidx); that every inserted selection IS indexed under both its begin and its end is proved (u_posidx, closures of the entry API lifted, entry API trusted); the five glue lines of next_textselection (Equals shortcut via known_textselection, lazy call of init_textseliters) are not verified - its walk region and next() are; whitespace-gap scan uninterpreted.",
        design_ref='DESIGN.md §7.5',
        explanation="cover + once clauses over the relation specification; oracle shared with C13",
        assumptions=["BTreeMap::range yields exactly the entries of the half-open range in key order (std)", "reference selections lie inside the text"],
    ),
    'C08': dict(
        units=['u_iter', 'u_handles'],
        finders=['find_limit_slice', 'find_handles_setops', 'find_query_semantics'],
        level_text="Narrow claim, two parts. (1) LIMIT: deductive proof (Verus/Z3), for any lawful inner iterator and any begin/end (positive, negative, zero, mixed), that LimitIter::next yields exactly the elements of the LIMIT slice of the unlimited results, in order: a ghost function future() of the iterator state is proved to equal slice_spec(all results, begin, end) for a fresh iterator, and every call returns its head and advances it (or returns None exactly when it is empty); no overflow, termination. (2) The handle collections that carry unions and constraint intersections (Handles, instantiated at one handle type): contains / position / add / union / intersection / contains_subset / sort / from_iter with their sorted fast paths against set semantics - union's members are exactly those of both operands and it adds no duplicates, intersection keeps exactly the common members - and against the representation invariant that the sorted flag is only set on a sorted array (every binary search has a sorted slice as a proved precondition). (3) Bounded stand-in, thorough tier only, labelled and never counted as proved: the query engine itself (QueryIter: 2600 lines of boxed iterator plumbing outside the verifier's reach) is run on a 12-annotation store over 9 constraints - every ordered pair as a conjunction must give the intersection of the single-constraint results whichever is written first, every pair as a disjunction their union without duplicates, LIMIT n the first n; two failing inputs of this stand-in are recorded known findings (constraint RESOURCE is order dependent). Sub-queries, STAMQL = builder = iterator API and ADD/DELETE equivalence are NOT claimed.",
        level_note="Trusted: vstd's prophetic iterator laws for the inner iterator (obeys_prophetic_iter_laws, finite: decrease() is Some), isize::abs/unsigned_abs specs, 64-bit usize; the range end of one for-loop is hoisted into a local (R-hoist). Handles: Cow<[H]> treated as Vec<H> (R-cow), T::FullHandleType instantiated at AnnotationHandle (R-instantiate); std slice operations binary_search (on a sorted slice), contains, sort_unstable, derived PartialOrd, zip/all, clone are outlined with their std meaning; Vec::retain with the stateful closure of intersection is trusted to call the (lifted and verified) closure once per element in order.",
        design_ref='DESIGN.md §7.7',
        explanation="LIMIT as a slice: state-to-future ghost function plus transition lemmas; Handles: membership-form set contracts plus the sorted-flag invariant",
        assumptions=["the number of inner results is below isize::MAX", "tuple full-handle types (dataset, item) order lexicographically like the single handle type the unit is instantiated at"],
    ),
    'C12': dict(
        units=['u_utf8', 'u_subtext', 'u_subtext2', 'u_posidx'],
        finders=['find_utf8'],
        level_text="Conditional claim: deductive proof (Verus/Z3) over the real TextResource::utf8byte and utf8byte_to_charpos, with UTF-8 decoding abstracted into a trusted codepoint<->byte map of the text: for EVERY content of the position index and byte2charmap that satisfies the index invariant (each entry carries the true byte offset of its position), utf8byte(p) returns exactly the byte offset of p for 0 <= p <= length and an error beyond, and utf8byte_to_charpos(b) returns exactly the position whose offset is b and an error for any other byte (inside a character, beyond the text). Since the postconditions mention only the text, the answers cannot depend on milestone interval, shrink-to-fit or existing annotations; create_milestones and the index insertion callback (u_posidx) are proved to preserve the invariant. Round trip = identity follows from the two contracts.",
        level_note="Trusted: the abstract text model (char_indices / str::len / &text[b..] slicing at a boundary, as external_body helpers whose bodies are the original expressions), BTreeMap::range(..).next_back() (vx_last_below). Eight declared R-outline firings in two 45-line functions; the loop headers over char_indices().enumerate() are rewritten to loops over the trusted pair list. The relative variants on ResultTextSelection and on ResultItem<TextSelection> (src/api/text.rs) are proved to translate coordinates exactly (u_subtext, u_subtext2) over the resource contracts; subslice_utf8_offset (pointer arithmetic) is trusted.",
        design_ref='DESIGN.md §7.10',
        explanation="exactness against an abstract map, for all index contents satisfying the invariant",
        assumptions=["UTF-8 decoding by std (char_indices) is correct", "Text::text() of a selection returns the slice between the byte offsets of its ends (assumed)"],
    ),
    'C14': dict(
        units=['u_annotate', 'u_store', 'u_off'],
        finders=['find_offset_accept', 'find_subselectors', 'find_annotate_failures'],
        level_text="Deductive proof (Verus/Z3) of what a failing mutation may leave behind: the generic StoreFor::insert (every store type) either succeeds or - unless a callback fails after the push, which the callback contracts rule out for in-range items - leaves store and id map unchanged, and rejects a duplicate id without changing anything; TextResource::textselection_by_offset rejects exactly the offsets that do not denote a range inside the text, before anything is inserted; AnnotationStore::annotate resolves the target before it touches any data, so an unresolvable or missing target leaves the store unchanged, and never adds an annotation when it returns an error. Full atomicity of annotate (valid new target + invalid data) does NOT hold on this code and is a recorded known finding.",
        level_note="Trusted: contracts of AnnotationStore::selector / insert_data (selector touches only text selections and nothing on failure; insert_data touches only the data side) over an opaque store with three ghost versions; callback contracts; batches (annotate_from_iter, annotate_from_file, query_mut ADD) are loops over annotate and are not separately covered.",
        design_ref='DESIGN.md §7.12',
        explanation="ordering and failure-atomicity clauses on the real annotate body over assumed component contracts",
        assumptions=["AnnotationStore::selector is atomic on failure (proved for its text arm's components only)"],
    ),
    'C19': dict(
        units=['u_off', 'u_store', 'u_sub'],
        finders=['find_offset_accept', 'find_relative_offsets', 'find_subselectors'],
        kani=[dict(harness='k_temp_id', function='resolve_temp_id (src/store.rs)', file='src/store.rs', bound='every valid UTF-8 string of at most 4 bytes'),
              dict(harness='k_cursor_str', function='impl TryFrom<&str> for Cursor (src/types.rs)', file='src/types.rs', bound='every valid UTF-8 string of at most 3 bytes')],
        level_text="Narrow claim: deductive proof (Verus/Z3) of panic freedom WITHOUT any precondition on the value for the functions that a deserialised cursor, offset, temporary id or handle reaches: Text::beginaligned_cursor and TextResource::textselection_by_offset for every Cursor value (including EndAligned(isize::MIN) and positive end-aligned cursors), Cursor::try_from(isize), StoreFor::resolve_id / get / has for every string and every handle (Handle::new truncation is covered by a round-trip check), and the range-compression loop of subselectors for every order of handles. The loaders themselves (serde_json / csv / minicbor visitors), allocation driven by numbers in the input, and termination are NOT decided. Two string leaves have bounded Kani stand-ins in the thorough tier only (labelled bounded, not counted as proved).",
        level_note="Trusted: as for C03/C04/C01 units. Known by reading, outside reach and not claimed: AnnotationsVisitor / DataVisitor call resize_with(handle) with a handle taken from a temporary id in the input (memory exhaustion for '!A4294967296'); the sort comparator of subselectors panics on two DataKeySelectors.",
        design_ref='DESIGN.md §7.13',
        explanation="precondition-free safety obligations of the functions reached from deserialised values",
        assumptions=["everything that happens inside serde / csv / minicbor and the visitor impls is outside this check"],
    ),
}

NOT_APPLICABLE = {
    'C05': "JSON round trip lives in serde-generic Serialize/Visitor impls and string formatting; no contract within reach of Verus or Kani can express equality of two stores across serde_json (DESIGN.md §6)",
    'C09': "Totality of Query::parse is a statement about byte-index slicing of &str and the print/parse fixpoint about fmt output; neither is expressible over Verus's str model and CBMC is intractable on the parser. The narrow unit planned for numeric-literal classification was not built: the panic it targeted was found by reading, replayed and repaired (fix commit 0b1659c, DESIGN.md sections 6 and 8)",
    'C11': "CBOR round trip is derive-generated minicbor code (#[derive(Encode, Decode)] + #[n(k)]); the code that matters is macro output, outside both verifiers (DESIGN.md §6)",
    'C15': "CSV column packing is String concatenation and the csv crate; no String-content reasoning in Verus, intractable in CBMC (DESIGN.md §6)",
    'C16': "Transposition is a 450-line algorithm over high-level API values holding &AnnotationStore; its arithmetic kernels are covered under C04/C13 (DESIGN.md §6)",
    'C17': "Web Annotation export assembles JSON text with format!/push_str; well-formedness is a statement about string contents (DESIGN.md §6)",
    'C18': "Text validation is SHA-1 plus String equality through the iterator API (DESIGN.md §6)",
    'C20': "Quantifies over thread schedules; Kani has no threads and Verus needs its own permission types that the real Arc<RwLock<_>> code does not use (DESIGN.md §6)",
}

# properties planned but whose unit is not built yet: listed as not_applicable until their check exists
PENDING = {
}

// replay of the defect repaired by /repo commit 3b2ddef (C04): copy to /repo/tests/ and run it with cargo test; it fails on the parent commit.
// Defect: an offset resolved *relative to a text selection* (FindText::textselection() on a
// ResultTextSelection / ResultItem<TextSelection>) is not checked against the length of that
// text selection, only against the length of the whole resource.
use stam::*;

fn store() -> AnnotationStore {
    let mut store = AnnotationStore::default()
        .with_id("test")
        .with_resource(
            TextResourceBuilder::new()
                .with_id("r")
                .with_text("0123456789"),
        )
        .unwrap();
    store
        .annotate(
            AnnotationBuilder::new()
                .with_id("A1")
                .with_target(SelectorBuilder::textselector("r", Offset::simple(2, 5)))
                .with_data("s", "k", "v"),
        )
        .unwrap();
    store
}

/// unbound text selection "234" (length 3), relative offset 0..6 lies outside of it
#[test]
fn unbound_textselection_rejects_end_beyond_its_length() {
    let store = store();
    let resource = store.resource("r").unwrap();
    let sel = resource.textselection(&Offset::simple(2, 4)).unwrap();
    assert_eq!(sel.text(), "23");
    //sanity: the sibling method does refuse the same offset
    assert!(sel.text_by_offset(&Offset::simple(0, 6)).is_err());
    let result = sel.textselection(&Offset::simple(0, 6));
    assert!(
        result.is_err(),
        "offset 0..6 relative to a text selection of length 2 must be refused with an error, but it was accepted and selects {:?}",
        result.as_ref().map(|t| t.text())
    );
}

/// bound text selection (the text of annotation A1, "234"), begin and end beyond its length
#[test]
fn bound_textselection_rejects_offset_beyond_its_length() {
    let store = store();
    let annotation = store.annotation("A1").unwrap();
    let sel = annotation.textselections().next().unwrap();
    assert_eq!(sel.text(), "234");
    for offset in [
        Offset::simple(1, 7),
        Offset::simple(4, 4),
        Offset::new(Cursor::EndAligned(-1), Cursor::BeginAligned(4)),
    ] {
        let result = sel.textselection(&offset);
        assert!(
            result.is_err(),
            "offset {:?} relative to the text of A1 (\"234\", length 3) must be refused with an error, but it was accepted and selects {:?}",
            offset,
            result.as_ref().map(|t| t.text())
        );
    }
}

/// valid offsets keep working and select exactly the addressed codepoints
#[test]
fn valid_relative_offsets_still_resolve() {
    let store = store();
    let annotation = store.annotation("A1").unwrap();
    let sel = annotation.textselections().next().unwrap();
    assert_eq!(sel.textselection(&Offset::simple(1, 3)).unwrap().text(), "34");
    assert_eq!(sel.textselection(&Offset::whole()).unwrap().text(), "234");
    assert_eq!(sel.textselection(&Offset::simple(3, 3)).unwrap().text(), "");
    assert_eq!(
        sel.textselection(&Offset::new(Cursor::EndAligned(-2), Cursor::EndAligned(-1)))
            .unwrap()
            .text(),
        "3"
    );
    assert!(sel.textselection(&Offset::simple(2, 1)).is_err());
}

/// the same hole is reachable through the query language: OFFSET on an annotation
#[test]
fn query_offset_on_annotation_stays_inside_the_annotation() {
    let store = store();
    let query: Query = "SELECT TEXT ?t WHERE ANNOTATION \"A1\" OFFSET 1 7;"
        .try_into()
        .unwrap();
    let mut texts: Vec<String> = Vec::new();
    for row in store.query(query).unwrap() {
        if let Ok(QueryResultItem::TextSelection(t)) = row.get_by_name("t") {
            texts.push(t.text().to_string());
        }
    }
    assert!(
        texts.is_empty(),
        "OFFSET 1 7 does not fit in the text of A1 (\"234\"), no text may be selected, but got {:?}",
        texts
    );
}

/// a huge begin-aligned cursor must give an error, not an arithmetic overflow panic
#[test]
fn huge_cursor_is_an_error_not_a_panic() {
    let store = store();
    let annotation = store.annotation("A1").unwrap();
    let sel = annotation.textselections().next().unwrap();
    let result = sel.textselection(&Offset::new(
        Cursor::BeginAligned(usize::MAX),
        Cursor::EndAligned(0),
    ));
    assert!(result.is_err(), "out of range cursor must be refused with an error");
}

"""U-cascade3: AnnotationStore::remove_data (src/annotationstore.rs), strict and non-strict, instantiated at handles.
Over the assumed contracts of its components (recursive removal of one annotation as in u_cascade2; Annotation::remove_data as
proved in u_ann; removal of a data item from its dataset as proved for the generic store in u_store / u_dataset):
after an Ok, no live annotation uses the data item any more (strict: every annotation that used it is gone), every
annotation about the data item is gone, the data item's metadata row is cleared, and nothing was created.  Serves C02."""
from vx.gen import Unit, Fn
from . import common
from . import u_map

P = ['C02']
AS = 'src/annotationstore.rs'

STUBS = r'''
/// R-err
#[verifier::external_body]
pub fn vx_msg() -> String { String::new() }

/// R-opaque: an annotation, as far as data removal is concerned: which data it uses and how many
#[verifier::external_body]
pub struct Annotation { _p: usize }
impl Annotation {
    pub uninterp spec fn uses(&self, set: AnnotationDataSetHandle, data: AnnotationDataHandle) -> bool;
    pub uninterp spec fn dlen(&self) -> nat;
    /// stands for `annotation.raw_data().len()`
    #[verifier::external_body]
    pub fn vx_data_len(&self) -> (r: usize) ensures r == self.dlen(), { unimplemented!() }
    /// Annotation::remove_data (src/annotation.rs); contract proved in u_ann (exactly the pair is filtered out)
    #[verifier::external_body]
    pub fn remove_data(&mut self, set: AnnotationDataSetHandle, data: AnnotationDataHandle)
        ensures !final(self).uses(set, data), final(self).dlen() <= old(self).dlen(),
            forall|s2: AnnotationDataSetHandle, d2: AnnotationDataHandle| !(s2 == set && d2 == data) ==> #[trigger] final(self).uses(s2, d2) == old(self).uses(s2, d2),
    { unimplemented!() }
}

pub open spec fn live_a(s: Seq<Option<Annotation>>, h: AnnotationHandle) -> bool { h.idx() < s.len() && s[h.idx() as int] is Some }
/// nothing is created or resurrected, and no annotation gains a data reference (removals only take away)
pub open spec fn mono(o: Seq<Option<Annotation>>, n: Seq<Option<Annotation>>) -> bool {
    n.len() == o.len() && forall|i: int| 0 <= i < o.len() ==> (#[trigger] n[i]) is None || (o[i] is Some && forall|s2: AnnotationDataSetHandle, d2: AnnotationDataHandle| n[i].unwrap().uses(s2, d2) ==> o[i].unwrap().uses(s2, d2))
}
pub open spec fn shrinks(o: Seq<Option<Annotation>>, n: Seq<Option<Annotation>>) -> bool {
    n.len() == o.len() && forall|i: int| 0 <= i < o.len() ==> (#[trigger] n[i]) is None || n[i] == o[i]
}
/// an entry leaves a reverse index only when its annotation is removed or (for the data index) no longer uses the data
pub open spec fn kept_or_dead(o: AnnotationStore, n: AnnotationStore) -> bool {
    (forall|x: int, y: int, h: AnnotationHandle| o.dataset_data_annotation_map.cell(x, y).contains(h) ==> #[trigger] n.dataset_data_annotation_map.cell(x, y).contains(h) || !live_a(n.annotations@, h))
    && (forall|x: int, y: int, h: AnnotationHandle| o.data_annotation_metamap.cell(x, y).contains(h) ==> #[trigger] n.data_annotation_metamap.cell(x, y).contains(h) || !live_a(n.annotations@, h))
    && (forall|x: int, y: int, h: AnnotationHandle| o.key_annotation_metamap.cell(x, y).contains(h) ==> #[trigger] n.key_annotation_metamap.cell(x, y).contains(h) || !live_a(n.annotations@, h))
}

/// like kept_or_dead, but entries of the data index may also leave the one cell (set, data) that is being emptied
pub open spec fn kept_except(o: AnnotationStore, n: AnnotationStore, set: AnnotationDataSetHandle, data: AnnotationDataHandle) -> bool {
    (forall|x: int, y: int, h: AnnotationHandle| o.dataset_data_annotation_map.cell(x, y).contains(h) ==> #[trigger] n.dataset_data_annotation_map.cell(x, y).contains(h) || !live_a(n.annotations@, h) || (x == set.idx() && y == data.idx()))
    && (forall|x: int, y: int, h: AnnotationHandle| o.data_annotation_metamap.cell(x, y).contains(h) ==> #[trigger] n.data_annotation_metamap.cell(x, y).contains(h) || !live_a(n.annotations@, h))
    && (forall|x: int, y: int, h: AnnotationHandle| o.key_annotation_metamap.cell(x, y).contains(h) ==> #[trigger] n.key_annotation_metamap.cell(x, y).contains(h) || !live_a(n.annotations@, h))
}

pub proof fn lemma_mono_trans(a: Seq<Option<Annotation>>, b: Seq<Option<Annotation>>, c: Seq<Option<Annotation>>)
    requires mono(a, b), mono(b, c),
    ensures mono(a, c),
{
    assert forall|i: int| 0 <= i < a.len() implies (#[trigger] c[i]) is None || (a[i] is Some && forall|s2: AnnotationDataSetHandle, d2: AnnotationDataHandle| c[i].unwrap().uses(s2, d2) ==> a[i].unwrap().uses(s2, d2)) by {
        assert(b[i] is None || a[i] is Some);
        assert(c[i] is None || b[i] is Some);
    }
}
pub proof fn lemma_shrinks_is_mono(a: Seq<Option<Annotation>>, b: Seq<Option<Annotation>>)
    requires shrinks(a, b),
    ensures mono(a, b),
{
    assert forall|i: int| 0 <= i < a.len() implies (#[trigger] b[i]) is None || (a[i] is Some && forall|s2: AnnotationDataSetHandle, d2: AnnotationDataHandle| b[i].unwrap().uses(s2, d2) ==> a[i].unwrap().uses(s2, d2)) by { }
}
pub proof fn lemma_kept_trans(a: AnnotationStore, b: AnnotationStore, c: AnnotationStore)
    requires kept_or_dead(a, b), kept_or_dead(b, c), mono(b.annotations@, c.annotations@),
    ensures kept_or_dead(a, c),
{
    assert forall|x: int, y: int, h: AnnotationHandle| a.dataset_data_annotation_map.cell(x, y).contains(h) implies #[trigger] c.dataset_data_annotation_map.cell(x, y).contains(h) || !live_a(c.annotations@, h) by {
        if !b.dataset_data_annotation_map.cell(x, y).contains(h) { assert(!live_a(b.annotations@, h)); if h.idx() < b.annotations@.len() { assert(c.annotations@[h.idx() as int] is None || b.annotations@[h.idx() as int] is Some); } }
    }
    assert forall|x: int, y: int, h: AnnotationHandle| a.data_annotation_metamap.cell(x, y).contains(h) implies #[trigger] c.data_annotation_metamap.cell(x, y).contains(h) || !live_a(c.annotations@, h) by {
        if !b.data_annotation_metamap.cell(x, y).contains(h) { assert(!live_a(b.annotations@, h)); if h.idx() < b.annotations@.len() { assert(c.annotations@[h.idx() as int] is None || b.annotations@[h.idx() as int] is Some); } }
    }
    assert forall|x: int, y: int, h: AnnotationHandle| a.key_annotation_metamap.cell(x, y).contains(h) implies #[trigger] c.key_annotation_metamap.cell(x, y).contains(h) || !live_a(c.annotations@, h) by {
        if !b.key_annotation_metamap.cell(x, y).contains(h) { assert(!live_a(b.annotations@, h)); if h.idx() < b.annotations@.len() { assert(c.annotations@[h.idx() as int] is None || b.annotations@[h.idx() as int] is Some); } }
    }
}
/// the key -> annotations index: an entry leaves a cell only when its annotation is removed
pub open spec fn key_kept(o: AnnotationStore, n: AnnotationStore) -> bool {
    forall|x: int, y: int, h: AnnotationHandle| o.key_annotation_metamap.cell(x, y).contains(h) ==> #[trigger] n.key_annotation_metamap.cell(x, y).contains(h) || !live_a(n.annotations@, h)
}
pub proof fn lemma_key_kept_trans(a: AnnotationStore, b: AnnotationStore, c: AnnotationStore)
    requires key_kept(a, b), key_kept(b, c), mono(b.annotations@, c.annotations@),
    ensures key_kept(a, c),
{
    assert forall|x: int, y: int, h: AnnotationHandle| a.key_annotation_metamap.cell(x, y).contains(h) implies #[trigger] c.key_annotation_metamap.cell(x, y).contains(h) || !live_a(c.annotations@, h) by {
        if !b.key_annotation_metamap.cell(x, y).contains(h) { assert(!live_a(b.annotations@, h)); if h.idx() < b.annotations@.len() { assert(c.annotations@[h.idx() as int] is None || b.annotations@[h.idx() as int] is Some); } }
    }
}
pub proof fn lemma_refl(a: AnnotationStore)
    ensures kept_or_dead(a, a), mono(a.annotations@, a.annotations@),
{
}
/// done stays done while nothing gains a data reference
pub proof fn lemma_done_stable(o: Seq<Option<Annotation>>, n: Seq<Option<Annotation>>, a: AnnotationHandle, set: AnnotationDataSetHandle, data: AnnotationDataHandle)
    requires mono(o, n), done(o, a, set, data),
    ensures done(n, a, set, data), !live_a(o, a) ==> !live_a(n, a),
{
    let q = a.idx() as int;
    if q < n.len() { assert(n[q] is None || o[q] is Some); }
}
/// done(a): the annotation is gone or no longer uses the data item; it stays done
pub open spec fn done(s: Seq<Option<Annotation>>, a: AnnotationHandle, set: AnnotationDataSetHandle, data: AnnotationDataHandle) -> bool {
    !live_a(s, a) || !s[a.idx() as int].unwrap().uses(set, data)
}

impl AnnotationStore {
    /// stands for `<AnnotationStore as StoreFor<Annotation>>::has(self, handle)`
    #[verifier::external_body]
    pub fn vx_has_annotation(&self, h: AnnotationHandle) -> (r: bool)
        ensures r == live_a(self.annotations@, h),
    { unimplemented!() }

    /// stands for the recursive `<AnnotationStore as StoreFor<Annotation>>::remove(self, handle)` (assumed as in u_cascade2)
    #[verifier::external_body]
    pub fn vx_remove_annotation(&mut self, h: AnnotationHandle) -> (r: Result<(), StamError>)
        ensures
            r is Ok ==> !live_a(final(self).annotations@, h),
            shrinks(old(self).annotations@, final(self).annotations@),
            kept_or_dead(*old(self), *final(self)),
    { unimplemented!() }

    /// stands for `self.get_mut(a_handle)` on the annotation store (contract of the generic StoreFor::get_mut, u_store)
    #[verifier::external_body]
    pub fn vx_annotation_mut(&mut self, h: AnnotationHandle) -> (r: Result<&mut Annotation, StamError>)
        ensures
            r is Ok <==> live_a(old(self).annotations@, h),
            r is Ok ==> *r->Ok_0 == old(self).annotations@[h.idx() as int].unwrap(),
            r is Ok ==> final(self).annotations@ == old(self).annotations@.update(h.idx() as int, Some(*final(r->Ok_0))),
            r is Err ==> final(self).annotations@ == old(self).annotations@,
            final(self).dataset_data_annotation_map == old(self).dataset_data_annotation_map && final(self).data_annotation_metamap == old(self).data_annotation_metamap && final(self).key_annotation_metamap == old(self).key_annotation_metamap,
    { unimplemented!() }

    /// stands for `data.to_handle(self.get(set_handle)?)` at a data handle: fails exactly when the dataset does not exist
    #[verifier::external_body]
    pub fn vx_data_in_set(&self, set: AnnotationDataSetHandle, data: AnnotationDataHandle) -> (r: Result<Option<AnnotationDataHandle>, StamError>)
        ensures r is Ok ==> r->Ok_0 == Some(data),
    { unimplemented!() }

    /// stands for `key.to_handle(self.get(set_handle)?)` at a key handle
    #[verifier::external_body]
    pub fn vx_key_in_set(&self, set: AnnotationDataSetHandle, key: DataKeyHandle) -> (r: Result<Option<DataKeyHandle>, StamError>)
        ensures r is Ok ==> r->Ok_0 == Some(key),
    { unimplemented!() }

    /// stands for `let set = self.get(set_handle)?; .. set.data_by_key(key_handle) .. data.clone()`: the data items the key -> data
    /// index of the dataset lists under the key (exactness of that index: u_dataset)
    #[verifier::external_body]
    pub fn vx_data_of_key(&self, set: AnnotationDataSetHandle, key: DataKeyHandle) -> (r: Result<Option<Vec<AnnotationDataHandle>>, StamError>)
        ensures r is Ok ==> (match r->Ok_0 { Some(v) => v@ == self.key_data(set, key), None => self.key_data(set, key).len() == 0 }),
    { unimplemented!() }
    pub uninterp spec fn key_data(&self, set: AnnotationDataSetHandle, key: DataKeyHandle) -> Seq<AnnotationDataHandle>;

    /// stands for `let set = self.get_mut(set_handle)?; <AnnotationDataSet as StoreFor<DataKey>>::remove(set, key_handle)?;`
    #[verifier::external_body]
    pub fn vx_remove_key_from_set(&mut self, set: AnnotationDataSetHandle, key: DataKeyHandle) -> (r: Result<(), StamError>)
        ensures final(self).annotations@ == old(self).annotations@,
            final(self).dataset_data_annotation_map == old(self).dataset_data_annotation_map && final(self).data_annotation_metamap == old(self).data_annotation_metamap && final(self).key_annotation_metamap == old(self).key_annotation_metamap,
    { unimplemented!() }

    /// stands for `let set = self.get_mut(set_handle)?; <AnnotationDataSet as StoreFor<AnnotationData>>::remove(set, data_handle)?;`
    /// (generic store removal inside the dataset, u_store / u_dataset): touches neither annotations nor the store-level indices
    #[verifier::external_body]
    pub fn vx_remove_data_from_set(&mut self, set: AnnotationDataSetHandle, data: AnnotationDataHandle) -> (r: Result<(), StamError>)
        ensures final(self).annotations@ == old(self).annotations@,
            final(self).dataset_data_annotation_map == old(self).dataset_data_annotation_map && final(self).data_annotation_metamap == old(self).data_annotation_metamap && final(self).key_annotation_metamap == old(self).key_annotation_metamap,
    { unimplemented!() }
}

/// entries leave the data index only for dead annotations or from a cell (set, d) with d one of the listed data items
pub open spec fn kept_except_list(o: AnnotationStore, n: AnnotationStore, set: AnnotationDataSetHandle, ds: Seq<AnnotationDataHandle>) -> bool {
    (forall|x: int, y: int, h: AnnotationHandle| o.dataset_data_annotation_map.cell(x, y).contains(h) ==> #[trigger] n.dataset_data_annotation_map.cell(x, y).contains(h) || !live_a(n.annotations@, h) || (x == set.idx() && exists|j: int| 0 <= j < ds.len() && ds[j].idx() == y))
    && (forall|x: int, y: int, h: AnnotationHandle| o.data_annotation_metamap.cell(x, y).contains(h) ==> #[trigger] n.data_annotation_metamap.cell(x, y).contains(h) || !live_a(n.annotations@, h))
    && (forall|x: int, y: int, h: AnnotationHandle| o.key_annotation_metamap.cell(x, y).contains(h) ==> #[trigger] n.key_annotation_metamap.cell(x, y).contains(h) || !live_a(n.annotations@, h))
}

/// R-outline: `V.clone()` of a vector of Copy handles
#[verifier::external_body]
pub fn vx_clone_handles(v: &Vec<AnnotationHandle>) -> (r: Vec<AnnotationHandle>)
    ensures r@ == v@,
{ v.clone() }
'''


L1_END = '''proof {
                        let i = vx_it.index@ as int;
                        lemma_mono_trans(old(self).annotations@, vx_pre_store.annotations@, self.annotations@);
                        lemma_kept_trans(*old(self), vx_pre_store, *self);
                        assert forall|j: int| 0 <= j < i + 1 implies done(self.annotations@, #[trigger] vx_list1@[j], set, data) && (strict ==> !live_a(self.annotations@, vx_list1@[j])) by {
                            if j < i { assert(done(vx_pre_store.annotations@, vx_list1@[j], set, data)); let q = vx_list1@[j].idx() as int; if q < self.annotations@.len() { assert(self.annotations@[q] is None || vx_pre_store.annotations@[q] is Some); } }
                        }
                    }'''

L2_END = '''proof {
                        let i = vx_it.index@ as int;
                        lemma_mono_trans(old(self).annotations@, vx_pre_store.annotations@, self.annotations@);
                        lemma_kept_trans(*old(self), vx_pre_store, *self);
                        assert forall|j: int| 0 <= j < i + 1 implies !live_a(self.annotations@, #[trigger] vx_list2@[j]) by {
                            if j < i { let q = vx_list2@[j].idx() as int; if q < self.annotations@.len() { assert(self.annotations@[q] is None || vx_pre_store.annotations@[q] is Some); } }
                        }
                    }'''

FINAL = '''proof {
            let o = *old(self); let x = set.idx() as int; let y = data.idx() as int;
            assert(vx_l1 =~= o.dataset_data_annotation_map.cell(x, y));
            assert forall|k: int| 0 <= k < vx_l1.len() implies done(self.annotations@, #[trigger] vx_l1[k], set, data) && (strict ==> !live_a(self.annotations@, vx_l1[k])) by {
                assert(done(vx_mid.annotations@, vx_l1[k], set, data));
                let q = vx_l1[k].idx() as int; if q < self.annotations@.len() { assert(self.annotations@[q] is None || vx_mid.annotations@[q] is Some); }
            }
            assert forall|k: int| 0 <= k < o.data_annotation_metamap.cell(x, y).len() implies !live_a(self.annotations@, #[trigger] o.data_annotation_metamap.cell(x, y)[k]) by {
                let h = o.data_annotation_metamap.cell(x, y)[k];
                assert(o.data_annotation_metamap.cell(x, y).contains(h));
                if vx_mid.data_annotation_metamap.cell(x, y).contains(h) {
                    assert(vx_l2 =~= vx_mid.data_annotation_metamap.cell(x, y));
                    let q = choose|q: int| 0 <= q < vx_l2.len() && vx_l2[q] == h;
                    assert(!live_a(self.annotations@, vx_l2[q]));
                } else {
                    assert(!live_a(vx_mid.annotations@, h));
                    let q = h.idx() as int; if q < self.annotations@.len() { assert(self.annotations@[q] is None || vx_mid.annotations@[q] is Some); }
                }
            }
        }'''


KEY_L1_END = '''proof {
                        let i = vx_it.index@ as int; let d = vx_data@[i];
                        lemma_mono_trans(old(self).annotations@, vx_pre_store.annotations@, self.annotations@);
                        assert(kept_except_list(*old(self), *self, set, vx_data@.take(i + 1))) by {
                            let o = *old(self); let b = vx_pre_store; let c = *self; let ds = vx_data@.take(i + 1);
                            assert forall|x: int, y: int, h: AnnotationHandle| o.dataset_data_annotation_map.cell(x, y).contains(h) implies #[trigger] c.dataset_data_annotation_map.cell(x, y).contains(h) || !live_a(c.annotations@, h) || (x == set.idx() && exists|j: int| 0 <= j < ds.len() && ds[j].idx() == y) by {
                                if b.dataset_data_annotation_map.cell(x, y).contains(h) {
                                    if !c.dataset_data_annotation_map.cell(x, y).contains(h) && live_a(c.annotations@, h) { assert(x == set.idx() && y == d.idx()); assert(ds[i] == d); }
                                } else if live_a(b.annotations@, h) {
                                    let j = choose|j: int| 0 <= j < vx_data@.take(i).len() && vx_data@.take(i)[j].idx() == y; assert(ds[j].idx() == y);
                                } else { lemma_done_stable(b.annotations@, c.annotations@, h, set, d); }
                            }
                            assert forall|x: int, y: int, h: AnnotationHandle| o.data_annotation_metamap.cell(x, y).contains(h) implies #[trigger] c.data_annotation_metamap.cell(x, y).contains(h) || !live_a(c.annotations@, h) by {
                                if !b.data_annotation_metamap.cell(x, y).contains(h) { lemma_done_stable(b.annotations@, c.annotations@, h, set, d); }
                            }
                            assert forall|x: int, y: int, h: AnnotationHandle| o.key_annotation_metamap.cell(x, y).contains(h) implies #[trigger] c.key_annotation_metamap.cell(x, y).contains(h) || !live_a(c.annotations@, h) by {
                                if !b.key_annotation_metamap.cell(x, y).contains(h) { lemma_done_stable(b.annotations@, c.annotations@, h, set, d); }
                            }
                        }
                    }'''

KEY_L2_END = '''proof {
                        let i = vx_it.index@ as int;
                        lemma_key_kept_trans(*old(self), vx_pre_store, *self);
                        lemma_mono_trans(old(self).annotations@, vx_pre_store.annotations@, self.annotations@);
                        lemma_shrinks_is_mono(vx_pre_store.annotations@, self.annotations@);
                        lemma_mono_trans(vx_mid.annotations@, vx_pre_store.annotations@, self.annotations@);
                        assert forall|j: int| 0 <= j < i + 1 implies !live_a(self.annotations@, #[trigger] vx_list2@[j]) by {
                            if j < i { lemma_done_stable(vx_pre_store.annotations@, self.annotations@, vx_list2@[j], set, AnnotationDataHandle(0)); }
                        }
                    }'''

KEY_FINAL = '''proof {
            let o = *old(self); let x = set.idx() as int; let y = key.idx() as int;
            assert forall|k: int| 0 <= k < o.key_annotation_metamap.cell(x, y).len() implies !live_a(self.annotations@, #[trigger] o.key_annotation_metamap.cell(x, y)[k]) by {
                let h = o.key_annotation_metamap.cell(x, y)[k];
                assert(o.key_annotation_metamap.cell(x, y).contains(h));
                if vx_mid.key_annotation_metamap.cell(x, y).contains(h) {
                    assert(vx_l2 =~= vx_mid.key_annotation_metamap.cell(x, y));
                    let q = choose|q: int| 0 <= q < vx_l2.len() && vx_l2[q] == h;
                    assert(!live_a(self.annotations@, vx_l2[q]));
                } else {
                    lemma_done_stable(vx_mid.annotations@, self.annotations@, h, set, AnnotationDataHandle(0));
                }
            }
        }'''


def build():
    u = Unit('u_cascade3', serves=['C02'])
    u.use('use std::marker::PhantomData;')
    u.use('use std::collections::BTreeMap;')
    common.target64(u)
    common.std_specs(u)
    common.handle_trait(u, P)
    for h in ('AnnotationHandle', 'AnnotationDataSetHandle', 'AnnotationDataHandle'):
        common.handle_impl(u, h, P)
    common.handle_impl(u, 'DataKeyHandle', P)
    u.trusted_text(u_map.VX_POSITION, 'external_body vx_position: std Iterator::position semantics + structural == on handles (R-outline)')
    u_map.emit_relationmap(u, P, with_canary=False, pushed=True)
    u_map.emit_other_maps(u, P, pushed=True)
    u.item('src/error.rs', 'enum', 'StamError', keep_variants=['HandleError', 'NotFoundError'], keep_derives=['Debug'],
           rewrites=[('R-field', r'NotFoundError\(Type, &\'static str\)', "NotFoundError(&'static str)")])
    u.item('src/store.rs', 'type', 'Store')
    u.item(AS, 'struct', 'AnnotationStore', keep_fields=['annotations', 'dataset_data_annotation_map', 'data_annotation_metamap', 'key_annotation_metamap'], keep_derives=[])
    u.trusted_text(STUBS, 'external_body: recursive removal of one annotation (assumed), has(), get_mut on annotations, Annotation::remove_data (u_ann), removal of the data item from its dataset (u_store/u_dataset), Vec::clone')
    O, N = 'old(self)', 'final(self)'
    CELL = f'{O}.dataset_data_annotation_map.cell(set.idx() as int, data.idx() as int)'
    MCELL = f'{O}.data_annotation_metamap.cell(set.idx() as int, data.idx() as int)'
    u.impl(AS, 'impl AnnotationStore', [
        Fn('remove_data', props=P, ret='r',
           sig_rewrites=[('R-request', r'set: impl Request<AnnotationDataSet>,\s*data: impl Request<AnnotationData>,', 'set: AnnotationDataSetHandle, data: AnnotationDataHandle,')],
           rewrites=[('R-request', r'set\.to_handle\(self\)', 'Some(set)'),
                     ('R-request', r'data\.to_handle\(self\.get\(set_handle\)\?\)', 'self.vx_data_in_set(set_handle, data)?'),
                     ('R-request', r'<AnnotationStore as StoreFor<Annotation>>::has\(self, a_handle\)', 'self.vx_has_annotation(a_handle)'),
                     ('R-request', r'<AnnotationStore as StoreFor<Annotation>>::remove\(self, a_handle\)', 'self.vx_remove_annotation(a_handle)'),
                     ('R-request', r'self\.get_mut\(a_handle\)\?', 'self.vx_annotation_mut(a_handle)?'),
                     ('R-outline', r'annotation\.raw_data\(\)\.len\(\)', 'annotation.vx_data_len()'),
                     ('R-request', r'(?s)let set = self\.get_mut\(set_handle\)\?;\s*<AnnotationDataSet as StoreFor<AnnotationData>>::remove\(set, data_handle\)\?;', 'self.vx_remove_data_from_set(set_handle, data_handle)?;\n'),
                     ('R-typeann', r'let mut delete: Vec<_> = Vec::new\(\);', 'let mut delete: Vec<(AnnotationDataSetHandle, AnnotationDataHandle, AnnotationHandle)> = Vec::new();'),
                     ('R-outline', r'(?s)if let Some\(annotations\) = self\s*\.dataset_data_annotation_map\s*\.get\(set_handle, data_handle\)\s*\{', 'if let Some(annotations) = self.dataset_data_annotation_map.get(set_handle, data_handle) { let vx_list1 = vx_clone_handles(annotations); proof { vx_l1 = vx_list1@; }'),
                     ('R-outline', r'(?s)if let Some\(annotations\) = self\.data_annotation_metamap\.get\(set_handle, data_handle\)\s*\{', 'if let Some(annotations) = self.data_annotation_metamap.get(set_handle, data_handle) { let vx_list2 = vx_clone_handles(annotations); proof { vx_l2 = vx_list2@; }'),
                     ('R-forname', r'(?s)for a_handle in annotations\.clone\(\) \{(\s*)delete\.push', r'for a_handle in vx_it: vx_list1 { let ghost vx_pre_store = *self;\1delete.push'),
                     ('R-forname', r'for a_handle in annotations\.clone\(\) \{', 'for a_handle in vx_it: vx_list2 { let ghost vx_pre_store = *self;'),
                     ('R-forname', r'for \(set_handle, data_handle, a_handle\) in delete \{', 'let ghost vx_end = *self; for (set_handle, data_handle, a_handle) in vx_it: delete {')],
           prologue='let ghost mut vx_l1: Seq<AnnotationHandle> = Seq::empty(); let ghost mut vx_l2: Seq<AnnotationHandle> = Seq::empty(); proof { lemma_refl(*self); }',
           before=[(r're:if let Some\(annotations\) = self\.data_annotation_metamap', 'let ghost vx_mid = *self;'),
                   (r're:self\.data_annotation_metamap\s*\.remove_\w+\(', FINAL, None, 'cascade')],
           loops={r'vx_it: vx_list1': dict(invariant=[
                      ('args', 'set_handle == set && data_handle == data'),
                      ('strips', 'mono(old(self).annotations@, self.annotations@)'),
                      ('kept', 'kept_or_dead(*old(self), *self)'),
                      ('done_so_far', 'forall|j: int| 0 <= j < vx_it.index@ ==> done(self.annotations@, #[trigger] vx_list1@[j], set, data) && (strict ==> !live_a(self.annotations@, vx_list1@[j]))'),
                      ('delete_list', 'forall|j: int| 0 <= j < delete@.len() ==> (#[trigger] delete@[j]).0 == set && delete@[j].1 == data'),
                  ], at_end=L1_END, at_end_label='cascade'),
                  r'vx_it: vx_list2': dict(invariant=[
                      ('args', 'set_handle == set && data_handle == data'),
                      ('strips', 'mono(old(self).annotations@, self.annotations@)'),
                      ('since_mid', 'mono(vx_mid.annotations@, self.annotations@)'),
                      ('kept', 'kept_or_dead(*old(self), *self)'),
                      ('gone_so_far', 'forall|j: int| 0 <= j < vx_it.index@ ==> !live_a(self.annotations@, #[trigger] vx_list2@[j])'),
                  ], at_end=L2_END, at_end_label='cascade'),
                  r'vx_it: delete': dict(invariant=[
                      ('frame', 'self.annotations@ == vx_end.annotations@ && self.data_annotation_metamap == vx_end.data_annotation_metamap && self.key_annotation_metamap == vx_end.key_annotation_metamap'),
                      ('delete_list', 'forall|j: int| 0 <= j < delete@.len() ==> (#[trigger] delete@[j]).0 == set && delete@[j].1 == data'),
                      ('other_cells', 'forall|x: int, y: int| !(x == set.idx() && y == data.idx()) ==> #[trigger] self.dataset_data_annotation_map.cell(x, y) == vx_end.dataset_data_annotation_map.cell(x, y)'),
                  ])},
           ensures=[('nothing_created', f'mono({O}.annotations@, {N}.annotations@)'),
                    ('users_done', f'r is Ok ==> forall|k: int| 0 <= k < {CELL}.len() ==> done({N}.annotations@, #[trigger] {CELL}[k], set, data)'),
                    ('strict_users_gone', f'r is Ok && strict ==> forall|k: int| 0 <= k < {CELL}.len() ==> !live_a({N}.annotations@, #[trigger] {CELL}[k])'),
                    ('metadata_annotations_gone', f'r is Ok ==> forall|k: int| 0 <= k < {MCELL}.len() ==> !live_a({N}.annotations@, #[trigger] {MCELL}[k])'),
                    ('metadata_row_cleared', f'r is Ok ==> {N}.data_annotation_metamap.cell(set.idx() as int, data.idx() as int).len() == 0'),
                    ('entries_kept', f'kept_except(*{O}, *{N}, set, data)')]),
    ])
    KCELL = f'{O}.key_annotation_metamap.cell(set.idx() as int, key.idx() as int)'
    u.impl(AS, 'impl AnnotationStore', [
        Fn('remove_key', props=P, ret='r',
           sig_rewrites=[('R-request', r'set: impl Request<AnnotationDataSet>,\s*key: impl Request<DataKey>,', 'set: AnnotationDataSetHandle, key: DataKeyHandle,')],
           rewrites=[('R-request', r'set\.to_handle\(self\)', 'Some(set)'),
                     ('R-request', r'key\.to_handle\(self\.get\(set_handle\)\?\)', 'self.vx_key_in_set(set_handle, key)?'),
                     ('R-request', r'(?s)let set = self\.get\(set_handle\)\?;\s*if let Some\(data\) = set\.data_by_key\(key_handle\) \{\s*for data_handle in data\.clone\(\) \{',
                      'if let Some(vx_data) = self.vx_data_of_key(set_handle, key_handle)? {\n proof { vx_l1 = vx_data@; }\n for data_handle in vx_it: vx_data { let ghost vx_pre_store = *self;'),
                     ('R-request', r'(?s)let set = self\.get_mut\(set_handle\)\?;\s*<AnnotationDataSet as StoreFor<DataKey>>::remove\(set, key_handle\)\?;', 'self.vx_remove_key_from_set(set_handle, key_handle)?;\n'),
                     ('R-request', r'<AnnotationStore as StoreFor<Annotation>>::has\(self, a_handle\)', 'self.vx_has_annotation(a_handle)'),
                     ('R-request', r'<AnnotationStore as StoreFor<Annotation>>::remove\(self, a_handle\)', 'self.vx_remove_annotation(a_handle)'),
                     ('R-outline', r'(?s)if let Some\(annotations\) = self\.key_annotation_metamap\.get\(set_handle, key_handle\) \{', 'if let Some(annotations) = self.key_annotation_metamap.get(set_handle, key_handle) { let vx_list2 = vx_clone_handles(annotations); proof { vx_l2 = vx_list2@; }'),
                     ('R-forname', r'for a_handle in annotations\.clone\(\) \{', 'for a_handle in vx_it: vx_list2 { let ghost vx_pre_store = *self;')],
           prologue='let ghost mut vx_l1: Seq<AnnotationDataHandle> = Seq::empty(); let ghost mut vx_l2: Seq<AnnotationHandle> = Seq::empty(); proof { lemma_refl(*self); }',
           before=[(r're:if let Some\(annotations\) = self\.key_annotation_metamap', 'let ghost vx_mid = *self;'),
                   (r're:self\.key_annotation_metamap\s*\.remove_\w+\(', KEY_FINAL, None, 'cascade')],
           loops={r'vx_it: vx_data': dict(invariant=[
                      ('args', 'set_handle == set && key_handle == key'),
                      ('mono', 'mono(old(self).annotations@, self.annotations@)'),
                      ('kept', 'kept_except_list(*old(self), *self, set, vx_data@.take(vx_it.index@ as int))'),
                  ], at_end=KEY_L1_END, at_end_label='cascade'),
                  r'vx_it: vx_list2': dict(invariant=[
                      ('args', 'set_handle == set && key_handle == key'),
                      ('mono', 'mono(old(self).annotations@, self.annotations@)'),
                      ('since_mid', 'mono(vx_mid.annotations@, self.annotations@)'),
                      ('gone_so_far', 'forall|j: int| 0 <= j < vx_it.index@ ==> !live_a(self.annotations@, #[trigger] vx_list2@[j])'),
                      ('key_kept', 'key_kept(*old(self), *self)'),
                  ], at_end=KEY_L2_END, at_end_label='cascade')},
           ensures=[('nothing_created', f'mono({O}.annotations@, {N}.annotations@)'),
                    ('key_annotations_gone', f'r is Ok ==> forall|k: int| 0 <= k < {KCELL}.len() ==> !live_a({N}.annotations@, #[trigger] {KCELL}[k])'),
                    ('key_row_cleared', f'r is Ok ==> {N}.key_annotation_metamap.cell(set.idx() as int, key.idx() as int).len() == 0'),
                    # frame: no other cell of the key index loses a live annotation (the rows of the other keys of the set stay)
                    ('other_key_rows_kept', f'key_kept(*{O}, *{N})')]),
    ])
    return u

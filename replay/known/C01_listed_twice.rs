// known finding K5 (C01), recorded, not repaired: copy to /repo/tests/ and run it with cargo test; it fails on the unchanged tree.
// Reverse lookups must list every live annotation exactly once ("none missing, none extra,
// none twice"), also when that annotation refers to the item more than once.
use stam::*;

fn base() -> AnnotationStore {
    let mut store = AnnotationStore::default()
        .with_id("test")
        .with_resource(
            TextResourceBuilder::new()
                .with_id("r")
                .with_text("Hello wonderful world"),
        )
        .unwrap()
        .with_dataset(AnnotationDataSetBuilder::new().with_id("s"))
        .unwrap();
    store
        .annotate(
            AnnotationBuilder::new()
                .with_id("A0")
                .with_target(SelectorBuilder::textselector("r", Offset::simple(0, 5)))
                .with_data_with_id("s", "k", "v", "D0"),
        )
        .unwrap();
    store
}

fn handles<'a>(iter: impl Iterator<Item = ResultItem<'a, Annotation>>) -> Vec<String> {
    iter.map(|a| a.id().unwrap().to_string()).collect()
}

#[test]
fn same_data_twice() {
    let mut store = base();
    // two data builders that resolve to one and the same AnnotationData (key k2, value x)
    store
        .annotate(
            AnnotationBuilder::new()
                .with_id("B")
                .with_target(SelectorBuilder::textselector("r", Offset::simple(6, 15)))
                .with_data("s", "k2", "x")
                .with_data("s", "k2", "x"),
        )
        .unwrap();
    let key = store.key("s", "k2").unwrap();
    let data = key.data().next().unwrap();
    assert_eq!(
        handles(data.annotations()),
        vec!["B".to_string()],
        "data.annotations() must list annotation B exactly once"
    );
    assert_eq!(data.annotations_len(), 1, "data.annotations_len() must count B once");
}

#[test]
fn same_text_twice_in_a_complex_selector() {
    let mut store = base();
    store
        .annotate(
            AnnotationBuilder::new()
                .with_id("B")
                .with_target(SelectorBuilder::multiselector([
                    SelectorBuilder::textselector("r", Offset::simple(6, 15)),
                    SelectorBuilder::textselector("r", Offset::simple(6, 15)),
                ]))
                .with_data("s", "k", "b"),
        )
        .unwrap();
    let resource = store.resource("r").unwrap();
    let textselection = resource.textselection(&Offset::simple(6, 15)).unwrap();
    assert_eq!(
        handles(textselection.annotations()),
        vec!["B".to_string()],
        "textselection.annotations() must list annotation B exactly once"
    );
    assert_eq!(
        textselection.annotations_len(),
        1,
        "textselection.annotations_len() must count B once"
    );
}

#[test]
fn same_targets_twice_in_a_complex_selector() {
    let mut store = base();
    store
        .annotate(
            AnnotationBuilder::new()
                .with_id("B")
                .with_target(SelectorBuilder::multiselector([
                    SelectorBuilder::annotationselector("A0", None),
                    SelectorBuilder::annotationselector("A0", None),
                    SelectorBuilder::resourceselector("r"),
                    SelectorBuilder::resourceselector("r"),
                    SelectorBuilder::datasetselector("s"),
                    SelectorBuilder::datasetselector("s"),
                    SelectorBuilder::datakeyselector("s", "k"),
                    SelectorBuilder::datakeyselector("s", "k"),
                    SelectorBuilder::annotationdataselector("s", "D0"),
                    SelectorBuilder::annotationdataselector("s", "D0"),
                ]))
                .with_data("s", "k", "b"),
        )
        .unwrap();
    let expected = vec!["B".to_string()];
    // documented: "Results will be in chronological order and without duplicates"
    assert_eq!(
        handles(store.annotation("A0").unwrap().annotations()),
        expected,
        "annotation.annotations() must list B exactly once"
    );
    assert_eq!(
        handles(store.resource("r").unwrap().annotations_as_metadata()),
        expected,
        "resource.annotations_as_metadata() must list B exactly once"
    );
    assert_eq!(
        handles(store.dataset("s").unwrap().annotations()),
        expected,
        "dataset.annotations() must list B exactly once"
    );
    assert_eq!(
        handles(store.key("s", "k").unwrap().annotations_as_metadata()),
        expected,
        "key.annotations_as_metadata() must list B exactly once"
    );
    assert_eq!(
        handles(
            store
                .annotationdata("s", "D0")
                .unwrap()
                .annotations_as_metadata()
        ),
        expected,
        "data.annotations_as_metadata() must list B exactly once"
    );
    // documented: "This returns no duplicates even if a dataset is referenced multiple times."
    let sets: Vec<_> = store
        .annotation("B")
        .unwrap()
        .datasets()
        .map(|s| s.id().unwrap().to_string())
        .collect();
    assert_eq!(
        sets,
        vec!["s".to_string()],
        "annotation.datasets() must list dataset s exactly once"
    );

    // and nothing is left behind when B goes
    store.remove_annotation("B").unwrap();
    assert!(handles(store.annotation("A0").unwrap().annotations()).is_empty());
    assert!(handles(store.resource("r").unwrap().annotations_as_metadata()).is_empty());
    assert!(handles(store.dataset("s").unwrap().annotations()).is_empty());
    assert!(handles(store.key("s", "k").unwrap().annotations_as_metadata()).is_empty());
}

// K7 (C13): replay of the known finding - copy to /repo/tests/ and run with cargo test; it fails on the current tree.
// EQUALS between a text selection (or a set) and a set is not the documented relation and not symmetric.
//
// Documentation of TextSelectionOperator::Equals (src/textselection.rs):
//   "Both sets cover the exact same TextSelections, and all are covered, commutative, transitive"
use stam::*;

fn store() -> Result<AnnotationStore, StamError> {
    AnnotationStore::default().with_id("s").with_resource(
        TextResourceBuilder::new()
            .with_id("r")
            .with_text("0123456789"),
    )
}

fn ts<'a>(store: &'a AnnotationStore, begin: usize, end: usize) -> ResultTextSelection<'a> {
    store
        .resource("r")
        .unwrap()
        .textselection(&Offset::simple(begin, end))
        .unwrap()
}

fn set<'a>(store: &'a AnnotationStore, ranges: &[(usize, usize)]) -> ResultTextSelectionSet<'a> {
    ranges.iter().map(|(b, e)| ts(store, *b, *e)).collect()
}

#[test]
fn single_equals_set_with_an_extra_member() -> Result<(), StamError> {
    let store = store()?;
    let a = ts(&store, 0, 1);
    let a_as_set = set(&store, &[(0, 1)]);
    let b = set(&store, &[(0, 1), (0, 2)]);
    let equals = TextSelectionOperator::equals();

    // the set form gets it right: {[0,1)} is not equal to {[0,1),[0,2)}
    assert!(!a_as_set.test_set(&equals, &b));
    // and so does the reverse direction
    assert!(!b.test(&equals, &a), "B EQUALS [0,1) does not hold");

    assert_eq!(
        a.test_set(&equals, &b),
        a_as_set.test_set(&equals, &b),
        "a text selection and the singleton set of it must test the same against B={{[0,1),[0,2)}}"
    );
    assert!(
        !a.test_set(&equals, &b),
        "[0,1) EQUALS {{[0,1),[0,2)}} must not hold: [0,2) is not covered (and the reverse test, B EQUALS [0,1), is false; equals is symmetric)"
    );
    assert!(
        a.test_set(&equals.toggle_negate(), &b),
        "NOT EQUALS must be the complement: [0,1) differs from {{[0,1),[0,2)}}"
    );
    Ok(())
}

#[test]
fn set_equals_is_symmetric() -> Result<(), StamError> {
    let store = store()?;
    // the same range listed twice (as happens e.g. when a selector names the same text twice)
    let a = set(&store, &[(0, 1), (0, 1)]);
    let b = set(&store, &[(0, 1), (2, 3)]);
    let equals = TextSelectionOperator::equals();
    assert!(!b.test_set(&equals, &a), "[2,3) of B is not in A");
    assert_eq!(
        a.test_set(&equals, &b),
        b.test_set(&equals, &a),
        "EQUALS must be symmetric: A={{[0,1),[0,1)}}, B={{[0,1),[2,3)}}"
    );
    Ok(())
}

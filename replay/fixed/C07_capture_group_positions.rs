// replay of the defect repaired by /repo commit 79349dd (C07): copy to /repo/tests/ and run it with cargo test; it fails on the parent commit.
// find_text_regex() with several expressions: results must come in the order in which they occur in the text,
// and an expression must behave the same with and without a capture group around it.
use stam::*;

fn store(text: &str) -> AnnotationStore {
    let mut store = AnnotationStore::default();
    store
        .add_resource(TextResourceBuilder::new().with_id("r").with_text(text))
        .unwrap();
    store
}

fn matches(
    resource: &ResultItem<TextResource>,
    expressions: &[Regex],
    allow_overlap: bool,
) -> Vec<Vec<(usize, usize)>> {
    resource
        .find_text_regex(expressions, None, allow_overlap)
        .expect("valid expressions")
        .map(|m| {
            m.textselections()
                .iter()
                .map(|t| (t.begin(), t.end()))
                .collect()
        })
        .collect()
}

#[test]
fn results_with_capture_groups_are_out_of_order() {
    let store = store("a m z q");
    let resource = store.resource("r").unwrap();
    let expressions = [Regex::new("(a) m (z)").unwrap(), Regex::new("m").unwrap()];
    let result = matches(&resource, &expressions, true);
    assert_eq!(
        result,
        vec![vec![(0, 1), (4, 5)], vec![(2, 3)]],
        "expected the match that starts at 0 (groups a@0..1, z@4..5) before the match m@2..3: results must be in text order"
    );
}

#[test]
fn capture_group_changes_overlap_handling() {
    let store = store("abc");
    let resource = store.resource("r").unwrap();
    let plain = [Regex::new("abc").unwrap(), Regex::new("bc").unwrap()];
    let grouped = [Regex::new("(abc)").unwrap(), Regex::new("bc").unwrap()];
    // without capture group: bc (1..3) lies inside abc (0..3) and is dropped as allow_overlap is false
    assert_eq!(matches(&resource, &plain, false), vec![vec![(0, 3)]]);
    assert_eq!(
        matches(&resource, &grouped, false),
        vec![vec![(0, 3)]],
        "expected the same result for (abc) as for abc: with allow_overlap=false the overlapping match bc@1..3 must not be returned"
    );
}

// K7 (C13): replay of the known finding - copy to /repo/tests/ and run with cargo test; it fails on the current tree.
// A negated relation must be the exact complement of the relation, also when the set on the
// left-hand side is empty; and the complement of a symmetric relation is symmetric.
use stam::*;

#[test]
fn negation_is_the_complement_for_an_empty_set() {
    let mut store = AnnotationStore::default()
        .with_id("s")
        .with_resource(
            TextResourceBuilder::new()
                .with_id("r")
                .with_text("hello world"),
        )
        .unwrap();
    store
        .annotate(
            AnnotationBuilder::new()
                .with_id("X")
                .with_target(SelectorBuilder::textselector("r", Offset::simple(0, 5)))
                .with_data("set", "k", "v"),
        )
        .unwrap();
    let r = store.resource("r").unwrap();
    let x = r.textselection(&Offset::simple(0, 5)).unwrap();
    let xset = store.annotation("X").unwrap().textselectionset().unwrap();
    let empty = TextSelectionSet::new(r.handle()).as_resultset(&store);
    assert_eq!(empty.len(), 0);

    for op in [
        TextSelectionOperator::equals(),
        TextSelectionOperator::overlaps(),
        TextSelectionOperator::embeds(),
        TextSelectionOperator::embedded(),
        TextSelectionOperator::before(),
        TextSelectionOperator::after(),
        TextSelectionOperator::precedes(),
        TextSelectionOperator::succeeds(),
        TextSelectionOperator::samebegin(),
        TextSelectionOperator::sameend(),
        TextSelectionOperator::samerange(),
        TextSelectionOperator::inset(),
    ] {
        let neg = op.toggle_negate();
        // an empty set on the right-hand side: fine, relation false, negation true
        assert!(!x.test_set(&op, &empty));
        assert!(x.test_set(&neg, &empty));
        assert!(!xset.test_set(&op, &empty));
        assert!(xset.test_set(&neg, &empty));

        // an empty set on the left-hand side
        assert!(!empty.test(&op, &x));
        assert!(
            empty.test(&neg, &x),
            "{:?}: the relation does not hold for ({{}}, 0..5), so its negation must hold",
            neg
        );
        assert!(!empty.test_set(&op, &xset));
        assert!(
            empty.test_set(&neg, &xset),
            "{:?}: the relation does not hold for ({{}}, {{0..5}}), so its negation must hold",
            neg
        );
    }
    // NOT EQUALS / NOT OVERLAPS are symmetric like EQUALS / OVERLAPS
    for op in [
        TextSelectionOperator::equals().toggle_negate(),
        TextSelectionOperator::overlaps().toggle_negate(),
    ] {
        assert_eq!(
            xset.test_set(&op, &empty),
            empty.test_set(&op, &xset),
            "{:?} must be symmetric",
            op
        );
    }
}

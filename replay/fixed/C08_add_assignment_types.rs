// replay of the defect repaired by /repo commit 788c7ec (C08): copy to /repo/tests/ and run it with cargo test; it fails on the parent commit.
// STAMQL ADD: the value of a DATA assignment is not converted according to its literal type.
// An integer literal is stored as a *string* (DataValue::try_from(&str) is the infallible String conversion),
// and null, a datetime or a quoted string that contains a pipe panic with "entered unreachable code".
use stam::*;

fn store() -> AnnotationStore {
    AnnotationStore::default()
        .with_id("s")
        .with_resource(
            TextResourceBuilder::new()
                .with_id("r")
                .with_text("Hello world"),
        )
        .unwrap()
}

/// runs   ADD ANNOTATION ?a WITH DATA "A" "k" <literal>; TARGET ...   and returns the value of the data of the new annotation
fn add(store: &mut AnnotationStore, literal: &str) -> DataValue {
    let qs = format!(
        "ADD ANNOTATION ?a WITH DATA \"A\" \"k\" {literal}; TARGET ?t; {{ SELECT TEXT ?t WHERE RESOURCE \"r\" OFFSET 0 5; }}"
    );
    let query: Query = qs.as_str().try_into().expect("query must parse");
    let mut value = None;
    for results in store.query_mut(query).expect("query must run") {
        if let Ok(QueryResultItem::Annotation(a)) = results.get_by_name("a") {
            value = a.data().next().map(|d| d.value().clone());
        }
    }
    value.expect("the new annotation has data")
}

#[test]
fn add_integer_literal_stores_an_integer() {
    let mut store = store();
    let value = add(&mut store, "5");
    assert_eq!(
        value,
        DataValue::Int(5),
        "ADD ... DATA \"A\" \"k\" 5 (unquoted integer literal) must store Int(5)"
    );
    // consequences for the vocabulary and for lookups:
    // the same (key,value) added through the builder API must be the very same data item
    store
        .annotate(
            AnnotationBuilder::new()
                .with_target(SelectorBuilder::textselector("r", Offset::simple(6, 11)))
                .with_data("A", "k", 5),
        )
        .unwrap();
    assert_eq!(
        store.dataset("A").unwrap().data().count(),
        1,
        "k=5 added by STAMQL and k=5 added by the builder are one data item"
    );
    // and the value must be found by the numeric tests, also from STAMQL itself
    assert_eq!(
        store
            .find_data("A", "k", DataOperator::GreaterThan(3))
            .count(),
        1,
        "the data added with the literal 5 is found by the numeric test > 3"
    );
    let query: Query = "SELECT DATA ?d WHERE DATA \"A\" \"k\" = 5;".try_into().unwrap();
    assert_eq!(
        store.query(query).unwrap().count(),
        1,
        "the data added with ADD ... 5 is found by SELECT ... = 5"
    );
}

#[test]
fn add_null_literal() {
    let mut store = store();
    // panics: entered unreachable code: argtype should not occur
    assert_eq!(
        add(&mut store, "null"),
        DataValue::Null,
        "ADD ... DATA \"A\" \"k\" null must store the null value"
    );
}

#[test]
fn add_quoted_string_with_pipe() {
    let mut store = store();
    // panics: entered unreachable code: argtype should not occur
    assert_eq!(
        add(&mut store, "\"a|b\""),
        DataValue::String("a|b".to_string()),
        "ADD ... DATA \"A\" \"k\" \"a|b\" must store the string a|b"
    );
}

#[test]
fn add_datetime_literal() {
    let mut store = store();
    // panics: entered unreachable code: argtype should not occur
    assert_eq!(
        add(&mut store, "2024-01-01T00:00:00+00:00"),
        DataValue::Datetime(DateTime::parse_from_rfc3339("2024-01-01T00:00:00+00:00").unwrap()),
        "ADD ... DATA \"A\" \"k\" 2024-01-01T00:00:00+00:00 must store the datetime"
    );
}

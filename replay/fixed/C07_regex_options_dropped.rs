// replay of the defect repaired by /repo commit f87f261 (C07): copy to /repo/tests/ and run it with cargo test; it fails on the parent commit.
// find_text_regex() must return, for every expression, exactly what `expression.find_iter(text)` yields
// on the plain string - no matter how many other expressions are passed along with it.
use stam::*;

fn store(text: &str) -> AnnotationStore {
    let mut store = AnnotationStore::default();
    store
        .add_resource(TextResourceBuilder::new().with_id("r").with_text(text))
        .unwrap();
    store
}

fn matches(
    resource: &ResultItem<TextResource>,
    expressions: &[Regex],
) -> Vec<(usize, usize, usize, String)> {
    resource
        .find_text_regex(expressions, None, true)
        .expect("valid expressions")
        .map(|m| {
            let ts = &m.textselections()[0];
            (
                m.expression_index(),
                ts.begin(),
                ts.end(),
                ts.text().to_string(),
            )
        })
        .collect()
}

#[test]
fn regex_built_with_options_is_lost_with_three_expressions() {
    let text = "xx ABC yy";
    let store = store(text);
    let resource = store.resource("r").unwrap();

    // a perfectly valid Regex, compiled with an option rather than with an inline (?i) flag
    let abc = regex::RegexBuilder::new("abc")
        .case_insensitive(true)
        .build()
        .unwrap();
    assert_eq!(
        abc.find(text).map(|m| (m.start(), m.end())),
        Some((3, 6)),
        "the plain regex search finds ABC"
    );

    let one = [abc.clone()];
    let two = [abc.clone(), Regex::new("qq").unwrap()];
    let three = [
        abc.clone(),
        Regex::new("qq").unwrap(),
        Regex::new("zz").unwrap(),
    ];
    let expected = vec![(0usize, 3usize, 6usize, "ABC".to_string())];

    assert_eq!(matches(&resource, &one), expected, "one expression");
    assert_eq!(matches(&resource, &two), expected, "two expressions");
    assert_eq!(
        matches(&resource, &three),
        expected,
        "expected the match ABC at 3..6 also when three expressions are passed (adding expressions that match nothing must not remove results)"
    );
}

#[test]
fn multi_line_option_in_subselection() {
    let text = "é\nfoo\nbar\nfoo";
    let store = store(text);
    let resource = store.resource("r").unwrap();
    let sub = resource.textselection(&Offset::simple(2, 13)).unwrap();
    let foo = regex::RegexBuilder::new("^foo$")
        .multi_line(true)
        .build()
        .unwrap();
    let expressions = [
        Regex::new("nothing").unwrap(),
        foo.clone(),
        Regex::new("zz").unwrap(),
    ];
    let expected: Vec<(usize, usize)> = foo
        .find_iter(sub.text())
        .map(|m| {
            let begin = sub.text()[..m.start()].chars().count() + 2;
            (begin, begin + m.as_str().chars().count())
        })
        .collect();
    assert_eq!(expected, vec![(2, 5), (10, 13)]);
    let result: Vec<(usize, usize)> = sub
        .find_text_regex(&expressions, None, true)
        .unwrap()
        .map(|m| (m.textselections()[0].begin(), m.textselections()[0].end()))
        .collect();
    assert_eq!(
        result, expected,
        "expected both lines 'foo' of the sub-selection, as the plain multi-line regex yields"
    );
}

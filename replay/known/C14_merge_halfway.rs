// K1 (C14), loading form: replay of the known finding - copy to /repo/tests/ and run with cargo test; it fails on the current tree.
// merge_json_str() / merge_json_file() stream straight into the live store (or dataset).
// When the input turns out to be invalid half-way, the call returns an error but everything
// that was read before the mistake has already been added and stays.
use stam::*;

fn base() -> AnnotationStore {
    AnnotationStore::default()
        .with_id("s")
        .with_resource(
            TextResourceBuilder::new()
                .with_id("r1")
                .with_text("hello world"),
        )
        .unwrap()
        .with_dataset(
            AnnotationDataSetBuilder::new()
                .with_id("set1")
                .with_key_value_id("k1", "v1", "d1"),
        )
        .unwrap()
}

fn keys(store: &AnnotationStore, set: &str) -> Vec<String> {
    store
        .dataset(set)
        .unwrap()
        .keys()
        .map(|k| k.as_str().to_string())
        .collect()
}

#[test]
fn failed_store_merge_keeps_everything_before_the_mistake() {
    let mut store = base();
    // valid resource r2, valid new dataset set2, valid addition to the existing set1, one valid
    // annotation a1, and then an annotation a2 on a resource that does not exist
    let r = store.merge_json_str(
        r#"{ "@type": "AnnotationStore",
             "resources": [ { "@type": "TextResource", "@id": "r2", "text": "second" } ],
             "annotationsets": [
                { "@type": "AnnotationDataSet", "@id": "set2", "keys": [ { "@type": "DataKey", "@id": "kk" } ] },
                { "@type": "AnnotationDataSet", "@id": "set1", "keys": [ { "@type": "DataKey", "@id": "k1" }, { "@type": "DataKey", "@id": "k2" } ] }
             ],
             "annotations": [
                { "@type": "Annotation", "@id": "a1",
                  "target": { "@type": "TextSelector", "resource": "r1", "offset": { "begin": { "@type": "BeginAlignedCursor", "value": 0 }, "end": { "@type": "BeginAlignedCursor", "value": 5 } } },
                  "data": [ { "@type": "AnnotationData", "@id": "d2", "set": "set1", "key": "k1", "value": { "@type": "String", "value": "v2" } } ] },
                { "@type": "Annotation", "@id": "a2",
                  "target": { "@type": "ResourceSelector", "resource": "nonexistent" }, "data": [] }
             ] }"#,
    );
    assert!(r.is_err(), "the merge must fail: a2 targets an unknown resource");

    assert_eq!(store.resources().count(), 1, "a FAILED merge must not add a resource");
    assert!(store.resource("r2").is_none(), "a FAILED merge must not add resource r2");
    assert_eq!(store.datasets().count(), 1, "a FAILED merge must not add a dataset");
    assert!(store.dataset("set2").is_none(), "a FAILED merge must not add dataset set2");
    assert_eq!(
        keys(&store, "set1"),
        vec!["k1".to_string()],
        "a FAILED merge must not add key k2 to the existing dataset set1"
    );
    assert_eq!(store.annotations().count(), 0, "a FAILED merge must not add annotation a1");
    assert!(
        store.dataset("set1").unwrap().annotationdata("d2").is_none(),
        "a FAILED merge must not add data d2 to set1"
    );
    assert_eq!(
        store.resource("r1").unwrap().textselections().count(),
        0,
        "a FAILED merge must not leave a new text selection in r1"
    );
}

#[test]
fn failed_dataset_merge_keeps_keys_and_data_before_the_mistake() {
    let mut store = base();
    let set: &mut AnnotationDataSet = store.get_mut("set1").unwrap();
    // key k9 and data d9 are fine, the second data item has no key
    let r = set.merge_json_str(
        r#"{ "@type": "AnnotationDataSet",
             "keys": [ { "@type": "DataKey", "@id": "k9" } ],
             "data": [
                { "@type": "AnnotationData", "@id": "d9", "key": "k9", "value": { "@type": "String", "value": "x" } },
                { "@type": "AnnotationData", "@id": "d10" }
             ] }"#,
    );
    assert!(r.is_err(), "the merge must fail: d10 has no key");

    assert_eq!(
        keys(&store, "set1"),
        vec!["k1".to_string()],
        "a FAILED AnnotationDataSet::merge_json_str() must not add key k9"
    );
    let set = store.dataset("set1").unwrap();
    assert!(
        set.annotationdata("d9").is_none(),
        "a FAILED AnnotationDataSet::merge_json_str() must not add data d9"
    );
    assert_eq!(set.data().count(), 1, "set1 must still hold exactly one data item");
}

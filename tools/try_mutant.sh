#!/bin/bash
# usage: try_mutant.sh <seeded id> [props...]   applies seeded/<id>/patch.diff to /repo, runs the checks, restores /repo
ID=$1; shift
cd /repo || exit 2
[ -z "$(git status --porcelain -- src)" ] || { echo "/repo/src is dirty; refusing"; exit 2; }
git apply /verif/seeded/$ID/patch.diff || { echo "patch does not apply"; exit 2; }
cd /verif
export VX_EVIDENCE_DIR=$(mktemp -d /var/tmp/vx_mut_evidence.XXXXXX)
PROPS="$@"
[ -z "$PROPS" ] && PROPS=$(python3 -c "import json;print(json.load(open('/verif/seeded/$ID/meta.json'))['property'])")
for p in $PROPS; do ./check $p | grep -E "^(VIOLATION|OK|INFRA|KNOWN|UNDECIDED|  failed|  undecided)" ; echo "  -> exit $? (check $p, mutant $ID)"; done
rm -rf "$VX_EVIDENCE_DIR"
cd /repo && git checkout HEAD -- . && [ -z "$(git status --porcelain -- src)" ] && echo "repo restored"

#!/bin/bash
# regression matrix: every repaired defect (a "fixed:" line of known_findings.txt) is taken back in turn - the src part of its
# fix: commit is reverse-applied to /repo's working tree - and the check of its property is run (quick tier, then thorough when
# the quick tier is quiet).  Expected: a VIOLATION for every defect the machinery can see today; "quiet" rows are defects that
# only their replay file (replay/fixed/*.rs) reproduces.  /repo is restored after every row; nothing is committed.
# usage: tools/run_fix_reverts.sh [commit ...]     (default: all)
cd /verif
[ -n "$VX_NO_WITNESS" ] || export VX_TARGET_CACHE=/var/tmp/vx_target_cache
export VX_EVIDENCE_DIR=$(mktemp -d /var/tmp/vx_rev_evidence.XXXXXX)
rows=$(grep '^fixed:' known_findings.txt | sed 's/^fixed: property=\(C[0-9]*\) \([0-9a-f]*\) .*/\1 \2/')
[ $# -gt 0 ] && rows=$(echo "$rows" | grep -F -f <(printf '%s\n' "$@"))
echo "$rows" | while read p c; do
  [ -z "$c" ] && continue
  [ -z "$(git -C /repo status --porcelain -- src)" ] || { echo "/repo/src dirty"; exit 2; }
  subj=$(git -C /repo log -1 --format=%s $c | cut -c1-70)
  if ! git -C /repo diff $c^ $c -- src | git -C /repo apply -R 2>/dev/null; then
    echo "$c $p cannot-be-taken-back (later commits changed the same lines) :: $subj"; continue
  fi
  if ! (cd /repo && cargo build --offline -q 2>/dev/null); then
    echo "$c $p does-not-build-when-taken-back :: $subj"; git -C /repo checkout HEAD -- . ; continue
  fi
  tier=quick
  out=$(./check $p --tier quick 2>&1); rc=$?
  if [ $rc -ne 1 ]; then q=$rc; tier=thorough; out=$(./check $p --tier thorough 2>&1); rc=$?; [ $q -eq 2 ] && tier="thorough(quick:undecided)"; fi
  v=$(echo "$out" | grep -c "^VIOLATION")
  w=$(echo "$out" | grep "^VIOLATION" | grep -vc "no-failing-input-found")
  first=$(echo "$out" | grep "failed obligation\|^VIOLATION" | tail -1 | sed 's/  failed obligation: //' | cut -c1-120)
  case $rc in 0) res=quiet;; 1) res=VIOLATION;; *) res=undecided;; esac
  echo "$c $p $res tier=$tier violations=$v with_input=$w :: $subj :: $first"
  git -C /repo checkout HEAD -- .
done
rm -rf "$VX_EVIDENCE_DIR"

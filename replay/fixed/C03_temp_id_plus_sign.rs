// replay of the defect repaired by /repo commit 77f8675 (C03): copy to /repo/tests/ and run it with cargo test; it fails on the parent commit.
// "!A+0" is not a temporary identifier (the syntax is '!', a kind letter and a digit string) and it is
// nobody's public identifier either, yet every lookup resolves it to the item in slot 0.
use stam::*;

fn store() -> AnnotationStore {
    AnnotationStore::new(Config::default())
        .with_id("s")
        .with_resource(TextResourceBuilder::new().with_id("r0").with_text("Hello world"))
        .unwrap()
        .with_dataset(AnnotationDataSetBuilder::new().with_id("set0").with_key_value_id("k0", "v0", "d0"))
        .unwrap()
        .with_annotation(
            AnnotationBuilder::new()
                .with_id("a0")
                .with_target(SelectorBuilder::textselector("r0", Offset::simple(0, 5)))
                .with_existing_data("set0", "d0"),
        )
        .unwrap()
}

#[test]
fn signed_number_is_not_a_temporary_id() {
    let store = store();
    // sanity: the genuine temporary ids resolve, by position
    assert_eq!(store.annotation("!A0").and_then(|a| a.id()), Some("a0"));
    assert_eq!(store.resource("!R0").and_then(|r| r.id()), Some("r0"));

    // expected: None for all of these, no item carries such an identifier and it is no temporary id
    assert!(
        store.annotation("!A+0").is_none(),
        "annotation(\"!A+0\") must return None, no annotation has this identifier; got {:?}",
        store.annotation("!A+0").and_then(|a| a.id())
    );
    assert!(
        store.resource("!R+0").is_none(),
        "resource(\"!R+0\") must return None; got {:?}",
        store.resource("!R+0").and_then(|a| a.id())
    );
    assert!(
        store.dataset("!S+0").is_none(),
        "dataset(\"!S+0\") must return None; got {:?}",
        store.dataset("!S+0").and_then(|a| a.id())
    );
    assert!(
        store.key("set0", "!K+0").is_none(),
        "key(\"set0\", \"!K+0\") must return None; got {:?}",
        store.key("set0", "!K+0").and_then(|a| a.id())
    );
    assert!(
        store.annotationdata("set0", "!D+0").is_none(),
        "annotationdata(\"set0\", \"!D+0\") must return None; got {:?}",
        store.annotationdata("set0", "!D+0").and_then(|a| a.id())
    );
    assert!(
        store.resolve_annotation_id("!A+0").is_err(),
        "resolve_annotation_id(\"!A+0\") must fail"
    );
}

#[test]
fn signed_number_is_kept_as_public_id_by_the_loader() {
    // the JSON loader strips temporary ids; "!A+1" is not one, it has to be kept as the public identifier it is
    let json = r#"{"@type":"AnnotationStore","@id":"s",
        "resources":[{"@type":"TextResource","@id":"r0","text":"Hello world"}],
        "annotationsets":[],
        "annotations":[{"@type":"Annotation","@id":"!A+1",
            "target":{"@type":"ResourceSelector","resource":"r0"},"data":[]}]}"#;
    let store = AnnotationStore::from_json_str(json, Config::default()).unwrap();
    assert_eq!(
        store.annotations().count(),
        1,
        "one annotation was loaded"
    );
    let annotation = store.annotations().next().unwrap();
    assert_eq!(
        annotation.id(),
        Some("!A+1"),
        "the annotation must keep the public identifier \"!A+1\" it was given in the document"
    );
    assert_eq!(
        store.annotation("!A+1").map(|a| a.handle()),
        Some(annotation.handle()),
        "the identifier \"!A+1\" must resolve to the annotation that carries it"
    );
}

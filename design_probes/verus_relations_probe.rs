use vstd::prelude::*;
verus! {

#[derive(PartialEq, Eq, Debug, Clone, Copy)]
pub struct TextSelectionHandle(pub u32);

#[derive(PartialEq, Eq, Debug, Clone, Copy)]
pub struct TextSelection {
    pub intid: Option<TextSelectionHandle>,
    pub begin: usize,
    pub end: usize,
}

#[derive(Debug, Clone, Copy, PartialEq)]
pub enum Cursor {
    BeginAligned(usize),
    EndAligned(isize),
}

#[derive(Debug, Clone, Copy, PartialEq)]
pub enum TextSelectionOperator {
    Equals { all: bool, negate: bool },
    Overlaps { all: bool, negate: bool },
    Embeds { all: bool, negate: bool },
    Embedded { all: bool, negate: bool, limit: Option<usize> },
    Before { all: bool, negate: bool, limit: Option<usize> },
    SameRange { all: bool, negate: bool },
}

impl TextSelectionOperator {
    pub fn toggle_negate(&self) -> (r: Self)
 ensures negated(r) == !negated(*self),
    {
        match self {
            Self::Equals { all, negate } => Self::Equals {
                all: *all,
                negate: !negate,
            },
            Self::Overlaps { all, negate } => Self::Overlaps {
                all: *all,
                negate: !negate,
            },
            Self::Embeds { all, negate } => Self::Embeds {
                all: *all,
                negate: !negate,
            },
            Self::Embedded { all, negate, limit } => Self::Embedded {
                all: *all,
                negate: !negate,
                limit: *limit,
            },
            Self::Before { all, negate, limit } => Self::Before {
                all: *all,
                negate: !negate,
                limit: *limit,
            },
            Self::SameRange { all, negate } => Self::SameRange { all: *all, negate: !negate },
        }
    }
}

pub open spec fn wf(t: TextSelection) -> bool { t.begin <= t.end && t.end <= isize::MAX as usize }
pub open spec fn negated(op: TextSelectionOperator) -> bool {
    match op {
        TextSelectionOperator::Equals{negate,..} => negate,
        TextSelectionOperator::Overlaps{negate,..} => negate,
        TextSelectionOperator::Embeds{negate,..} => negate,
        TextSelectionOperator::Embedded{negate,..} => negate,
        TextSelectionOperator::Before{negate,..} => negate,
        TextSelectionOperator::SameRange{negate,..} => negate,
    }
}

pub open spec fn rel(op: TextSelectionOperator, a: TextSelection, b: TextSelection) -> bool {
    match op {
        TextSelectionOperator::Embeds { .. } => b.begin >= a.begin && b.end <= a.end,
        _ => true,
    }
}

impl TextSelection {
    fn test(
        &self,
        operator: &TextSelectionOperator,
        reftextsel: &TextSelection,
    ) -> (r: bool)
        requires wf(*self), wf(*reftextsel),
        ensures (operator matches TextSelectionOperator::Embeds{negate: false, ..}) ==> r == (reftextsel.begin >= self.begin && reftextsel.end <= self.end),
        decreases (if negated(*operator) { 1int } else {0int})
    {
        match operator {
            TextSelectionOperator::Equals { negate: false, .. } => self == reftextsel,
            TextSelectionOperator::Overlaps { negate: false, .. } => {
                (reftextsel.begin >= self.begin && reftextsel.begin < self.end)
                    || (reftextsel.end > self.begin && reftextsel.end <= self.end)
                    || (reftextsel.begin <= self.begin && reftextsel.end >= self.end)
                    || (self.begin <= reftextsel.begin && self.end >= reftextsel.end)
            }
            TextSelectionOperator::Embeds { negate: false, .. } => {
                reftextsel.begin >= self.begin && reftextsel.end <= self.end
            }
            TextSelectionOperator::Embedded {
                negate: false,
                limit: Some(limit),
                ..
            } => {
                self.begin >= reftextsel.begin
                    && self.end <= reftextsel.end
                    && self.begin - reftextsel.begin <= *limit
                    && reftextsel.end - self.end <= *limit
            }
            TextSelectionOperator::Embedded { negate: false, .. } => {
                self.begin >= reftextsel.begin && self.end <= reftextsel.end
            }
            TextSelectionOperator::Before {
                negate: false,
                limit: Some(limit),
                ..
            } => self.end <= reftextsel.begin && reftextsel.begin - self.end <= *limit,
            TextSelectionOperator::Before { negate: false, .. } => self.end <= reftextsel.begin,
            TextSelectionOperator::Equals { negate: true, .. }
            | TextSelectionOperator::Overlaps { negate: true, .. }
            | TextSelectionOperator::Embeds { negate: true, .. }
            | TextSelectionOperator::Embedded { negate: true, .. }
            | TextSelectionOperator::Before { negate: true, .. } => {
                !self.test(&operator.toggle_negate(), reftextsel)
            }
            _ => unreachable!("unknown operator+modifier combination"),
        }
    }

    fn relative_begin_endaligned(&self, container: &TextSelection) -> (r: Option<isize>)
        requires wf(*self), wf(*container),
        ensures r matches Some(x) ==> x <= 0,
    {
        if self.begin >= container.begin {
            let beginaligned = self.begin - container.begin;
            let containerlen = container.end as isize - container.begin as isize;
            Some(containerlen - beginaligned as isize)
        } else {
            None
        }
    }
}

} // verus!
fn main() {}

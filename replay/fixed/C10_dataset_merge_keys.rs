// replay of the defect repaired by /repo commit d3e515a (C10): copy to /repo/tests/ and run it with cargo test; it fails on the parent commit.
// Merging two stores that both describe dataset "ds" must keep every data item under the key it
// was declared with, and must not duplicate the id-less (key,value) vocabulary.
use stam::*;

const STORE_A: &str = r#"{"@type":"AnnotationStore","@id":"A","annotationsets":[
  {"@type":"AnnotationDataSet","@id":"ds",
   "keys":[{"@type":"DataKey","@id":"pos"},{"@type":"DataKey","@id":"lemma"}],
   "data":[{"@type":"AnnotationData","@id":"D1","key":"pos","value":{"@type":"String","value":"noun"}},
           {"@type":"AnnotationData","key":"pos","value":{"@type":"String","value":"verb"}}]}]}"#;

// same dataset id, the keys are listed in the other order
const STORE_B: &str = r#"{"@type":"AnnotationStore","@id":"B","annotationsets":[
  {"@type":"AnnotationDataSet","@id":"ds",
   "keys":[{"@type":"DataKey","@id":"lemma"},{"@type":"DataKey","@id":"pos"}],
   "data":[{"@type":"AnnotationData","@id":"D2","key":"lemma","value":{"@type":"String","value":"walk"}},
           {"@type":"AnnotationData","key":"pos","value":{"@type":"String","value":"verb"}}]}]}"#;

fn merged() -> AnnotationStore {
    let mut store = AnnotationStore::from_json_str(STORE_A, Config::default()).expect("store A loads");
    store.merge_json_str(STORE_B).expect("store B merges");
    store
}

#[test]
fn merged_data_keeps_its_key() {
    let store = merged();
    let ds = store.dataset("ds").expect("dataset");
    assert_eq!(ds.keys().count(), 2, "each key exists once after the merge");
    let d2 = ds.annotationdata("D2").expect("D2 was merged in");
    assert_eq!(
        d2.key().as_str(),
        "lemma",
        "D2 was declared as lemma=walk in store B, it must carry key 'lemma' after the merge"
    );
}

#[test]
fn key_lookup_equals_scan_after_merge() {
    let store = merged();
    let ds = store.dataset("ds").expect("dataset");
    let by_key: Vec<_> = ds
        .find_data("lemma", DataOperator::Equals("walk".into()))
        .map(|d| d.id().map(|s| s.to_string()))
        .collect();
    assert_eq!(
        by_key,
        vec![Some("D2".to_string())],
        "find_data(lemma = walk) must return exactly D2"
    );
    let pos_walk = ds
        .find_data("pos", DataOperator::Equals("walk".into()))
        .count();
    assert_eq!(pos_walk, 0, "nothing was ever declared as pos=walk");
}

#[test]
fn idless_data_stays_deduplicated_after_merge() {
    // same key order on both sides here (store A merged with a copy of itself), so that only the
    // sharing of id-less data is at stake
    let mut store = AnnotationStore::from_json_str(STORE_A, Config::default()).expect("store A loads");
    store.merge_json_str(STORE_A).expect("store A merges into itself");
    let ds = store.dataset("ds").expect("dataset");
    let n = ds
        .find_data("pos", DataOperator::Equals("verb".into()))
        .count();
    assert_eq!(
        n, 1,
        "pos=verb has no explicit id, merging the same dataset again must share it, not add a second item"
    );
}

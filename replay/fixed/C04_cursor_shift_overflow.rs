// replay of the defect repaired by /repo commit aa6da75 (C04): copy to /repo/tests/ and run it with cargo test; it fails on the parent commit.
use stam::*;
use std::panic::{catch_unwind, AssertUnwindSafe};

#[test]
fn cursor_shift_reports_an_error_instead_of_overflowing() {
    // sanity: ordinary shifts
    assert_eq!(Cursor::BeginAligned(3).shift(2).unwrap(), Cursor::BeginAligned(5));
    assert_eq!(Cursor::BeginAligned(3).shift(-3).unwrap(), Cursor::BeginAligned(0));
    assert!(Cursor::BeginAligned(3).shift(-4).is_err());
    assert_eq!(Cursor::EndAligned(-3).shift(3).unwrap(), Cursor::EndAligned(0));
    assert!(Cursor::EndAligned(-3).shift(4).is_err());

    // shifts that leave the range of positions altogether must be refused with an error, like the ones above
    let result = catch_unwind(AssertUnwindSafe(|| {
        Cursor::BeginAligned(usize::MAX).shift(1).is_err()
    }));
    assert_eq!(
        result.ok(),
        Some(true),
        "BeginAligned(usize::MAX).shift(1) must return an error, not panic or wrap around"
    );

    let result = catch_unwind(AssertUnwindSafe(|| {
        Cursor::BeginAligned(5).shift(isize::MIN).is_err()
    }));
    assert_eq!(
        result.ok(),
        Some(true),
        "BeginAligned(5).shift(isize::MIN) must return an error, not panic"
    );

    let result = catch_unwind(AssertUnwindSafe(|| {
        Cursor::EndAligned(-5).shift(isize::MIN).is_err()
    }));
    assert_eq!(
        result.ok(),
        Some(true),
        "EndAligned(-5).shift(isize::MIN) must return an error, not panic or wrap around"
    );

    let result = catch_unwind(AssertUnwindSafe(|| {
        Offset::simple(0, usize::MAX).shift(1).is_err()
    }));
    assert_eq!(
        result.ok(),
        Some(true),
        "Offset::simple(0, usize::MAX).shift(1) must return an error, not panic or wrap around"
    );
}

// replay of the defect repaired by /repo commit fa9d986 (C19): copy to /repo/tests/ and run it with cargo test; it fails on the parent commit.
// STAM CSV loader: panics (unreachable!() / Option::unwrap() on None) instead of returning an error,
// even on a file that the library itself has just written.
use stam::*;
use std::fs;
use std::path::PathBuf;

const HEADER: &str = "Id,AnnotationData,AnnotationDataSet,SelectorType,TargetResource,TargetAnnotation,TargetDataSet,BeginOffset,EndOffset,TargetKey,TargetData\n";
const OLD_HEADER: &str = "Id,AnnotationData,AnnotationDataSet,SelectorType,TargetResource,TargetAnnotation,TargetDataSet,BeginOffset,EndOffset\n";

fn dir(name: &str) -> PathBuf {
    let d = std::env::temp_dir().join(format!("stam_csvdemo_{}_{}", name, std::process::id()));
    let _ = fs::remove_dir_all(&d);
    fs::create_dir_all(&d).unwrap();
    d
}

/// Writes a small, valid STAM CSV store (manifest + dataset + text + annotations table) and returns the manifest's filename
fn write_store(d: &PathBuf, annotations: &str) -> String {
    fs::write(d.join("hello.txt"), "Hello world").unwrap();
    fs::write(
        d.join("s.store.stam.csv"),
        format!(
            "Type,Id,Filename\nAnnotationStore,S,{}\nAnnotationDataSet,set,s.annotationset.stam.csv\nTextResource,hello.txt,hello.txt\n",
            d.join("s.annotations.stam.csv").to_str().unwrap() //(absolute, so that save() writes it back to the same place)
        ),
    )
    .unwrap();
    fs::write(d.join("s.annotationset.stam.csv"), "Id,Key,Value\n,pos,\nD1,pos,noun\n").unwrap();
    fs::write(d.join("s.annotations.stam.csv"), annotations).unwrap();
    d.join("s.store.stam.csv").to_str().unwrap().to_string()
}

/// Loads; Ok(n) = loaded with n annotations, Err(msg) = the loader returned an error. Panics are caught and reported as Err(None)
fn load(filename: String) -> Result<Result<usize, String>, ()> {
    std::panic::catch_unwind(move || {
        AnnotationStore::from_file(&filename, Config::default())
            .map(|s| s.annotations().count())
            .map_err(|e| format!("{}", e))
    })
    .map_err(|_| ())
}

#[test]
fn csv_roundtrip_of_a_valid_store_with_a_datakeyselector() {
    let d = dir("roundtrip");
    let f = write_store(&d, &format!("{}A1,D1,set,TextSelector,hello.txt,,,0,5,,\n", HEADER));
    let mut store = AnnotationStore::from_file(&f, Config::default()).expect("the valid csv store must load");
    // a perfectly valid annotation on a key (and one on a data item), added through the public API
    store
        .annotate(
            AnnotationBuilder::new()
                .with_id("A2")
                .with_target(SelectorBuilder::datakeyselector("set", "pos"))
                .with_existing_data("set", "D1"),
        )
        .expect("annotating a key must work");
    store
        .annotate(
            AnnotationBuilder::new()
                .with_id("A3")
                .with_target(SelectorBuilder::annotationdataselector("set", "D1"))
                .with_existing_data("set", "D1"),
        )
        .expect("annotating data must work");
    store.save().expect("saving as csv must work");
    eprintln!("{}", fs::read_to_string(d.join("s.annotations.stam.csv")).unwrap());
    let result = load(f);
    assert!(
        result.is_ok(),
        "expected: a STAM CSV file written by the library itself can be loaded again (or at the very least yields an error); got: the loader panicked"
    );
    assert_eq!(
        result.unwrap(),
        Ok(3),
        "expected: all three annotations are loaded again from the CSV the library wrote"
    );
}

#[test]
fn csv_simple_datakeyselector_must_not_panic() {
    let d = dir("dks");
    let f = write_store(&d, &format!("{}A1,D1,set,DataKeySelector,,,set,,,pos,\n", HEADER));
    let result = load(f);
    assert!(result.is_ok(), "expected: Ok or Err for a DataKeySelector row; got: panic (unreachable!() in csv.rs)");
    assert_eq!(result.unwrap(), Ok(1), "expected: the annotation on key 'pos' is loaded");
}

#[test]
fn csv_simple_annotationdataselector_must_not_panic() {
    let d = dir("ads");
    let f = write_store(&d, &format!("{}A1,D1,set,AnnotationDataSelector,,,set,,,,D1\n", HEADER));
    let result = load(f);
    assert!(result.is_ok(), "expected: Ok or Err for an AnnotationDataSelector row; got: panic (unreachable!() in csv.rs)");
    assert_eq!(result.unwrap(), Ok(1), "expected: the annotation on data 'D1' is loaded");
}

#[test]
fn csv_subselector_with_begin_but_without_end_offset_must_not_panic() {
    // field deleted from a valid row: EndOffset column emptied, BeginOffset still has a value for subselector #1
    let d = dir("noend");
    let f = write_store(
        &d,
        &format!(
            "{}A1,D1,set,TextSelector,hello.txt,,,0,5,,\nA2,D1,set,MultiSelector;AnnotationSelector,,;A1,,;0,,,\n",
            HEADER
        ),
    );
    let result = load(f);
    assert!(result.is_ok(), "expected: an error for a subselector that has a begin offset but no end offset; got: panic (Option::unwrap() on None in csv.rs)");
    assert!(result.unwrap().is_err(), "expected: an error for a subselector that has a begin offset but no end offset");
}

#[test]
fn csv_old_column_layout_with_key_subselector_must_not_panic() {
    // the 'old' layout without the optional TargetKey/TargetData columns is accepted by the loader (see tests/oldtest.*.csv)
    let d = dir("oldlayout");
    let f = write_store(
        &d,
        &format!("{}A2,D1,set,MultiSelector;DataKeySelector,,,;set,,\n", OLD_HEADER),
    );
    let result = load(f);
    assert!(result.is_ok(), "expected: an error for a DataKeySelector subselector when there is no TargetKey column; got: panic (Option::unwrap() on None in csv.rs)");
    assert!(result.unwrap().is_err(), "expected: an error for a DataKeySelector subselector when there is no TargetKey column");
}

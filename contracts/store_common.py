"""Shared emission of the generic store layer of src/store.rs: Storable, StoreFor (with the
R-request instantiations), StoreCallbacks, IdMap, Config.  Used by u_store and u_dataset."""
import re
from vx.gen import Unit, Fn
from vx.rustsrc import ExtractError
from . import common

ST = 'src/store.rs'

TRUSTED_STORE = r'''
/// R-err: stands for a `format!(..)` / `.to_string()` error-message argument
#[verifier::external_body]
pub fn vx_msg() -> String { String::new() }

/// R-asserteq: `assert_eq!(a, b, msg)` on two handles becomes the obligation that their indices are equal
/// (trusted: handle equality is equality of the wrapped index)
#[verifier::external_body]
pub fn vx_assert_eq_handle<H: Handle>(a: H, b: H)
    requires a.idx() == b.idx(),
{ assert!(a == b) }

/// R-opaque: `HashMap<String, H>` modelled as a finite map from strings to H (trusted model of std's HashMap;
/// vstd's own HashMap specification cannot express &str lookups in a String-keyed map)
#[verifier::external_body]
#[verifier::accept_recursive_types(H)]
pub struct VxStrMap<H> { inner: std::collections::HashMap<String, H> }

impl<H> View for VxStrMap<H> {
    type V = Map<Seq<char>, H>;
    uninterp spec fn view(&self) -> Map<Seq<char>, H>;
}

impl<H> VxStrMap<H> {
    #[verifier::external_body]
    pub fn new() -> (r: Self)
        ensures r@ == Map::<Seq<char>, H>::empty(),
    { VxStrMap { inner: std::collections::HashMap::new() } }

    #[verifier::external_body]
    pub fn get(&self, k: &str) -> (r: Option<&H>)
        ensures r is Some <==> self@.contains_key(k@), r is Some ==> *r.unwrap() == self@[k@],
    { self.inner.get(k) }

    #[verifier::external_body]
    pub fn insert(&mut self, k: String, v: H) -> (r: Option<H>)
        ensures final(self)@ == old(self)@.insert(k@, v),
                r == (if old(self)@.contains_key(k@) { Some(old(self)@[k@]) } else { None::<H> }),
    { self.inner.insert(k, v) }

    #[verifier::external_body]
    pub fn remove(&mut self, k: &str) -> (r: Option<H>)
        ensures final(self)@ == old(self)@.remove(k@),
    { self.inner.remove(k) }
}

/// R-outline: stands for `id.starts_with(prefix)` on &str (std semantics: prefix test)
#[verifier::external_body]
pub fn vx_starts_with(id: &str, prefix: &str) -> (r: bool)
    ensures r == prefix@.is_prefix_of(id@),
{ id.starts_with(prefix) }

/// R-outline: stands for `OPT.map(|x| x.to_string())` on an Option<&str> (an un-annotated closure carries no contract)
#[verifier::external_body]
pub fn vx_owned(id: Option<&str>) -> (r: Option<String>)
    ensures r is Some <==> id is Some, r is Some ==> r.unwrap()@ == id.unwrap()@,
{ id.map(|x| x.to_string()) }

/// temporary-id syntax, the specification resolve_temp_id is held to (bounded check: kani harness k_temp_id)
pub uninterp spec fn temp_id_number(id: Seq<char>) -> Option<nat>;

/// contract assumed here, checked by the bounded Kani harness `k_temp_id` (all strings of <= 4 bytes)
#[verifier::external_body]
pub fn resolve_temp_id(id: &str) -> (r: Option<usize>)
    ensures r is Some <==> (temp_id_number(id@) is Some && temp_id_number(id@).unwrap() <= usize::MAX),
            r is Some ==> r.unwrap() == temp_id_number(id@).unwrap(),
{ unimplemented!() }
'''

STORABLE_GHOST = '''
    /// ghost: the handle / public id this item carries
    spec fn spec_handle(&self) -> Option<Self::HandleType>;
    spec fn spec_id(&self) -> Option<Seq<char>>;
    spec fn spec_carries_id() -> bool;
    /// ghost: the two items agree on everything but handle and public id (what binding / id generation must keep)
    spec fn same_content(&self, other: &Self) -> bool;
    proof fn same_content_refl(a: Self) ensures a.same_content(&a);
    proof fn same_content_trans(a: Self, b: Self, c: Self) requires a.same_content(&b), b.same_content(&c), ensures a.same_content(&c);
'''

STOREFOR_GHOST = '''
    /// ghost views of the store, its id map and its configuration
    spec fn view_store(&self) -> Seq<Option<T>>;
    spec fn view_idmap(&self) -> Option<Map<Seq<char>, T::HandleType>>;
    spec fn view_temp_ids(&self) -> bool;
    spec fn view_config(&self) -> Config;
    /// ghost: everything else this store holds that callbacks may touch (reverse indices ..)
    spec fn view_rest(&self) -> Self::Rest;
    type Rest;
    /// ghost: preremove() of this store never touches the store or the id map (no cascade)
    spec fn cascade_free() -> bool;
    /// ghost: the callbacks around an insertion succeed for this item in this state
    spec fn preinsert_ok(rest: Self::Rest, item: T) -> bool;
    spec fn inserted_ok(rest: Self::Rest, item: T) -> bool;
    /// ghost: implementation specific postconditions of the callbacks (what they do to the reverse indices)
    /// (stated over the ghost views so that the generic insert / remove can pass them on to their callers)
    spec fn inserted_post(store: Seq<Option<T>>, pre_rest: Self::Rest, post_rest: Self::Rest, handle: T::HandleType, ok: bool) -> bool;
    spec fn preremove_post(pre_store: Seq<Option<T>>, pre_rest: Self::Rest, post_store: Seq<Option<T>>, post_rest: Self::Rest, handle: T::HandleType, ok: bool) -> bool;
    /// ghost: preremove(handle) succeeds in this state
    spec fn preremove_ok(s: Self, handle_idx: usize) -> bool;
'''

STORE_SPEC = r'''
/// representation invariant of a store with an id map:
///   every id in the map points at the live item carrying it, every live item with an id is in the
///   map under exactly that id, every live item knows its own handle
pub open spec fn idmap_wf<T: Storable>(store: Seq<Option<T>>, idmap: Option<Map<Seq<char>, T::HandleType>>) -> bool {
    (forall|i: int| 0 <= i < store.len() && (#[trigger] store[i]) is Some ==> store[i].unwrap().spec_handle() is Some && store[i].unwrap().spec_handle().unwrap().idx() == i)
    && (idmap is Some ==> {
        let m = idmap.unwrap();
        (forall|id: Seq<char>| #[trigger] m.contains_key(id) ==> m[id].idx() < store.len() && store[m[id].idx() as int] is Some
              && store[m[id].idx() as int].unwrap().spec_id() == Some(id))
        && (forall|i: int| 0 <= i < store.len() && (#[trigger] store[i]) is Some && store[i].unwrap().spec_id() is Some ==>
              m.contains_key(store[i].unwrap().spec_id().unwrap()) && m[store[i].unwrap().spec_id().unwrap()].idx() == i)
    })
}

/// a removal may only turn slots into tombstones: nothing is created, altered or resurrected
pub open spec fn store_shrinks<T>(old_s: Seq<Option<T>>, new_s: Seq<Option<T>>) -> bool {
    new_s.len() == old_s.len() && forall|i: int| 0 <= i < old_s.len() ==> (#[trigger] new_s[i]) == old_s[i] || new_s[i] is None
}

pub open spec fn live<T>(store: Seq<Option<T>>, i: int) -> bool { 0 <= i < store.len() && store[i] is Some }

/// the string has the temporary-id form of this kind and temporary ids are enabled
pub open spec fn is_temp_form<T: Storable>(temp_ids: bool, id: Seq<char>) -> bool {
    temp_ids && seq!['!', temp_letter(T::spec_typeinfo())].is_prefix_of(id) && temp_id_number(id) is Some && temp_id_number(id).unwrap() <= T::HandleType::hmax()
}

/// what a public id resolves to, per the property (C03): (temporary ids enabled) the number of a temporary id of
/// this kind when that slot holds a live item ("a temporary identifier resolves only to a live item of the right
/// kind"), otherwise the handle in the id map
pub open spec fn resolves_to<T: Storable>(store: Seq<Option<T>>, idmap: Map<Seq<char>, T::HandleType>, temp_ids: bool, id: Seq<char>) -> Option<usize> {
    if temp_ids && seq!['!', temp_letter(T::spec_typeinfo())].is_prefix_of(id) && temp_id_number(id) is Some && temp_id_number(id).unwrap() <= T::HandleType::hmax()
       && live(store, temp_id_number(id).unwrap() as int) {
        Some(temp_id_number(id).unwrap() as usize)
    } else if idmap.contains_key(id) {
        Some(idmap[id].idx())
    } else {
        None
    }
}
'''


BUILDITEM_SPEC = r'''
/// the handle index a BuildItem request denotes in a store with this id map: an id resolves through the map (or as a
/// temporary id), a handle is itself, a reference is the handle the referenced item carries, None denotes nothing
pub open spec fn bi_denotes<'a, T: Storable>(b: BuildItem<'a, T>, store: Seq<Option<T>>, idmap: Option<Map<Seq<char>, T::HandleType>>, temp_ids: bool) -> Option<usize> {
    match b {
        BuildItem::Id(s) => match idmap { Some(m) => resolves_to::<T>(store, m, temp_ids, s@), None => None },
        BuildItem::IdRef(s) => match idmap { Some(m) => resolves_to::<T>(store, m, temp_ids, s@), None => None },
        BuildItem::Handle(h) => Some(h.idx()),
        BuildItem::Ref(inst) => match inst.spec_handle() { Some(h) => Some(h.idx()), None => None },
        BuildItem::None => None,
    }
}
'''


def request_body(u, header, file=ST):
    """R-request: the body of `to_handle` of the given `impl Request<T> for X`, as an expression in
    which `store` is the StoreFor and `self` the request."""
    rf = u.rf(file)
    hs, o, c = rf.find_impl(header)
    loc = rf.find_fn('to_handle', (o, c))
    body = rf.text[loc['body_open'] + 1:loc['end'] - 1].strip()
    body = re.sub(r'\s+', ' ', body)
    u.rewrite_log.append(dict(rule='R-request', at=f"{file}:{rf.line_of(loc['start'])}", what=f"inlined to_handle of {header}: {body}"))
    return body


def inline_request(body):
    b = re.sub(r'\bself\b', '(&item)', body)
    b = re.sub(r'\bstore\b', 'self', b)
    return b


def handle_request_body(u):
    """all handle types implement Request::to_handle identically (`Some(*self)`); checked, else exit 2"""
    bodies = set()
    for name, (file, rep) in common.HANDLE_TYPES.items():
        rf = u.rf(file)
        found = None
        for mm in rf.code_finditer(r"impl<'a> Request<\w+> for " + name + r'\b'):
            o, ch = rf.next_body_open(mm.start())
            c = rf.match_close(o)
            loc = rf.find_fn('to_handle', (o, c))
            found = re.sub(r'\s+', ' ', rf.text[loc['body_open'] + 1:loc['end'] - 1].strip())
        if found is None:
            raise ExtractError(f"R-request: impl Request for {name} not found in {file}")
        bodies.add(found)
    if bodies != {'Some(*self)'}:
        raise ExtractError(f"R-request: handle Request::to_handle bodies differ or changed: {bodies}")
    u.rewrite_log.append(dict(rule='R-request', at='(7 handle types)', what='to_handle == Some(*self) for every handle type (checked)'))
    return 'Some(*self)'


def emit_store_layer(u, props, with_insert=True, with_builditem=False):
    """emit Type/TypeInfo, Config/Configurable, IdMap, Storable, StoreCallbacks, StoreFor"""
    P = props
    u.use('use std::collections::HashMap;')
    u.trusted_text(TRUSTED_STORE, 'external_body: vx_msg, vx_assert, VxStrMap (trusted model of HashMap<String,H>), vx_starts_with (str::starts_with), vx_owned (Option<&str>::map(to_string)), resolve_temp_id (contract assumed; bounded Kani harness k_temp_id)')
    u.item('src/error.rs', 'enum', 'StamError',
           keep_variants=['HandleError', 'IdNotFoundError', 'NoIdError', 'Unbound', 'AlreadyBound', 'DuplicateIdError', 'NotFoundError', 'OtherError', 'InUse', 'IncompleteError'],
           keep_derives=['Debug'])
    u.item('src/types.rs', 'enum', 'Type', keep_derives=['Clone', 'Copy', 'PartialEq', 'Debug'])
    u.spec('''
/// the kind letter of temporary ids ("!A", "!R", ..), from the documentation of TypeInfo::temp_id_prefix
pub open spec fn temp_letter(t: Type) -> char {
    match t {
        Type::AnnotationStore => 'Z', Type::Annotation => 'A', Type::AnnotationDataSet => 'S',
        Type::AnnotationData => 'D', Type::DataKey => 'K', Type::DataValue => 'V',
        Type::TextResource => 'R', Type::TextSelection => 'T', Type::TextSelectionSet => 'X',
        Type::AnnotationSubStore => 'I', Type::Config => 'C',
    }
}
''', 'contracts/store_common.py:temp_letter')
    u.impl('src/types.rs', 'pub trait TypeInfo', [
        Fn('typeinfo', props=P, ret='r', ensures=[('ghost', 'r == Self::spec_typeinfo()')]),
        Fn('temp_id_prefix', props=P, ret='r',
           prologue='proof { reveal_strlit("!Z"); assert("!Z"@ =~= seq![\'!\', \'Z\']); reveal_strlit("!A"); assert("!A"@ =~= seq![\'!\', \'A\']); reveal_strlit("!S"); assert("!S"@ =~= seq![\'!\', \'S\']); reveal_strlit("!D"); assert("!D"@ =~= seq![\'!\', \'D\']); reveal_strlit("!K"); assert("!K"@ =~= seq![\'!\', \'K\']); reveal_strlit("!V"); assert("!V"@ =~= seq![\'!\', \'V\']); reveal_strlit("!R"); assert("!R"@ =~= seq![\'!\', \'R\']); reveal_strlit("!T"); assert("!T"@ =~= seq![\'!\', \'T\']); reveal_strlit("!X"); assert("!X"@ =~= seq![\'!\', \'X\']); reveal_strlit("!I"); assert("!I"@ =~= seq![\'!\', \'I\']); reveal_strlit("!C"); assert("!C"@ =~= seq![\'!\', \'C\']); }',
           ensures=[('ghost', "r@ == seq!['!', temp_letter(Self::spec_typeinfo())]")]),
    ], extra='''
    spec fn spec_typeinfo() -> Type;
''')
    u.item('src/config.rs', 'struct', 'Config', keep_fields=['generate_ids', 'merge', 'strip_temp_ids', 'milestone_interval', 'shrink_to_fit'], keep_derives=[])
    u.impl('src/config.rs', 'pub trait Configurable: Sized', [
        Fn('config', props=P, ret='r', ensures=[('ghost', '*r == self.spec_config()')]),
    ], extra='\n    spec fn spec_config(&self) -> Config;\n')
    u.item(ST, 'struct', 'IdMap', keep_derives=[],
           rewrites=[('R-opaque', r'HashMap<String, HandleType>', 'VxStrMap<HandleType>'),
                     ('R-vis', r'\bdata:', 'pub data:'), ('R-vis', r'\bautoprefix:', 'pub autoprefix:'), ('R-vis', r'\bresolve_temp_ids:', 'pub resolve_temp_ids:')])
    # ------------------------------------------------------------------ Storable
    u.impl(ST, 'pub trait Storable: PartialEq + TypeInfo + Debug + Sized', [
        Fn('handle', props=P, ret='r', decl_only=True, ensures=[('ghost', 'r == self.spec_handle()')]),
        Fn('id', props=P, ret='r', decl_only=True,
           ensures=[('ghost', 'r is Some <==> self.spec_id() is Some'), ('value', 'r is Some ==> r.unwrap()@ == self.spec_id().unwrap()')]),
        Fn('carries_id', props=P, ret='r', ensures=[('ghost', 'r == Self::spec_carries_id()')]),
        Fn('handle_or_err', props=P, ret='r', ensures=[('ok_iff', 'r is Ok <==> self.spec_handle() is Some'), ('handle', 'r is Ok ==> r->Ok_0 == self.spec_handle().unwrap()')]),
        Fn('with_handle', props=P, ret='r', decl_only=True,
           sig_rewrites=[('R-decl', r'\b_handle\b', 'handle')],
           ensures=[('handle', 'r.spec_handle() == Some(handle)'), ('id', 'r.spec_id() == self.spec_id()'), ('content', 'self.same_content(&r)')]),
        Fn('generate_id', props=P, ret='r', decl_only=True, sig_rewrites=[('R-decl', r'\s*where\s*Self: Sized,', '')],
           ensures=[('handle', 'r.spec_handle() == self.spec_handle()'), ('content', 'self.same_content(&r)'),
                    ('temp_ids', 'match idmap { Some(m) => final(m).resolve_temp_ids == m.resolve_temp_ids, None => true }')]),
        Fn('merge', props=P, ret='r', requires=[('same_id', 'other.spec_id() == old(self).spec_id()')], ensures=[('identity', 'final(self).spec_handle() == old(self).spec_handle() && final(self).spec_id() == old(self).spec_id()')]),
    ], verus_header='pub trait Storable: PartialEq + TypeInfo + Sized',
        extra='    type HandleType: Handle;\n' + STORABLE_GHOST)
    u.item(ST, 'type', 'Store')
    u.spec(STORE_SPEC, 'contracts/store_common.py:STORE_SPEC')
    if with_builditem:
        u.item(ST, 'enum', 'BuildItem', keep_derives=[])
        u.spec(BUILDITEM_SPEC, 'contracts/store_common.py:BUILDITEM_SPEC')
    # ------------------------------------------------------------------ StoreCallbacks (contracts assumed by the generic code, proved per implementation where in reach)
    UNCHANGED = 'final(self).view_store() == old(self).view_store() && final(self).view_idmap() == old(self).view_idmap() && final(self).view_temp_ids() == old(self).view_temp_ids() && final(self).view_config() == old(self).view_config()'
    callbacks = [
        Fn('preinsert', props=P, ret='r', decl_only=True,
           ensures=[('item_identity', 'final(item).spec_handle() == old(item).spec_handle() && final(item).spec_id() == old(item).spec_id() && old(item).same_content(final(item))'),
                    ('ok_if', 'Self::preinsert_ok(self.view_rest(), *old(item)) ==> r is Ok')]),
        Fn('inserted', props=P, ret='r', decl_only=True,
           requires=[('live', 'live(old(self).view_store(), handle.idx() as int)')],
           ensures=[('frame', UNCHANGED),
                    ('post', 'Self::inserted_post(old(self).view_store(), old(self).view_rest(), final(self).view_rest(), handle, r is Ok)'),
                    ('ok_if', 'Self::inserted_ok(old(self).view_rest(), old(self).view_store()[handle.idx() as int].unwrap()) ==> r is Ok')]),
        Fn('preremove', props=P, ret='r', decl_only=True,
           requires=[('wf', 'idmap_wf(old(self).view_store(), old(self).view_idmap())')],
           ensures=[('shrinks', 'store_shrinks(old(self).view_store(), final(self).view_store())'),
                    ('wf', 'idmap_wf(final(self).view_store(), final(self).view_idmap())'),
                    ('idmap_shrinks', 'final(self).view_idmap() is Some <==> old(self).view_idmap() is Some'),
                    ('idmap_sub', 'old(self).view_idmap() is Some ==> final(self).view_idmap().unwrap().submap_of(old(self).view_idmap().unwrap())'),
                    ('keeps_target', 'r is Ok && live(old(self).view_store(), handle.idx() as int) ==> final(self).view_store()[handle.idx() as int] == old(self).view_store()[handle.idx() as int]'),
                    ('config', 'final(self).view_temp_ids() == old(self).view_temp_ids() && final(self).view_config() == old(self).view_config()'),
                    ('ok_iff', 'r is Ok <==> Self::preremove_ok(*old(self), handle.idx())'),
                    ('post', 'Self::preremove_post(old(self).view_store(), old(self).view_rest(), final(self).view_store(), final(self).view_rest(), handle, r is Ok)'),
                    ('no_cascade', 'Self::cascade_free() ==> final(self).view_store() == old(self).view_store() && final(self).view_idmap() == old(self).view_idmap()')]),
    ]
    return callbacks


def emit_idmap_ctor(u, P):
    """IdMap::{default, new, with_resolve_temp_ids, set_resolve_temp_ids}: a fresh id map is empty"""
    EMPTY = 'r.data@ == Map::<Seq<char>, HandleType>::empty()'
    u.impl(ST, 'impl<HandleType> Default for IdMap<HandleType>', [
        Fn('default', props=P, ret='r', rewrites=[('R-opaque', r'HashMap::new\(\)', 'VxStrMap::new()')],
           ensures=[('empty', EMPTY), ('temp_ids', 'r.resolve_temp_ids')]),
    ], verus_header='impl<HandleType: Handle> Default for IdMap<HandleType>')
    u.impl(ST, 'impl<HandleType> IdMap<HandleType>', [
        Fn('new', props=P, ret='r', ensures=[('empty', EMPTY), ('temp_ids', 'r.resolve_temp_ids')]),
        Fn('with_resolve_temp_ids', props=P, ret='r', sig_rewrites=[('R-mutself', r'\bmut self\b', 'self')],
           rewrites=[('R-mutself', r'\bself\b', 'vx_self')], prologue='let mut vx_self = self;',
           ensures=[('data', 'r.data@ == self.data@'), ('flag', 'r.resolve_temp_ids == value')]),
        Fn('set_resolve_temp_ids', props=P,
           ensures=[('data', 'final(self).data@ == old(self).data@'), ('flag', 'final(self).resolve_temp_ids == value')]),
    ], verus_header='impl<HandleType: Handle> IdMap<HandleType>')
    u.impl('src/config.rs', 'impl Config', [
        Fn('strip_temp_ids', props=P, ret='r', ensures=[('field', 'r == self.strip_temp_ids')]),
    ])


def emit_storefor(u, P, with_builditem=False):
    """the generic StoreFor<T> trait with its default methods under contract (R-request instances, R-flatten callbacks)"""
    sc = __import__('contracts.store_common', fromlist=['x'])
    ST = sc.ST
    callbacks = sc.emit_store_layer(u, P, with_builditem=with_builditem)
    for cb in callbacks:
        cb.from_block = (ST, 'pub trait StoreCallbacks<T: crate::store::Storable>')
        cb.sig_rewrites.append(('R-path', r'crate::error::StamError', 'StamError'))
    str_req = sc.inline_request(sc.request_body(u, "impl<'a, T> Request<T> for &'a str"))
    h_req = sc.inline_request(sc.handle_request_body(u))

    def req_variants(name, **kw):
        """R-request: one instance per request type used"""
        out = []
        for suffix, ty, body in (('__str', '&str', str_req), ('__handle', 'T::HandleType', h_req)):
            k = dict(kw)
            ens = k.pop('ensures_fn')(suffix)
            out.append(Fn(name, emit_name=name + suffix, props=P, ret='r',
                          sig_rewrites=[('R-request', r'item: impl Request<T>', f'item: {ty}')],
                          rewrites=[('R-request', r'item\.to_handle\(self\)', body)] + k.pop('rewrites', []),
                          ensures=ens, **k))
        return out

    def target(suffix):
        # the handle index the request denotes
        if suffix == '__build':
            return 'bi_denotes::<T>(*item, self.view_store(), self.view_idmap(), self.view_temp_ids())'
        if suffix == '__str':
            return "(match self.view_idmap() { Some(m) => resolves_to::<T>(self.view_store(), m, self.view_temp_ids(), item@), None => None })"
        return 'Some(item.idx())'

    def get_ens(suffix):
        t = target(suffix)
        return [('ok_iff', f'r is Ok <==> ({t} is Some && live(self.view_store(), {t}.unwrap() as int))'),
                ('item', f'r is Ok ==> *r->Ok_0 == self.view_store()[{t}.unwrap() as int].unwrap()')]

    def has_ens(suffix):
        t = target(suffix)
        return [('iff', f'r <==> ({t} is Some && live(self.view_store(), {t}.unwrap() as int))')]

    def get_mut_ens(suffix):
        t = target(suffix).replace('self.', 'old(self).')
        return [('ok_iff', f'r is Ok <==> ({t} is Some && live(old(self).view_store(), {t}.unwrap() as int))'),
                ('item', f'r is Ok ==> *r->Ok_0 == old(self).view_store()[{t}.unwrap() as int].unwrap()'),
                ('writes_back', f'r is Ok ==> final(self).view_store() == old(self).view_store().update({t}.unwrap() as int, Some(*final(r->Ok_0)))'),
                ('err_frame', 'r is Err ==> final(self).view_store() == old(self).view_store()'),
                ('frame', 'final(self).view_idmap() == old(self).view_idmap() && final(self).view_temp_ids() == old(self).view_temp_ids() && final(self).view_config() == old(self).view_config() && final(self).view_rest() == old(self).view_rest()')]

    def remove_ens(suffix):
        t = target(suffix).replace('self.', 'old(self).')
        return [('ok_iff_resolves', f'r is Ok ==> {t} is Some && live(old(self).view_store(), {t}.unwrap() as int)'),
                ('tombstone', f'r is Ok ==> final(self).view_store()[{t}.unwrap() as int] is None'),
                ('only_shrinks', 'store_shrinks(old(self).view_store(), final(self).view_store())'),
                ('wf', 'r is Ok ==> idmap_wf(final(self).view_store(), final(self).view_idmap())'),
                ('id_gone', f'''r is Ok && final(self).view_idmap() is Some ==> forall|id: Seq<char>| #[trigger] final(self).view_idmap().unwrap().contains_key(id) ==> final(self).view_idmap().unwrap()[id].idx() != {t}.unwrap()'''),
                ('idmap_sub', 'old(self).view_idmap() is Some ==> final(self).view_idmap() is Some && final(self).view_idmap().unwrap().submap_of(old(self).view_idmap().unwrap())'),
                ('exact', f'''r is Ok && Self::cascade_free() ==> final(self).view_store() == old(self).view_store().update({t}.unwrap() as int, None)
                      && (old(self).view_idmap() is Some ==> final(self).view_idmap() == Some(match old(self).view_store()[{t}.unwrap() as int].unwrap().spec_id() {{ Some(id) => old(self).view_idmap().unwrap().remove(id), None => old(self).view_idmap().unwrap() }}))'''),
                ('callback', f'r is Ok && Self::cascade_free() ==> forall|h: T::HandleType| h.idx() == {t}.unwrap() ==> #[trigger] Self::preremove_post(old(self).view_store(), old(self).view_rest(), old(self).view_store(), final(self).view_rest(), h, true)'),
                ('succeeds', f'(Self::cascade_free() && {t} is Some && live(old(self).view_store(), {t}.unwrap() as int) && Self::preremove_ok(*old(self), {t}.unwrap())) ==> r is Ok')]

    build_variant = []
    if with_builditem:
        # R-request at `&BuildItem<T>` (what insert_data and the builders pass): to_handle inlined
        b_req = re.sub(r'\bstore\b', 'self', re.sub(r'\bself\b', 'item', sc.request_body(u, "impl<'a, T> Request<T> for &BuildItem<'a, T>")))
        build_variant = [Fn('get', emit_name='get__build', props=P, ret='r',
                            sig_rewrites=[('R-request', r'item: impl Request<T>', "item: &BuildItem<'_, T>")],
                            rewrites=[('R-request', r'item\.to_handle\(self\)', b_req)],
                            ensures=get_ens('__build')),
                         Fn('get_mut', emit_name='get_mut__build', props=P, ret='r',
                            sig_rewrites=[('R-request', r'item: impl Request<T>', "item: &BuildItem<'_, T>")],
                            rewrites=[('R-request', r'item\.to_handle\(self\)', b_req)],
                            ensures=get_mut_ens('__build'))]
    fns = [
        Fn('store', props=P, ret='r', ensures=[('view', 'r@ == self.view_store()')]),
        Fn('store_mut', props=P, ret='r',
           ensures=[('view', 'r@ == old(self).view_store()'), ('writes_back', 'final(self).view_store() == final(r)@'),
                    ('frame', 'final(self).view_idmap() == old(self).view_idmap() && final(self).view_temp_ids() == old(self).view_temp_ids() && final(self).view_config() == old(self).view_config() && final(self).view_rest() == old(self).view_rest()')]),
        Fn('idmap_mut', props=P, ret='r', decl_only=True,
           ensures=[('view', '''match r { Some(m) => old(self).view_idmap() == Some(m.data@) && m.resolve_temp_ids == old(self).view_temp_ids()
                                 && final(self).view_idmap() == Some(final(m).data@) && final(self).view_temp_ids() == final(m).resolve_temp_ids,
                             None => old(self).view_idmap() is None && final(self).view_idmap() is None && final(self).view_temp_ids() == old(self).view_temp_ids() }'''),
                    ('frame', 'final(self).view_store() == old(self).view_store() && final(self).view_config() == old(self).view_config() && final(self).view_rest() == old(self).view_rest()')]),
        Fn('idmap', props=P, ret='r', decl_only=True,
           ensures=[('view', 'match r { Some(m) => self.view_idmap() == Some(m.data@) && m.resolve_temp_ids == self.view_temp_ids(), None => self.view_idmap() is None }')]),
        Fn('store_typeinfo', props=P, ret='r'),
        Fn('config', props=P, ret='r', from_block=('src/config.rs', 'pub trait Configurable: Sized'), ensures=[('view', '*r == self.view_config()')]),
    ] + callbacks + [
        Fn('resolve_id', props=P + ['C19'], ret='r',
           rewrites=[('R-outline', r'id\.starts_with\(T::temp_id_prefix\(\)\)', 'vx_starts_with(id, T::temp_id_prefix())'),
                     ('R-err', r'id\.to_string\(\)', 'vx_msg()')],
           ensures=[('ok_iff', 'r is Ok <==> (self.view_idmap() is Some && resolves_to::<T>(self.view_store(), self.view_idmap().unwrap(), self.view_temp_ids(), id@) is Some)'),
                    ('handle', 'r is Ok ==> r->Ok_0.idx() == resolves_to::<T>(self.view_store(), self.view_idmap().unwrap(), self.view_temp_ids(), id@).unwrap()')],
           prologue='proof { T::HandleType::hmax_bound(); }'),
        Fn('next_handle', props=P, ret='r',
           ensures=[('next', 'self.view_store().len() <= T::HandleType::hmax() ==> r.idx() == self.view_store().len()'), ('max', 'r.idx() <= T::HandleType::hmax()')]),
    ] + req_variants('has', ensures_fn=has_ens) + req_variants('get', ensures_fn=get_ens) + build_variant \
      + req_variants('get_mut', ensures_fn=get_mut_ens) + req_variants('remove', ensures_fn=remove_ens, requires=[('wf', 'idmap_wf(old(self).view_store(), old(self).view_idmap())')],
                                                                        after=[('*item = None;', 'proof { assert forall|h: T::HandleType| h.idx() == handle.idx() && Self::cascade_free() implies #[trigger] Self::preremove_post(old(self).view_store(), old(self).view_rest(), old(self).view_store(), self.view_rest(), h, true) by { T::HandleType::idx_injective(h, handle); } }', None, 'callback')],
                                                                        rewrites=[('R-outline', r'item\.id\(\)\.map\(\|x\| x\.to_string\(\)\)', 'vx_owned(item.id())')])
    # ------------------------------------------------------------------ insert
    OLD = 'old(self).view_store()'
    OLDM = 'old(self).view_idmap()'
    UNCH = 'final(self).view_store() == old(self).view_store() && final(self).view_idmap() == old(self).view_idmap()'
    # the id of the item resolves to an existing live item (duplicate id)
    DUP = f'(T::spec_carries_id() && item.spec_id() is Some && {OLDM} is Some && resolves_to::<T>({OLD}, {OLDM}.unwrap(), old(self).view_temp_ids(), item.spec_id().unwrap()) is Some && live({OLD}, resolves_to::<T>({OLD}, {OLDM}.unwrap(), old(self).view_temp_ids(), item.spec_id().unwrap()).unwrap() as int))'
    GEN = '(T::spec_carries_id() && item.spec_id() is None && old(self).view_config().generate_ids)'
    fns.append(Fn('insert', props=P, ret='r',
                  rewrites=[('R-request', r'self\.has\(id\)', 'self.has__str(id)'),
                            ('R-request', r'self\.get\(id\)', 'self.get__str(id)'),
                            ('R-request', r'self\.get_mut\(id\)', 'self.get_mut__str(id)'),
                            ('R-closure-inline', r'self\.idmap_mut\(\)\.map\(\|idmap\| \{(.*?)\}\);', r'if let Some(idmap) = self.idmap_mut() {\1; }'),
                            ('R-asserteq', r'assert_eq!\(handle, T::HandleType::new\(self\.store\(\)\.len\(\) - 1\), "[^"]*"\);', 'vx_assert_eq_handle(handle, T::HandleType::new(self.store().len() - 1));')],
                  prologue='let ghost vx_item0 = item; proof { T::same_content_refl(item); if item.spec_handle() is Some { T::HandleType::idx_bound(item.spec_handle().unwrap()); } }',
                  before=[('item = item.with_handle(self.next_handle());', 'let ghost vx_a = item;'),
                          ('item = item.generate_id(self.idmap_mut());', 'let ghost vx_b = item;'),
                          ('self.preinsert(&mut item)?;', 'let ghost vx_c = item;')],
                  after=[('item = item.with_handle(self.next_handle());', 'proof { T::HandleType::idx_injective(intid, item.spec_handle().unwrap()); }'),
                         ('item = item.with_handle(self.next_handle());', 'proof { T::same_content_trans(vx_item0, vx_a, item); }', None, 'content'),
                         ('item = item.generate_id(self.idmap_mut());', 'proof { T::same_content_trans(vx_item0, vx_b, item); }', None, 'content'),
                         ('self.preinsert(&mut item)?;', 'proof { T::same_content_trans(vx_item0, vx_c, item); }', None, 'content')],
                  requires=[('wf', f'idmap_wf({OLD}, {OLDM})'),
                            ('unbound_or_next', f'item.spec_handle() is None || item.spec_handle().unwrap().idx() == {OLD}.len()'),
                            ('id_not_temp_form', 'item.spec_id() is Some ==> !is_temp_form::<T>(old(self).view_temp_ids(), item.spec_id().unwrap())')],
                  ensures=[
                      ('duplicate_rejected', f'{DUP} && !old(self).view_config().merge ==> (r is Err || (r is Ok && r->Ok_0.idx() == resolves_to::<T>({OLD}, {OLDM}.unwrap(), old(self).view_temp_ids(), item.spec_id().unwrap()).unwrap())) && {UNCH}'),
                      # a store whose handle type cannot number one more item refuses it (the handle would wrap around and denote an existing item)
                      ('full_refused', f'item.spec_handle() is None && {OLD}.len() > T::HandleType::hmax() ==> r is Err && {UNCH}'),
                      ('atomic', f'r is Err && !old(self).view_config().merge && (forall|it: T| #![trigger Self::preinsert_ok(old(self).view_rest(), it)] #![trigger Self::inserted_ok(old(self).view_rest(), it)] Self::preinsert_ok(old(self).view_rest(), it) && Self::inserted_ok(old(self).view_rest(), it)) ==> {UNCH}'),
                      ('appends', f'r is Ok && !{DUP} ==> r->Ok_0.idx() == {OLD}.len() && final(self).view_store().len() == {OLD}.len() + 1 && final(self).view_store().take({OLD}.len() as int) =~= {OLD} && final(self).view_store().last() is Some && final(self).view_store().last().unwrap().spec_handle() == Some(r->Ok_0)'),
                      ('keeps_id', f'r is Ok && !{DUP} && !{GEN} ==> final(self).view_store().last().unwrap().spec_id() == item.spec_id()'),
                      ('idmap', f'r is Ok && !{DUP} && !{GEN} ==> (final(self).view_idmap() is Some <==> {OLDM} is Some) && ({OLDM} is Some ==> final(self).view_idmap().unwrap() =~= (if T::spec_carries_id() && item.spec_id() is Some {{ {OLDM}.unwrap().insert(item.spec_id().unwrap(), r->Ok_0) }} else {{ {OLDM}.unwrap() }}))'),
                      ('content', f'r is Ok && !{DUP} ==> item.same_content(&final(self).view_store().last().unwrap())'),
                      ('dup_rest', f'{DUP} ==> final(self).view_rest() == old(self).view_rest()'),
                      # when the callbacks cannot fail, a failed insert has touched nothing at all
                      ('atomic_rest', f'r is Err && !old(self).view_config().merge && (forall|it: T| #![trigger Self::preinsert_ok(old(self).view_rest(), it)] #![trigger Self::inserted_ok(old(self).view_rest(), it)] Self::preinsert_ok(old(self).view_rest(), it) && Self::inserted_ok(old(self).view_rest(), it)) ==> final(self).view_rest() == old(self).view_rest()'),
                      ('config', 'final(self).view_config() == old(self).view_config() && final(self).view_temp_ids() == old(self).view_temp_ids()'),
                      ('callback', f'r is Ok && !{DUP} ==> Self::inserted_post(final(self).view_store(), old(self).view_rest(), final(self).view_rest(), r->Ok_0, true)'),
                      ('wf', f'r is Ok && !{DUP} && !{GEN} && (!T::spec_carries_id() ==> item.spec_id() is None) && (item.spec_id() is Some ==> !is_temp_form::<T>(old(self).view_temp_ids(), item.spec_id().unwrap())) ==> idmap_wf(final(self).view_store(), final(self).view_idmap())'),
                  ]))
    u.impl(ST, 'pub trait StoreFor<T: Storable>: Configurable + private::StoreCallbacks<T>', fns,
           verus_header='pub trait StoreFor<T: Storable>: Sized', extra=sc.STOREFOR_GHOST)
    return dict(str_req=str_req, h_req=h_req)

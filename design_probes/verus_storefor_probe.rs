use vstd::prelude::*;
verus! {

pub trait Handle: Copy + PartialEq + Sized {
    spec fn idx(&self) -> usize;
    fn new(intid: usize) -> (r: Self) ensures r.idx() == intid;
    fn as_usize(&self) -> (r: usize) ensures r == self.idx();
}

pub trait Storable: Sized {
    type HandleType: Handle;
    spec fn spec_handle(&self) -> Option<Self::HandleType>;
    fn handle(&self) -> (r: Option<Self::HandleType>) ensures r == self.spec_handle();
}

pub enum StamError { HandleError(&'static str) }

pub trait StoreFor<T: Storable> {
    spec fn view_store(&self) -> Seq<Option<T>>;

    fn store(&self) -> (r: &Vec<Option<T>>)
        ensures r@ == self.view_store();

    fn store_mut(&mut self) -> (r: &mut Vec<Option<T>>)
        ensures r@ == old(self).view_store(),
                final(self).view_store() == final(r)@;

    fn preremove(&mut self, handle: T::HandleType) -> (r: Result<(), StamError>)
        ensures final(self).view_store() == old(self).view_store();

    fn remove(&mut self, handle: T::HandleType) -> (r: Result<(), StamError>)
        ensures
            r is Ok ==> handle.idx() < old(self).view_store().len()
                && final(self).view_store() == old(self).view_store().update(handle.idx() as int, None),
    {
        self.preremove(handle)?;
        if let Some(Some(item)) = self.store().get(handle.as_usize()) {
        } else {
            return Err(StamError::HandleError(
                "Unable to remove non-existing handle",
            ));
        }
        let item = self.store_mut().get_mut(handle.as_usize()).unwrap();
        *item = None;
        Ok(())
    }
}

} // verus!
fn main() {}

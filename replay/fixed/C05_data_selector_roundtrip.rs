// replay of a defect repaired in /repo (C05, see known_findings.txt): copy to /repo/tests/ and run it with cargo test; before the fix the saved store cannot be loaded back.
use stam::*;
#[test]
fn data_selector_round_trip() {
    let mut store = AnnotationStore::default()
        .with_resource(TextResourceBuilder::new().with_id("r").with_text("hello")).unwrap()
        .with_dataset(AnnotationDataSetBuilder::new().with_id("d")).unwrap();
    store.annotate(AnnotationBuilder::new().with_id("A1").with_target(SelectorBuilder::resourceselector("r")).with_data_with_id("d", "k", "v", "D1")).unwrap();
    store.annotate(AnnotationBuilder::new().with_id("A2").with_target(SelectorBuilder::annotationdataselector("d", "D1")).with_data("d", "k", "about data")).unwrap();
    store.annotate(AnnotationBuilder::new().with_id("A3").with_target(SelectorBuilder::datakeyselector("d", "k")).with_data("d", "k", "about key")).unwrap();
    let json = store.to_json_string(&Config::default()).unwrap();
    let i = json.find("\"A2\"").unwrap();
    println!("{}", &json[i..(i + 260).min(json.len())]);
    let back = AnnotationStore::from_json_str(&json, Config::default());
    println!("reload: {:?}", back.as_ref().map(|s| s.annotations().count()).map_err(|e| e.to_string()));
    let back = back.unwrap();
    assert_eq!(back.annotation("A2").unwrap().data_as_metadata().count(), 1);
    assert_eq!(back.annotation("A3").unwrap().keys_as_metadata().count(), 1);
}

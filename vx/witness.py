"""Witness finder driver: when Verus reports a failed obligation, try to obtain a concrete failing input by
running the matching finder test inside the REAL crate (replay/finder.rs, compiled with --cfg stam_verif).
Never decides pass/fail; only upgrades a reported violation."""
import json
import os
import re
import shutil
import subprocess
import tempfile

from . import gen

VERIF = gen.VERIF

# failed obligation (regex on the obligation id) -> finder test in replay/finder.rs
FINDERS = [
    (r'TextSelectionSet::test|TextSelection::test_set|rightmost|leftmost', 'find_rel_sets'),
    (r'TextSelection::test(/|_set/)|toggle_negate|toggle_all|with_limit', 'find_rel_pair'),
    (r'TextSelection::(textselection_by_offset|beginaligned_cursor|relative_|absolute_offset|is_embedded_in)|Offset::len|trait Text<.*::absolute_offset', 'find_relative_offsets'),
    (r'subselectors__resolve|AnnotationStore::annotate', 'find_annotate_failures'),
    (r'subselectors__', 'find_subselectors'),
    (r'textselection_by_offset|beginaligned_cursor', 'find_offset_accept'),
    (r'LimitIter', 'find_limit_slice'),
    (r'Handles', 'find_handles_setops'),
    (r'strip_annotation_ids|strip_data_ids|IdMap<HandleType>::(new|default|with_resolve_temp_ids|set_resolve_temp_ids)', 'find_strip_ids'),
    (r'::reindex|::gaps', 'find_reindex_ids'),
    (r'StoreFor<T:Storable>.*::(resolve_id|get__|has__|get_mut__|next_handle|insert/full_refused)', 'find_id_lookups'),
    (r'SegmentationIter|::segmentation', 'find_segmentation'),
    (r'utf8byte|create_milestones', 'find_utf8'),
    (r'TextSelectionIter|TextResource::range', 'find_index_walk'),
    (r'RelationMap|RelationBTreeMap|StoreCallbacks<(Annotation|AnnotationData|DataKey|TextResource|AnnotationDataSet)>|StoreFor<(AnnotationData|DataKey)>|preremove__unindex|AnnotationDataSet::|Annotation::remove_data|AnnotationStore::remove_data|AnnotationStore::remove_key', 'find_store_consistency'),
    (r'init_textseliters|next_textselection|FindTextSelectionsIter|TextResource::iter|vx_inserted_c|known_textselection', 'find_related_text'),
]


def finder_for(cid):
    for pat, name in FINDERS:
        if re.search(pat, cid):
            return name
    return None


# finders that feed untrusted input to the loaders: the real code ending the test process (stack overflow of a runaway
# recursion, abort on an allocation sized by the input) is itself the violation of C19 ("never panics, aborts or hangs")
ABORT_IS_WITNESS = {'find_include_cycle', 'find_load_untrusted'}


def aborted(name, out):
    # files a finder wrote and could not remove because the process was aborted
    import glob
    for d in glob.glob(os.path.join(os.environ.get('VX_SCRATCH', '/var/tmp'), 'vx_include_cycle_*')):
        shutil.rmtree(d, ignore_errors=True)
    if name not in ABORT_IS_WITNESS or 'WITNESS ' in out:
        return None
    for pat in ('has overflowed its stack', 'memory allocation of', 'SIGABRT', 'SIGSEGV'):
        if pat in out:
            case = [ln for ln in out.splitlines() if ln.startswith('(include case:') or ln.startswith('(document:')]
            return dict(clause=name, problem='the test process was aborted by the code under test: ' + pat, last_input=(case[-1] if case else 'unknown'))
    return None


def run_finder(name, timeout=900):
    """build the real crate with the hook enabled in a scratch target dir (removed afterwards) and run one finder"""
    cache = os.environ.get('VX_TARGET_CACHE')   # optional: reuse a build directory across runs (matrix runs of the author); default: fresh and removed
    target = cache or tempfile.mkdtemp(prefix='vx_replay_', dir=os.environ.get('VX_SCRATCH', '/var/tmp'))
    env = dict(os.environ, STAM_VERIF_DIR=VERIF, RUSTFLAGS='--cfg stam_verif', CARGO_NET_OFFLINE='true')
    cmd = ['cargo', 'test', '--offline', '--manifest-path', os.path.join(gen.REPO, 'Cargo.toml'), '--target-dir', target,
           '--lib', 'verif_hooks::replay::' + name, '--', '--nocapture', '--exact']
    try:
        p = subprocess.run(cmd, capture_output=True, text=True, env=env, timeout=timeout)
        out = p.stdout + p.stderr
    except subprocess.TimeoutExpired:
        out = 'TIMEOUT'
    finally:
        if not cache:
            shutil.rmtree(target, ignore_errors=True)
    for ln in out.splitlines():
        if ln.startswith('WITNESS '):
            try:
                return dict(found=True, finder=name, input=json.loads(ln[len('WITNESS '):]), cmd=' '.join(cmd))
            except Exception:
                return dict(found=True, finder=name, input=ln[len('WITNESS '):], cmd=' '.join(cmd))
    ab = aborted(name, out)
    if ab:
        return dict(found=True, finder=name, input=ab, cmd=' '.join(cmd))
    if 'NO-WITNESS' in out:
        return dict(found=False, completed=True, finder=name, note='finder enumerated its small-input space through the real code without finding a failing input', cmd=' '.join(cmd))
    return dict(found=False, finder=name, note='finder did not run to completion: ' + out[-400:], cmd=' '.join(cmd))


_cache = {}


def find(prop, violation):
    if os.environ.get('VX_NO_WITNESS'):
        return dict(found=False, note='witness search disabled (VX_NO_WITNESS)')
    name = finder_for(violation['cid'])
    if name is None:
        return dict(found=False, note='no executable twin for this obligation; the replay file carries the verifier output')
    if name not in _cache:
        _cache[name] = run_finder(name)
    return _cache[name]


def run_finders(names, timeout=1800, regress_prop=None):
    """thorough tier: run several finders in one build of the real crate; returns {name: result}.
    With regress_prop the regression replays of that property (replay/fixed/<prop>_*.rs, compiled into the crate as
    verif_hooks::regress) are run in the same build directory; their result is returned under the key '__regress__'."""
    cache = os.environ.get('VX_TARGET_CACHE')
    target = cache or tempfile.mkdtemp(prefix='vx_replay_', dir=os.environ.get('VX_SCRATCH', '/var/tmp'))
    env = dict(os.environ, STAM_VERIF_DIR=VERIF, RUSTFLAGS='--cfg stam_verif', CARGO_NET_OFFLINE='true')
    out = {}
    try:
        for name in names:
            cmd = ['cargo', 'test', '--offline', '--manifest-path', os.path.join(gen.REPO, 'Cargo.toml'), '--target-dir', target,
                   '--lib', 'verif_hooks::replay::' + name, '--', '--nocapture', '--exact']
            try:
                p = subprocess.run(cmd, capture_output=True, text=True, env=env, timeout=timeout)
                txt = p.stdout + p.stderr
            except subprocess.TimeoutExpired:
                txt = 'TIMEOUT'
            res = dict(finder=name, cmd=' '.join(cmd), found=False, completed=False, known=[ln[len('KNOWN '):] for ln in txt.splitlines() if ln.startswith('KNOWN ')])
            for ln in txt.splitlines():
                if ln.startswith('WITNESS '):
                    res['found'] = True
                    try:
                        res['input'] = json.loads(ln[len('WITNESS '):])
                    except Exception:
                        res['input'] = ln[len('WITNESS '):]
                    break
            ab = aborted(name, txt)
            if not res['found'] and ab:
                res['found'] = True
                res['input'] = ab
            if not res['found'] and 'NO-WITNESS' in txt:
                res['completed'] = True
            if not res['found'] and not res['completed']:
                res['note'] = 'finder did not run to completion: ' + txt[-400:]
            out[name] = res
            _cache[name] = dict(res, note=res.get('note', 'finder enumerated its small-input space through the real code without finding a failing input'))
        if regress_prop:
            out['__regress__'] = _run_regress(regress_prop, target, env, timeout)
    finally:
        if not cache:
            shutil.rmtree(target, ignore_errors=True)
    return out


def regress_files(prop):
    d = os.path.join(VERIF, 'replay', 'fixed')
    return sorted(f for f in os.listdir(d) if f.startswith(prop + '_') and f.endswith('.rs'))


def _run_regress(prop, target, env, timeout):
    files = regress_files(prop)
    cmd = ['cargo', 'test', '--offline', '--manifest-path', os.path.join(gen.REPO, 'Cargo.toml'), '--target-dir', target,
           '--lib', 'verif_hooks::regress::' + prop.lower() + '_']
    res = dict(cmd=' '.join(cmd), files=files, failed=[], passed=0, completed=False)
    if not files:
        res['completed'] = True
        return res
    try:
        p = subprocess.run(cmd, capture_output=True, text=True, env=env, timeout=timeout)
        txt = p.stdout + p.stderr
    except subprocess.TimeoutExpired:
        txt = 'TIMEOUT'
    for ln in txt.splitlines():
        m = re.match(r'test verif_hooks::regress::(\w+)::(\S+) \.\.\. (ok|FAILED)', ln)
        if not m:
            continue
        if m.group(3) == 'ok':
            res['passed'] += 1
        else:
            # the message of the failed assertion
            msg = ''
            k = txt.find(f"---- verif_hooks::regress::{m.group(1)}::{m.group(2)} stdout ----")
            if k >= 0:
                msg = txt[k:k + 1500]
            fname = next((f for f in files if re.sub(r'[^a-z0-9_]', '_', f[:-3].lower()) == m.group(1)), m.group(1))
            res['failed'].append(dict(replay='replay/fixed/' + fname, test=m.group(2), output=msg))
    res['completed'] = bool(re.search(r'^test result: ', txt, re.M)) and (res['passed'] + len(res['failed']) > 0)
    if not res['completed']:
        res['note'] = txt[-600:]
    return res

// replay of the defect repaired by /repo commit 29bd96e (C04): copy to /repo/tests/ and run it with cargo test; it fails on the parent commit.
// Defect: an AnnotationSelector with an offset, pointing at an annotation whose own target is not
// one single text selection (complex selector over several texts, ResourceSelector, or an
// AnnotationSelector without offset), is accepted whatever the offset is. The offset is silently
// thrown away instead of being validated/refused.
use stam::*;

fn store() -> AnnotationStore {
    let mut store = AnnotationStore::default()
        .with_id("test")
        .with_resource(
            TextResourceBuilder::new()
                .with_id("r")
                .with_text("0123456789"),
        )
        .unwrap();
    // M targets two pieces of text: "01" and "45"
    store
        .annotate(
            AnnotationBuilder::new()
                .with_id("M")
                .with_target(SelectorBuilder::multiselector([
                    SelectorBuilder::textselector("r", Offset::simple(0, 2)),
                    SelectorBuilder::textselector("r", Offset::simple(4, 6)),
                ]))
                .with_data("s", "k", "v"),
        )
        .unwrap();
    // P targets text "234567", Q points at P as a whole, without offset
    store
        .annotate(
            AnnotationBuilder::new()
                .with_id("P")
                .with_target(SelectorBuilder::textselector("r", Offset::simple(2, 8)))
                .with_data("s", "k", "v"),
        )
        .unwrap();
    store
        .annotate(
            AnnotationBuilder::new()
                .with_id("Q")
                .with_target(SelectorBuilder::annotationselector("P", None))
                .with_data("s", "k", "v"),
        )
        .unwrap();
    store
}

fn check(store: &mut AnnotationStore, target: &str, offset: Offset) {
    let result = store.annotate(
        AnnotationBuilder::new()
            .with_id("X")
            .with_target(SelectorBuilder::annotationselector(
                target,
                Some(offset.clone()),
            ))
            .with_data("s", "k", "v"),
    );
    if result.is_ok() {
        let x = store.annotation("X").unwrap();
        let reported = x.as_ref().target().offset(store);
        let json = x.as_ref().target().to_json_compact(store).unwrap();
        panic!(
            "offset {:?} relative to annotation {} does not denote a range inside a text of that annotation and must be refused with an error; \
             instead the annotation was created, its text is {:?}, the offset it reports back is {:?}, serialised as {}",
            offset,
            target,
            x.text().collect::<Vec<_>>(),
            reported,
            json
        );
    }
}

#[test]
fn out_of_range_offset_on_annotation_with_multiselector_is_refused() {
    let mut store = store();
    check(&mut store, "M", Offset::simple(1000, 2000));
}

#[test]
fn inverted_offset_on_annotation_with_multiselector_is_refused() {
    let mut store = store();
    check(&mut store, "M", Offset::simple(2, 1));
}

#[test]
fn positive_endaligned_cursor_on_annotation_with_multiselector_is_refused() {
    let mut store = store();
    check(
        &mut store,
        "M",
        Offset::new(Cursor::BeginAligned(0), Cursor::EndAligned(5)),
    );
}

#[test]
fn out_of_range_offset_on_annotation_that_points_at_an_annotation_is_refused() {
    let mut store = store();
    check(&mut store, "Q", Offset::simple(1000, 2000));
}

/// control: the same offsets against an annotation with a single text are refused
#[test]
fn control_single_text() {
    let mut store = store();
    for offset in [Offset::simple(1000, 2000), Offset::simple(2, 1)] {
        assert!(store
            .annotate(
                AnnotationBuilder::new()
                    .with_target(SelectorBuilder::annotationselector("P", Some(offset)))
                    .with_data("s", "k", "v"),
            )
            .is_err());
    }
    // and valid ones, or no offset at all, are accepted
    store
        .annotate(
            AnnotationBuilder::new()
                .with_id("ok1")
                .with_target(SelectorBuilder::annotationselector(
                    "P",
                    Some(Offset::simple(1, 3)),
                ))
                .with_data("s", "k", "v"),
        )
        .unwrap();
    assert_eq!(store.annotation("ok1").unwrap().text_simple(), Some("34"));
    store
        .annotate(
            AnnotationBuilder::new()
                .with_id("ok2")
                .with_target(SelectorBuilder::annotationselector("M", None))
                .with_data("s", "k", "v"),
        )
        .unwrap();
}

// Specification of the text-selection relations (DESIGN.md appendix A).  Spec-only Verus:
// no executable code.  Written from the documentation of TextSelectionOperator and from the
// statement of property C13, not from the bodies of test()/test_set().

/// "text between codepoints a and b of this resource is whitespace only" - uninterpreted
pub uninterp spec fn gap(res: &TextResource, a: usize, b: usize) -> bool;

pub open spec fn wf(t: TextSelection) -> bool { t.begin <= t.end }

pub open spec fn set_wf(s: Seq<TextSelection>) -> bool { forall|i: int| 0 <= i < s.len() ==> wf(#[trigger] s[i]) }

pub open spec fn negated(op: TextSelectionOperator) -> bool {
    match op {
        TextSelectionOperator::Equals { negate, .. } => negate,
        TextSelectionOperator::Overlaps { negate, .. } => negate,
        TextSelectionOperator::Embeds { negate, .. } => negate,
        TextSelectionOperator::Embedded { negate, .. } => negate,
        TextSelectionOperator::Before { negate, .. } => negate,
        TextSelectionOperator::After { negate, .. } => negate,
        TextSelectionOperator::Precedes { negate, .. } => negate,
        TextSelectionOperator::Succeeds { negate, .. } => negate,
        TextSelectionOperator::SameBegin { negate, .. } => negate,
        TextSelectionOperator::SameEnd { negate, .. } => negate,
        TextSelectionOperator::InSet { negate, .. } => negate,
        TextSelectionOperator::SameRange { negate, .. } => negate,
    }
}

pub open spec fn is_all(op: TextSelectionOperator) -> bool {
    match op {
        TextSelectionOperator::Equals { all, .. } => all,
        TextSelectionOperator::Overlaps { all, .. } => all,
        TextSelectionOperator::Embeds { all, .. } => all,
        TextSelectionOperator::Embedded { all, .. } => all,
        TextSelectionOperator::Before { all, .. } => all,
        TextSelectionOperator::After { all, .. } => all,
        TextSelectionOperator::Precedes { all, .. } => all,
        TextSelectionOperator::Succeeds { all, .. } => all,
        TextSelectionOperator::SameBegin { all, .. } => all,
        TextSelectionOperator::SameEnd { all, .. } => all,
        TextSelectionOperator::InSet { all, .. } => all,
        TextSelectionOperator::SameRange { all, .. } => all,
    }
}

/// the operator with the given modifiers; everything else (variant, limit, whitespace) kept
pub open spec fn with_mods(op: TextSelectionOperator, a: bool, n: bool) -> TextSelectionOperator {
    match op {
        TextSelectionOperator::Equals { .. } => TextSelectionOperator::Equals { all: a, negate: n },
        TextSelectionOperator::Overlaps { .. } => TextSelectionOperator::Overlaps { all: a, negate: n },
        TextSelectionOperator::Embeds { .. } => TextSelectionOperator::Embeds { all: a, negate: n },
        TextSelectionOperator::Embedded { limit, .. } => TextSelectionOperator::Embedded { all: a, negate: n, limit },
        TextSelectionOperator::Before { limit, .. } => TextSelectionOperator::Before { all: a, negate: n, limit },
        TextSelectionOperator::After { limit, .. } => TextSelectionOperator::After { all: a, negate: n, limit },
        TextSelectionOperator::Precedes { allow_whitespace, .. } => TextSelectionOperator::Precedes { all: a, negate: n, allow_whitespace },
        TextSelectionOperator::Succeeds { allow_whitespace, .. } => TextSelectionOperator::Succeeds { all: a, negate: n, allow_whitespace },
        TextSelectionOperator::SameBegin { .. } => TextSelectionOperator::SameBegin { all: a, negate: n },
        TextSelectionOperator::SameEnd { .. } => TextSelectionOperator::SameEnd { all: a, negate: n },
        TextSelectionOperator::InSet { .. } => TextSelectionOperator::InSet { all: a, negate: n },
        TextSelectionOperator::SameRange { .. } => TextSelectionOperator::SameRange { all: a, negate: n },
    }
}

pub open spec fn embeds_s(a: TextSelection, b: TextSelection) -> bool { a.begin <= b.begin && b.end <= a.end }

/// The relation between a subject range `a` and a reference range `b`, ignoring `negate`
/// (interval arithmetic; `all` has no meaning for a pair).
pub open spec fn rel_pos(op: TextSelectionOperator, a: TextSelection, b: TextSelection, res: &TextResource) -> bool {
    match op {
        // (equality is equality of the ranges - the interval-arithmetic definition - whether or not a selection carries a handle)
        TextSelectionOperator::Equals { .. } => a.begin == b.begin && a.end == b.end,
        TextSelectionOperator::InSet { .. } => a.begin == b.begin && a.end == b.end,
        TextSelectionOperator::Overlaps { .. } => (a.begin < b.end && b.begin < a.end) || embeds_s(a, b) || embeds_s(b, a),
        TextSelectionOperator::Embeds { .. } => embeds_s(a, b),
        TextSelectionOperator::Embedded { limit, .. } => embeds_s(b, a) && (match limit {
            Some(k) => a.begin - b.begin <= k && b.end - a.end <= k,
            None => true,
        }),
        TextSelectionOperator::Before { limit, .. } => a.end <= b.begin && (match limit {
            Some(k) => b.begin - a.end <= k,
            None => true,
        }),
        TextSelectionOperator::After { limit, .. } => b.end <= a.begin && (match limit {
            Some(k) => a.begin - b.end <= k,
            None => true,
        }),
        TextSelectionOperator::Precedes { allow_whitespace, .. } =>
            if !allow_whitespace { a.end == b.begin } else { a.end <= b.begin && (a.end == b.begin || (b.begin - a.end <= WHITESPACE_LIMIT && gap(res, a.end, b.begin))) },
        TextSelectionOperator::Succeeds { allow_whitespace, .. } =>
            if !allow_whitespace { b.end == a.begin } else { b.end <= a.begin && (b.end == a.begin || (a.begin - b.end <= WHITESPACE_LIMIT && gap(res, b.end, a.begin))) },
        TextSelectionOperator::SameBegin { .. } => a.begin == b.begin,
        TextSelectionOperator::SameEnd { .. } => a.end == b.end,
        TextSelectionOperator::SameRange { .. } => a.begin == b.begin && a.end == b.end,
    }
}

/// the pairwise relation: a negated relation is the exact complement
pub open spec fn rel(op: TextSelectionOperator, a: TextSelection, b: TextSelection, res: &TextResource) -> bool {
    rel_pos(op, a, b, res) != negated(op)
}

// ------------------------------------------------------------------ sets

pub open spec fn min_begin(s: Seq<TextSelection>) -> int
    decreases s.len()
{
    if s.len() == 0 { 0 } else if s.len() == 1 { s[0].begin as int } else {
        let m = min_begin(s.drop_last());
        if s.last().begin < m { s.last().begin as int } else { m }
    }
}

pub open spec fn max_end(s: Seq<TextSelection>) -> int
    decreases s.len()
{
    if s.len() == 0 { 0 } else if s.len() == 1 { s[0].end as int } else {
        let m = max_end(s.drop_last());
        if s.last().end > m { s.last().end as int } else { m }
    }
}

pub open spec fn is_min_begin(s: Seq<TextSelection>, m: int) -> bool {
    (exists|i: int| 0 <= i < s.len() && #[trigger] s[i].begin == m) && (forall|i: int| 0 <= i < s.len() ==> m <= #[trigger] s[i].begin)
}

pub open spec fn is_max_end(s: Seq<TextSelection>, m: int) -> bool {
    (exists|i: int| 0 <= i < s.len() && #[trigger] s[i].end == m) && (forall|i: int| 0 <= i < s.len() ==> m >= #[trigger] s[i].end)
}

pub proof fn lemma_min_begin(s: Seq<TextSelection>)
    requires s.len() > 0,
    ensures is_min_begin(s, min_begin(s)),
    decreases s.len(),
{
    if s.len() == 1 {
        assert(s[0].begin == min_begin(s));
    } else {
        let p = s.drop_last();
        lemma_min_begin(p);
        let m = min_begin(p);
        let i0 = choose|i: int| 0 <= i < p.len() && #[trigger] p[i].begin == m;
        assert(p[i0] == s[i0]);
        if s.last().begin < m {
            assert(s[s.len() - 1].begin == min_begin(s));
        } else {
            assert(s[i0].begin == min_begin(s));
        }
        assert forall|i: int| 0 <= i < s.len() implies min_begin(s) <= #[trigger] s[i].begin by {
            if i < p.len() { assert(p[i] == s[i]); }
        }
    }
}

pub proof fn lemma_max_end(s: Seq<TextSelection>)
    requires s.len() > 0,
    ensures is_max_end(s, max_end(s)),
    decreases s.len(),
{
    if s.len() == 1 {
        assert(s[0].end == max_end(s));
    } else {
        let p = s.drop_last();
        lemma_max_end(p);
        let m = max_end(p);
        let i0 = choose|i: int| 0 <= i < p.len() && #[trigger] p[i].end == m;
        assert(p[i0] == s[i0]);
        if s.last().end > m {
            assert(s[s.len() - 1].end == max_end(s));
        } else {
            assert(s[i0].end == max_end(s));
        }
        assert forall|i: int| 0 <= i < s.len() implies max_end(s) >= #[trigger] s[i].end by {
            if i < p.len() { assert(p[i] == s[i]); }
        }
    }
}

pub proof fn lemma_min_unique(s: Seq<TextSelection>, m: int)
    requires is_min_begin(s, m),
    ensures s.len() > 0, m == min_begin(s),
{
    let i = choose|i: int| 0 <= i < s.len() && #[trigger] s[i].begin == m;
    lemma_min_begin(s);
    let j = choose|j: int| 0 <= j < s.len() && #[trigger] s[j].begin == min_begin(s);
}

pub proof fn lemma_max_unique(s: Seq<TextSelection>, m: int)
    requires is_max_end(s, m),
    ensures s.len() > 0, m == max_end(s),
{
    let i = choose|i: int| 0 <= i < s.len() && #[trigger] s[i].end == m;
    lemma_max_end(s);
    let j = choose|j: int| 0 <= j < s.len() && #[trigger] s[j].end == max_end(s);
}

/// With the `all` modifier (and for SameRange) a set acts as its bounding range:
/// leftmost begin .. rightmost end.
pub open spec fn bound(s: Seq<TextSelection>) -> TextSelection {
    TextSelection { intid: None, begin: min_begin(s) as usize, end: max_end(s) as usize }
}

/// operators for which `all` makes the *subject* set act as its bounding range
pub open spec fn subject_by_bound(op: TextSelectionOperator) -> bool {
    match op {
        TextSelectionOperator::SameRange { .. } => true,
        TextSelectionOperator::Precedes { all, .. } => all,
        TextSelectionOperator::Succeeds { all, .. } => all,
        TextSelectionOperator::Before { all, .. } => all,
        TextSelectionOperator::After { all, .. } => all,
        TextSelectionOperator::SameBegin { all, .. } => all,
        TextSelectionOperator::SameEnd { all, .. } => all,
        _ => false,
    }
}

/// one subject range against a reference set, ignoring `negate`
pub open spec fn s1_pos(op: TextSelectionOperator, a: TextSelection, bs: Seq<TextSelection>, res: &TextResource) -> bool {
    match op {
        TextSelectionOperator::Equals { .. } => exists|j: int| 0 <= j < bs.len() && a.begin == (#[trigger] bs[j]).begin && a.end == bs[j].end,
        TextSelectionOperator::InSet { .. } => exists|j: int| 0 <= j < bs.len() && a.begin == (#[trigger] bs[j]).begin && a.end == bs[j].end,
        TextSelectionOperator::SameRange { .. } => bs.len() > 0 && rel_pos(op, a, bound(bs), res),
        TextSelectionOperator::Precedes { all: true, .. } => bs.len() > 0 && rel_pos(op, a, bound(bs), res),
        TextSelectionOperator::Succeeds { all: true, .. } => bs.len() > 0 && rel_pos(op, a, bound(bs), res),
        TextSelectionOperator::SameBegin { all: true, .. } => bs.len() > 0 && rel_pos(op, a, bound(bs), res),
        TextSelectionOperator::SameEnd { all: true, .. } => bs.len() > 0 && rel_pos(op, a, bound(bs), res),
        _ => if is_all(op) {
            bs.len() > 0 && forall|j: int| 0 <= j < bs.len() ==> rel_pos(op, a, #[trigger] bs[j], res)
        } else {
            exists|j: int| 0 <= j < bs.len() && rel_pos(op, a, #[trigger] bs[j], res)
        },
    }
}

pub open spec fn s1(op: TextSelectionOperator, a: TextSelection, bs: Seq<TextSelection>, res: &TextResource) -> bool {
    s1_pos(op, a, bs, res) != negated(op)
}

/// a subject set against one reference range, ignoring `negate` (subject set non-empty)
pub open spec fn t1_pos(op: TextSelectionOperator, xs: Seq<TextSelection>, b: TextSelection, res: &TextResource) -> bool {
    if subject_by_bound(op) { rel_pos(op, bound(xs), b, res) }
    else { forall|i: int| 0 <= i < xs.len() ==> rel_pos(op, #[trigger] xs[i], b, res) }
}

pub open spec fn t1(op: TextSelectionOperator, xs: Seq<TextSelection>, b: TextSelection, res: &TextResource) -> bool {
    xs.len() > 0 && (t1_pos(op, xs, b, res) != negated(op))
}

/// a subject set against a reference set, ignoring `negate` (subject set non-empty)
pub open spec fn s2_pos(op: TextSelectionOperator, xs: Seq<TextSelection>, bs: Seq<TextSelection>, res: &TextResource) -> bool {
    if subject_by_bound(op) { s1_pos(op, bound(xs), bs, res) }
    else {
        (op is Equals ==> xs.len() == bs.len())
        && forall|i: int| 0 <= i < xs.len() ==> s1_pos(op, #[trigger] xs[i], bs, res)
    }
}

pub open spec fn s2(op: TextSelectionOperator, xs: Seq<TextSelection>, bs: Seq<TextSelection>, res: &TextResource) -> bool {
    xs.len() > 0 && (s2_pos(op, xs, bs, res) != negated(op))
}

// ------------------------------------------------------------------ the algebraic laws of C13
// proved over the specification that test()/test_set() are proved equal to.

pub open spec fn conv(op: TextSelectionOperator) -> TextSelectionOperator {
    match op {
        TextSelectionOperator::Embeds { all, negate } => TextSelectionOperator::Embedded { all, negate, limit: None },
        TextSelectionOperator::Embedded { all, negate, limit: None } => TextSelectionOperator::Embeds { all, negate },
        TextSelectionOperator::Before { all, negate, limit } => TextSelectionOperator::After { all, negate, limit },
        TextSelectionOperator::After { all, negate, limit } => TextSelectionOperator::Before { all, negate, limit },
        TextSelectionOperator::Precedes { all, negate, allow_whitespace } => TextSelectionOperator::Succeeds { all, negate, allow_whitespace },
        TextSelectionOperator::Succeeds { all, negate, allow_whitespace } => TextSelectionOperator::Precedes { all, negate, allow_whitespace },
        _ => op,
    }
}

/// embeds/embedded, before/after, precedes/succeeds are converses; equals, overlaps,
/// same begin, same end, same range are symmetric (their own converse).
pub proof fn law_converse(op: TextSelectionOperator, a: TextSelection, b: TextSelection, res: &TextResource)
    requires !(op is InSet), !(op matches TextSelectionOperator::Embedded { limit: Some(_), .. }),
    ensures rel(op, a, b, res) == rel(conv(op), b, a, res),
{
}

pub proof fn law_equals_implies(all: bool, a: TextSelection, b: TextSelection, res: &TextResource)
    requires rel(TextSelectionOperator::Equals { all, negate: false }, a, b, res), wf(a),
    ensures
        rel(TextSelectionOperator::Embeds { all, negate: false }, a, b, res),
        rel(TextSelectionOperator::Embedded { all, negate: false, limit: None }, a, b, res),
        rel(TextSelectionOperator::SameBegin { all, negate: false }, a, b, res),
        rel(TextSelectionOperator::SameEnd { all, negate: false }, a, b, res),
        rel(TextSelectionOperator::Overlaps { all, negate: false }, a, b, res),
{
}

pub proof fn law_complement(op: TextSelectionOperator, a: TextSelection, b: TextSelection, res: &TextResource)
    ensures rel(with_mods(op, is_all(op), !negated(op)), a, b, res) == !rel(op, a, b, res),
{
}

pub proof fn law_complement_sets(op: TextSelectionOperator, xs: Seq<TextSelection>, bs: Seq<TextSelection>, res: &TextResource)
    requires xs.len() > 0,
    ensures s2(with_mods(op, is_all(op), !negated(op)), xs, bs, res) == !s2(op, xs, bs, res),
{
}

/// a test on singleton sets equals the test on their single members
pub proof fn law_singleton(op: TextSelectionOperator, a: TextSelection, b: TextSelection, res: &TextResource)
    ensures
        s2(op, seq![a], seq![b], res) == rel(op, a, b, res),
        s1(op, a, seq![b], res) == rel(op, a, b, res),
        t1(op, seq![a], b, res) == rel(op, a, b, res),
{
    let xs = seq![a];
    let bs = seq![b];
    assert(xs[0] == a);
    assert(bs[0] == b);
    assert(min_begin(xs) == a.begin && max_end(xs) == a.end);
    assert(min_begin(bs) == b.begin && max_end(bs) == b.end);
    assert(bound(xs).begin == a.begin && bound(xs).end == a.end);
    assert(bound(bs).begin == b.begin && bound(bs).end == b.end);
    // s1_pos(op, a, [b]) == rel_pos(op, a, b)
    assert(s1_pos(op, a, bs, res) == rel_pos(op, a, b, res)) by {
        if rel_pos(op, a, b, res) { assert(rel_pos(op, a, bs[0], res)); }
    }
    assert(s2_pos(op, xs, bs, res) == rel_pos(op, a, b, res)) by {
        if subject_by_bound(op) {
            assert(rel_pos(op, bound(xs), bs[0], res) == rel_pos(op, a, bs[0], res));
            assert(rel_pos(op, bound(xs), bound(bs), res) == rel_pos(op, a, bound(bs), res));
            assert(s1_pos(op, bound(xs), bs, res) == s1_pos(op, a, bs, res)) by {
                if rel_pos(op, a, b, res) { assert(rel_pos(op, bound(xs), bs[0], res)); }
            }
        } else {
            assert(s1_pos(op, xs[0], bs, res) == rel_pos(op, a, b, res));
        }
    }
    assert(t1_pos(op, xs, b, res) == rel_pos(op, a, b, res)) by {
        if subject_by_bound(op) {
            assert(rel_pos(op, bound(xs), b, res) == rel_pos(op, a, b, res));
        } else {
            assert(rel_pos(op, xs[0], b, res) == rel_pos(op, a, b, res));
        }
    }
}

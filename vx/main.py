"""CLI:  ./check <Cxx> [--tier quick|thorough]      decide one property
         ./check --unit <unit> [-v]                   developer view of one unit
         ./check --all                                every claimed property
         ./check <Cxx> --replay <file>                show / re-run a recorded violation
"""
import argparse
import json
import os
import subprocess
import sys
import time
import concurrent.futures as cf

sys.path.insert(0, os.path.dirname(os.path.dirname(os.path.abspath(__file__))))
from vx import gen, run  # noqa: E402
from vx.registry import PROPERTIES  # noqa: E402

VERIF = gen.VERIF


def dev_unit(name, verbose, rlimit):
    r = run.check_unit(name, rlimit)
    print(f"unit {name}: wall {r.wall:.1f}s verified={r.verified} errors={r.errors} smt={r.smt_ms}ms")
    for i in r.infra:
        print("INFRA:", i)
    for f in r.failures:
        print(f"FAIL fn={f['fn']} clause={f['clause']} src={f['src']} :: {f['msg']}")
        if verbose:
            print(f['rendered'])
    return 0 if not r.infra and not r.failures else 1


def main():
    ap = argparse.ArgumentParser()
    ap.add_argument('prop', nargs='?')
    ap.add_argument('--tier', default=os.environ.get('VERIF_TIER', 'quick'))
    ap.add_argument('--unit')
    ap.add_argument('--all', action='store_true')
    ap.add_argument('--replay')
    ap.add_argument('-v', action='store_true')
    ap.add_argument('--rlimit', type=float)
    a = ap.parse_args()
    if a.unit:
        sys.exit(dev_unit(a.unit, a.v, a.rlimit or 30))
    from vx import decide
    if a.replay:
        sys.exit(decide.replay(a.prop, a.replay))
    if a.all:
        rc = 0
        for p in PROPERTIES:
            rc = max(rc, decide.decide(p, a.tier, a.rlimit))
        sys.exit(rc)
    if not a.prop:
        ap.error('property id required')
    sys.exit(decide.decide(a.prop, a.tier, a.rlimit))


if __name__ == '__main__':
    main()

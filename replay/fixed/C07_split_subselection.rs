// replay of the defect repaired by /repo commit bd30ed3 (C07): copy to /repo/tests/ and run it with cargo test; before the fix it fails for every proper sub-selection.
use stam::*;
#[test]
fn split_in_subselection() {
    for text in ["a b c d", "é €€ 𝄞 x", "  a  b ", "abc", ""] {
        let store = AnnotationStore::default().with_resource(TextResourceBuilder::new().with_id("r").with_text(text)).unwrap();
        let res = store.resource("r").unwrap();
        let chars: Vec<char> = text.chars().collect();
        let n = chars.len();
        for b in 0..=n { for e in b..=n {
            let sub: String = chars[b..e].iter().collect();
            for delim in [" ", "  ", "€", "b c"] {
                // expected: plain split of the substring, with char offsets
                let mut want = vec![]; let mut pos = b;
                for piece in sub.split(delim) { let l = piece.chars().count(); want.push((pos, pos + l, piece.to_string())); pos += l + delim.chars().count(); }
                let got: Vec<(usize, usize, String)> = if b == 0 && e == n { res.split_text(delim).map(|t| (t.begin(), t.end(), t.text().to_string())).collect() }
                    else { match res.textselection(&Offset::simple(b, e)) { Ok(sel) => sel.split_text(delim).map(|t| (t.begin(), t.end(), t.text().to_string())).collect(), Err(_) => continue } };
                assert_eq!(got, want, "text {:?} range {}..{} delimiter {:?}", text, b, e, delim);
            }
        }}
    }
}

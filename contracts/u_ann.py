"""U-ann: Annotation::remove_data (src/annotation.rs) - dropping one data reference from an annotation
removes exactly that (set, data) pair and nothing else.  Serves C02."""
import re
from vx.gen import Unit, Fn
from vx.rustsrc import ExtractError
from . import common

P = ['C02']
A = 'src/annotation.rs'

RETAIN = r'''
/// R-lambda: `self.data.retain(|PAT| BODY)` - the closure is lifted into the named function
/// vx_remove_data_keep (its body is the closure body, cut from the source on every run); Vec::retain is
/// trusted to keep exactly the elements for which that predicate holds, in order.
#[verifier::external_body]
pub fn vx_retain_data(v: &mut Vec<(AnnotationDataSetHandle, AnnotationDataHandle)>, set: AnnotationDataSetHandle, data: AnnotationDataHandle)
    ensures final(v)@ == old(v)@.filter(|p: (AnnotationDataSetHandle, AnnotationDataHandle)| keep_spec(p, set, data)),
{ unimplemented!() }

/// what the lifted closure must compute, taken from the property: an annotation only loses the removed data
pub open spec fn keep_spec(p: (AnnotationDataSetHandle, AnnotationDataHandle), set: AnnotationDataSetHandle, data: AnnotationDataHandle) -> bool {
    !(p.0 == set && p.1 == data)
}
'''


def _build(part):
    u = Unit('u_ann' if part == 'fn' else 'u_ann_closure', serves=['C02'])
    common.target64(u)
    common.handle_trait(u, P)
    for h in ('AnnotationDataSetHandle', 'AnnotationDataHandle'):
        common.handle_impl(u, h, P)
    u.item(A, 'type', 'DataVec')
    u.item(A, 'struct', 'Annotation', keep_fields=['data'], keep_derives=[], rewrites=[('R-vis', r'\bdata:', 'pub data:')])
    # ---- lift the closure of the retain call
    rf = u.rf(A)
    hs, o, c = rf.find_impl('impl Annotation')
    loc = None
    k = 0
    while loc is None:
        try:
            loc = rf.find_fn('remove_data', (o, c))
        except ExtractError:
            k += 1
            hs, o, c = rf.find_impl('impl Annotation', k)
    body = rf.text[loc['body_open']:loc['end']]
    ms = list(re.finditer(r'self\.data\.retain\(\|([^|]*)\|\s*(.*?)\);', body, re.S))
    if len(ms) != 1:
        raise ExtractError(f"{A}: remove_data: expected exactly one `self.data.retain(|..| ..)` call, found {len(ms)}")
    pat, cbody = ms[0].group(1).strip(), ms[0].group(2).strip()
    line = rf.line_of(loc['body_open'] + ms[0].start())
    u.rewrite_log.append(dict(rule='R-lambda', at=f"{A}:{line}", what=f"closure |{pat}| {cbody} lifted into vx_remove_data_keep"))
    u.trusted_text(RETAIN, 'external_body vx_retain_data: Vec::retain keeps exactly the elements satisfying the lifted closure, in order (R-lambda)')
    u.raw_fn('Annotation::remove_data::{closure}', P, A, line,
             'pub fn vx_remove_data_keep(vx_p: &(AnnotationDataSetHandle, AnnotationDataHandle), set: AnnotationDataSetHandle, data: AnnotationDataHandle) -> (r: bool)',
             [('keeps_iff_not_the_pair', 'ensures', 'r == !(vx_p.0 == set && vx_p.1 == data)'),
              ('is_keep_spec', 'ensures', 'r == keep_spec(*vx_p, set, data)')],
             f'    let {pat} = vx_p;\n    {cbody}', 'R-lambda lifted closure')
    if part == 'closure':
        return u
    # ---- the function itself, with the retain call outlined
    u.functions = [f for f in u.functions if not f['qual'].endswith('{closure}')]
    u.impl(A, 'impl Annotation', [
        Fn('remove_data', props=P,
           rewrites=[('R-lambda', r'self\.data\.retain\(\|[^|]*\|\s*.*?\);', 'vx_retain_data(&mut self.data, set, data);')],
           ensures=[('exact_filter', 'final(self).data@ == old(self).data@.filter(|p: (AnnotationDataSetHandle, AnnotationDataHandle)| keep_spec(p, set, data))')]),
    ])
    return u


def build():
    return _build('fn')

"""U-reindex: compaction of a store (C03: "identifiers are never redirected to another item by later operations,
including compaction").  Handle::reindex (src/types.rs), ReindexStore::{gaps, reindex} for Vec<Option<T>>
(src/store.rs): after compaction every live item sits, in order, at the position Handle::reindex computes from
its old handle, and carries that position as its handle."""
from vx.gen import Unit, Fn
from . import common
from . import store_common as sc

P = ['C03']
ST = 'src/store.rs'

SPEC0 = r'''
/// sum of the deltas of the gaps recorded at or before index x (gaps as (index, delta) pairs)
pub open spec fn shift(g: Seq<(int, int)>, x: int) -> int
    decreases g.len()
{
    if g.len() == 0 { 0 } else if g.last().0 <= x { shift(g.drop_last(), x) + g.last().1 } else { shift(g.drop_last(), x) }
}
pub open spec fn total(g: Seq<(int, int)>) -> int
    decreases g.len()
{
    if g.len() == 0 { 0 } else { total(g.drop_last()) + g.last().1 }
}
/// a gap list as the code builds it: positions strictly ascending, deltas negative, and never more removed than there is
pub open spec fn gaps_wf(g: Seq<(int, int)>) -> bool {
    (forall|i: int, j: int| 0 <= i < j < g.len() ==> g[i].0 < g[j].0)
    && (forall|i: int| 0 <= i < g.len() ==> g[i].1 < 0 && g[i].0 >= 0 && g[i].0 + #[trigger] total(g.take(i + 1)) >= 0)
    && (forall|i: int| 0 <= i < g.len() ==> -0x1_0000_0000 <= #[trigger] total(g.take(i)) && total(g.take(i + 1)) >= -0x1_0000_0000)
}

pub proof fn lemma_shift_take(g: Seq<(int, int)>, i: int, x: int)
    requires 0 <= i < g.len(),
    ensures shift(g.take(i + 1), x) == (if g[i].0 <= x { shift(g.take(i), x) + g[i].1 } else { shift(g.take(i), x) }),
            total(g.take(i + 1)) == total(g.take(i)) + g[i].1,
{
    assert(g.take(i + 1).drop_last() =~= g.take(i));
    assert(g.take(i + 1).last() == g[i]);
}
/// beyond the first gap above x nothing more applies (positions ascend)
pub proof fn lemma_shift_prefix(g: Seq<(int, int)>, i: int, x: int)
    requires 0 <= i <= g.len(), forall|a: int, b: int| 0 <= a < b < g.len() ==> g[a].0 < g[b].0, i < g.len() ==> g[i].0 > x,
    ensures shift(g, x) == shift(g.take(i), x),
    decreases g.len() - i,
{
    if i >= g.len() { assert(g.take(i) =~= g); }
    else {
        lemma_shift_prefix(g, i + 1, x);
        lemma_shift_take(g, i, x);
    }
}
/// when every recorded position is at or before x, all of them apply
pub proof fn lemma_shift_all(g: Seq<(int, int)>, x: int)
    requires forall|a: int| 0 <= a < g.len() ==> g[a].0 <= x,
    ensures shift(g, x) == total(g),
    decreases g.len(),
{
    if g.len() > 0 { lemma_shift_all(g.drop_last(), x); }
}
pub proof fn lemma_shift_none(g: Seq<(int, int)>, x: int)
    requires forall|a: int| 0 <= a < g.len() ==> g[a].0 > x,
    ensures shift(g, x) == 0,
    decreases g.len(),
{
    if g.len() > 0 { lemma_shift_none(g.drop_last(), x); }
}
'''

GV = 'Seq::new(gaps@.len(), |i: int| (gaps@[i].0.idx() as int, gaps@[i].1 as int))'

REINDEX_STEP = '''proof {
                let g = ''' + GV + ''';
                let i = vx_it.index@ as int; let x = self.idx() as int;
                lemma_shift_take(g, i, x);
                assert(g[i] == (gaphandle.idx() as int, *gapdelta as int));
                if !vx_done { lemma_shift_all(g.take(i + 1), x); lemma_shift_all(g.take(i), x); }
            }'''

REINDEX_END = '''proof {
            let g = ''' + GV + '''; let x = self.idx() as int;
            if vx_done { lemma_shift_prefix(g, vx_k, x); lemma_shift_all(g.take(vx_k), x); }
            else { assert(g.take(g.len() as int) =~= g); lemma_shift_all(g, x); }
        }'''


SPEC1 = r'''
/// number of tombstones among the first n slots
pub open spec fn tombs<T>(s: Seq<Option<T>>, n: int) -> int
    decreases n
{
    if n <= 0 { 0 } else { tombs(s, n - 1) + (if s[n - 1] is None { 1int } else { 0int }) }
}
pub proof fn lemma_tombs_bound<T>(s: Seq<Option<T>>, n: int)
    requires 0 <= n <= s.len(),
    ensures 0 <= tombs(s, n) <= n,
    decreases n,
{
    if n > 0 { lemma_tombs_bound(s, n - 1); }
}
/// every live item knows its own position
pub open spec fn knows_handles<T: Storable>(s: Seq<Option<T>>) -> bool {
    forall|i: int| 0 <= i < s.len() && (#[trigger] s[i]) is Some ==> s[i].unwrap().spec_handle() is Some && s[i].unwrap().spec_handle().unwrap().idx() == i
}
pub open spec fn gv<H: Handle>(g: Seq<(H, isize)>) -> Seq<(int, int)> {
    Seq::new(g.len(), |i: int| (g[i].0.idx() as int, g[i].1 as int))
}
/// the gap list describes the store: for every live position the recorded shift is minus the number of tombstones before it
pub open spec fn gaps_describe<T>(g: Seq<(int, int)>, s: Seq<Option<T>>) -> bool {
    gaps_wf(g) && (forall|i: int| 0 <= i < s.len() && (#[trigger] s[i]) is Some ==> shift(g, i) == -tombs(s, i))
}
pub proof fn lemma_total_push(g: Seq<(int, int)>, e: (int, int))
    ensures total(g.push(e)) == total(g) + e.1,
            forall|i: int| 0 <= i <= g.len() ==> #[trigger] g.push(e).take(i) == g.take(i),
            g.push(e).take(g.len() as int + 1) == g.push(e),
{
    assert(g.push(e).drop_last() =~= g);
    assert forall|i: int| 0 <= i <= g.len() implies #[trigger] g.push(e).take(i) == g.take(i) by { assert(g.push(e).take(i) =~= g.take(i)); }
    assert(g.push(e).take(g.len() as int + 1) =~= g.push(e));
}
pub proof fn lemma_shift_push(g: Seq<(int, int)>, e: (int, int), x: int)
    ensures shift(g.push(e), x) == (if e.0 <= x { shift(g, x) + e.1 } else { shift(g, x) }),
{
    assert(g.push(e).drop_last() =~= g);
}
'''

SPEC2 = r'''
/// compaction: every live item of s sits in r at its position minus the tombstones before it, knowing that position, with
/// its id and content; and r's live items are exactly those
pub open spec fn moved<T: Storable>(s: Seq<Option<T>>, r: Seq<Option<T>>, g: Seq<(int, int)>) -> bool {
    (forall|i: int| 0 <= i < s.len() && (#[trigger] s[i]) is Some ==> {
        let k = i + shift(g, i);
        0 <= k < r.len() && r[k] is Some && r[k].unwrap().spec_id() == s[i].unwrap().spec_id() && s[i].unwrap().same_content(&r[k].unwrap())
        && r[k].unwrap().spec_handle() is Some && r[k].unwrap().spec_handle().unwrap().idx() == k })
    && (forall|k: int| 0 <= k < r.len() && (#[trigger] r[k]) is Some ==> exists|i: int| 0 <= i < s.len() && s[i] is Some && k == i + shift(g, i))
}
pub open spec fn live_positions<T>(g: Seq<(int, int)>, s: Seq<Option<T>>) -> bool {
    forall|k: int| 0 <= k < g.len() ==> 0 <= (#[trigger] g[k]).0 < s.len() && s[g[k].0] is Some
}
'''

SPEC3 = r'''
/// C03, compaction clause: if every stored id is moved the way Handle::reindex moves handles, the id map still points,
/// for every id, at the live item carrying it - and at nothing else
pub proof fn lemma_compaction_keeps_ids<T: Storable>(s: Seq<Option<T>>, r: Seq<Option<T>>, g: Seq<(int, int)>, m: Map<Seq<char>, T::HandleType>, m2: Map<Seq<char>, T::HandleType>)
    requires
        idmap_wf(s, Some(m)),
        moved(s, r, g),
        m2.dom() == m.dom(),
        forall|id: Seq<char>| #[trigger] m.contains_key(id) ==> m2[id].idx() as int == m[id].idx() as int + shift(g, m[id].idx() as int),
    ensures
        idmap_wf(r, Some(m2)),
{
    assert forall|k: int| 0 <= k < r.len() && (#[trigger] r[k]) is Some implies r[k].unwrap().spec_handle() is Some && r[k].unwrap().spec_handle().unwrap().idx() == k by {
        let i = choose|i: int| 0 <= i < s.len() && s[i] is Some && k == i + shift(g, i);
        assert(s[i] is Some);
    }
    assert forall|id: Seq<char>| #[trigger] m2.contains_key(id) implies m2[id].idx() < r.len() && r[m2[id].idx() as int] is Some && r[m2[id].idx() as int].unwrap().spec_id() == Some(id) by {
        assert(m.contains_key(id));
        let i = m[id].idx() as int;
        assert(s[i] is Some);
    }
    assert forall|k: int| 0 <= k < r.len() && (#[trigger] r[k]) is Some && r[k].unwrap().spec_id() is Some implies
        m2.contains_key(r[k].unwrap().spec_id().unwrap()) && m2[r[k].unwrap().spec_id().unwrap()].idx() == k by {
        let i = choose|i: int| 0 <= i < s.len() && s[i] is Some && k == i + shift(g, i);
        assert(s[i] is Some);
        let id = s[i].unwrap().spec_id().unwrap();
        assert(m.contains_key(id) && m[id].idx() == i);
    }
}
'''

TRUSTED3 = r'''
/// R-outline: stands for the statement `for handle in self.data.values_mut() { *handle = handle.reindex(gaps); }` of
/// IdMap::reindex (HashMap::values_mut is outside Verus).  Trusted: every value is replaced by what Handle::reindex
/// (verified above) returns for it; the keys are untouched.
#[verifier::external_body]
pub fn vx_reindex_values<H: Handle>(data: &mut VxStrMap<H>, gaps: &[(H, isize)])
    requires gaps_wf(gv(gaps@)),
             forall|id: Seq<char>| #[trigger] old(data)@.contains_key(id) ==> old(data)@[id].idx() as int + shift(gv(gaps@), old(data)@[id].idx() as int) >= 0,
    ensures final(data)@.dom() == old(data)@.dom(),
            forall|id: Seq<char>| #[trigger] old(data)@.contains_key(id) ==> final(data)@[id].idx() as int == old(data)@[id].idx() as int + shift(gv(gaps@), old(data)@[id].idx() as int),
{ unimplemented!() }
'''

TRUSTED2 = r'''
/// R-outline: stands for `gaps.iter().map(|x| x.1).sum()`; the body is that expression (iterator adapters are outside Verus)
#[verifier::external_body]
pub fn vx_sum_deltas<H: Handle>(gaps: &[(H, isize)]) -> (r: isize)
    requires gaps_wf(gv(gaps@)),
    ensures r as int == total(gv(gaps@)),
{ gaps.iter().map(|x| x.1).sum() }
'''

REINDEX_VEC_STEP = '''proof {
                let n = vx_it.index@ as int; let s = vx_s; let g = gv(gaps@);
                lemma_tombs_bound(s, n); lemma_tombs_bound(s, n + 1);
                if s[n] is Some {
                    assert(newstore@ == vx_n0.push(newstore@.last()));
                    assert forall|k: int| 0 <= k < newstore@.len() && (#[trigger] newstore@[k]) is Some implies exists|i: int| 0 <= i < n + 1 && s[i] is Some && k == i + shift(g, i) by {
                        if k < vx_n0.len() { assert(vx_n0[k] is Some); let i = choose|i: int| 0 <= i < n && s[i] is Some && k == i + shift(g, i); assert(i < n + 1); }
                        else { assert(s[n] is Some && k == n + shift(g, n)); }
                    }
                } else {
                    assert(newstore@ == vx_n0);
                }
            }'''

GAPS_STEP = '''proof {
                let n = vx_it.index@ as int; let s = self.rview(); let g0 = gv(vx_g0); let g1 = gv(gaps@);
                lemma_tombs_bound(s, n); lemma_tombs_bound(s, n + 1);
                if gaps@.len() > vx_g0.len() {
                    let e = (n, vx_size0 as int);
                    assert(g1 =~= g0.push(e));
                    lemma_total_push(g0, e);
                    lemma_shift_all(g0, n);
                    assert forall|i: int| 0 <= i < s.len() && i < n + 1 && (#[trigger] s[i]) is Some implies shift(g1, i) == -tombs(s, i) by { lemma_shift_push(g0, e, i); }
                    assert forall|i: int| 0 <= i < g1.len() implies g1[i].1 < 0 && g1[i].0 >= 0 && g1[i].0 + #[trigger] total(g1.take(i + 1)) >= 0 by {
                        if i < g0.len() { assert(g1.take(i + 1) == g0.take(i + 1)); assert(g1[i] == g0[i]); assert(g0[i].0 + total(g0.take(i + 1)) >= 0); }
                        else { assert(g1.take(i + 1) == g1); assert(g1[i] == e); assert(total(g1) == total(g0) + vx_size0 as int); assert(total(g0) + vx_size0 as int == -tombs(s, n)); }
                    }
                    assert forall|i: int| 0 <= i < g1.len() implies -0x1_0000_0000 <= #[trigger] total(g1.take(i)) && total(g1.take(i + 1)) >= -0x1_0000_0000 by {
                        assert(g1.take(i) == g0.take(i));
                        if i < g0.len() { assert(g1.take(i + 1) == g0.take(i + 1)); assert(total(g0.take(i)) >= -0x1_0000_0000 && total(g0.take(i + 1)) >= -0x1_0000_0000); }
                        else { assert(g0.take(i) =~= g0); assert(g1.take(i + 1) == g1); assert(total(g1) == total(g0) + vx_size0 as int); }
                    }
                } else {
                    assert(g1 == g0);
                    if s[n] is Some { lemma_shift_all(g0, n); }
                }
            }'''


def build():
    u = Unit('u_reindex', serves=['C03'])
    common.target64(u)
    common.std_specs(u)
    u.spec(SPEC0, 'contracts/u_reindex.py:SPEC0')
    u.canary('canary_u_reindex', '''
/// vacuity guard: false by one token (a gap recorded at position 1 does apply to position 1); must FAIL
pub proof fn canary_u_reindex()
    ensures shift(seq![(1int, -1int)], 1) == 0,
{
    reveal_with_fuel(shift, 2);
}
''')
    reindex = Fn('reindex', props=P, ret='r',
                 # R-continue: `break` ends the scan at the first gap above the handle; Verus' for-loops have no break: a done-flag skips the rest
                 rewrites=[('R-forname', r'for \(gaphandle, gapdelta\) in gaps\.iter\(\) \{', 'let mut vx_done = false; for vx_g in vx_it: gaps.iter() { let (gaphandle, gapdelta) = (&vx_g.0, &vx_g.1); if !vx_done {'),
                           ('R-continue', r'break;', 'vx_done = true; proof { vx_k = vx_it.index@ as int; }'),
                           ('R-continue', r'(?s)(vx_k = vx_it\.index@ as int; \}\s*\}\s*)\}', r'\1} }'),
                           ('R-deref', r'delta (\+?=) \*?gapdelta;', r'delta \1 *gapdelta;')],
                 requires=[('gaps_wf', f'gaps_wf({GV})'),
                           ('in_range', f'self.idx() as int + shift({GV}, self.idx() as int) >= 0')],
                 ensures=[('shifted', f'r.idx() as int == self.idx() as int + shift({GV}, self.idx() as int)')],
                 prologue='proof { Self::hmax_bound(); } let ghost mut vx_k: int = 0;',
                 before=[(r're:Self::new\(\(self\.as_usize\(\) as isize', REINDEX_END, None, 'shifted'),
                         (r're:delta \+?= \*gapdelta;', 'proof { let g = ' + GV + '; let i = vx_it.index@ as int; lemma_shift_take(g, i, self.idx() as int); assert(g[i].1 == *gapdelta as int); assert(total(g.take(i)) >= -0x1_0000_0000 && total(g.take(i + 1)) >= -0x1_0000_0000); }')],
                 loops={0: dict(invariant=[
                     ('wf', f'gaps_wf({GV})'),
                     ('nonpositive', 'delta <= 0'),
                     ('done', f'vx_done ==> 0 <= vx_k < vx_it.index@ && gaps@[vx_k].0.idx() > self.idx() && delta as int == total({GV}.take(vx_k)) && forall|j: int| 0 <= j < vx_k ==> gaps@[j].0.idx() <= self.idx()'),
                     ('not_done', f'!vx_done ==> delta as int == total({GV}.take(vx_it.index@ as int)) && forall|j: int| 0 <= j < vx_it.index@ ==> gaps@[j].0.idx() <= self.idx()'),
                 ], at_end=REINDEX_STEP, at_end_label='shifted')})
    common.handle_trait(u, P, with_reindex=True, reindex_fn=reindex)
    sc.emit_store_layer(u, P)
    u.spec(SPEC1, 'contracts/u_reindex.py:SPEC1')
    u.spec(SPEC2, 'contracts/u_reindex.py:SPEC2')
    u.trusted_text(TRUSTED2, 'external_body vx_sum_deltas: gaps.iter().map(|x| x.1).sum() is the sum of the deltas (R-outline)')
    u.spec(SPEC3, 'contracts/u_reindex.py:SPEC3')
    u.trusted_text(TRUSTED3, 'external_body vx_reindex_values: the values_mut loop of IdMap::reindex applies Handle::reindex to every value (R-outline; the loop itself is not verified)')
    u.impl(ST, 'impl<HandleType> IdMap<HandleType>', [
        Fn('reindex', props=P,
           rewrites=[('R-outline', r'(?s)for handle in self\.data\.values_mut\(\) \{\s*\*handle = handle\.reindex\(gaps\);\s*\}', 'vx_reindex_values(&mut self.data, gaps);')],
           requires=[('gaps_wf', 'gaps_wf(gv(gaps@))'),
                     ('in_range', 'forall|id: Seq<char>| #[trigger] old(self).data@.contains_key(id) ==> old(self).data@[id].idx() as int + shift(gv(gaps@), old(self).data@[id].idx() as int) >= 0')],
           ensures=[('keys', 'final(self).data@.dom() == old(self).data@.dom()'),
                    ('values_shifted', 'forall|id: Seq<char>| #[trigger] old(self).data@.contains_key(id) ==> final(self).data@[id].idx() as int == old(self).data@[id].idx() as int + shift(gv(gaps@), old(self).data@[id].idx() as int)'),
                    ('flags', 'final(self).resolve_temp_ids == old(self).resolve_temp_ids')]),
    ], verus_header='impl<HandleType: Handle> IdMap<HandleType>')
    RV = 'self.rview()'
    u.impl(ST, 'pub(crate) trait ReindexStore<T>', [
        Fn('gaps', props=P, ret='r', decl_only=True,
           requires=[('knows', f'knows_handles({RV})'), ('fits', f'{RV}.len() <= T::HandleType::hmax()')],
           ensures=[('describes', f'gaps_describe(gv(r@), {RV})'),
                    ('live_positions', f'live_positions(gv(r@), {RV})')]),
        Fn('reindex', props=P, ret='r', decl_only=True,
           requires=[('knows', f'knows_handles({RV})'), ('fits', f'{RV}.len() <= T::HandleType::hmax()'),
                     ('gaps', f'gaps_describe(gv(gaps@), {RV}) && live_positions(gv(gaps@), {RV})')],
           ensures=[('moved', f'moved({RV}, r.rview(), gv(gaps@))'),
                    ('identity_without_gaps', f'gaps@.len() == 0 ==> r.rview() == {RV}'),
                    ('dense', f'gaps@.len() > 0 ==> forall|k: int| 0 <= k < r.rview().len() ==> (#[trigger] r.rview()[k]) is Some')]),
    ], verus_header='pub trait ReindexStore<T: Storable>: Sized', extra='\n    spec fn rview(&self) -> Seq<Option<T>>;\n')
    u.impl(ST, 'impl<T> ReindexStore<T> for Vec<Option<T>>', [
        Fn('gaps', props=P, ret='r',
           rewrites=[('R-forname', r'for item in self\.iter\(\) \{', 'for item in vx_it: self.iter() { let ghost vx_g0 = gaps@; let ghost vx_size0 = gapsize;'),
                     ('R-expect', r'\.expect\("must have handle"\)', '.unwrap()')],
           prologue='proof { T::HandleType::hmax_bound(); }',
           before=[(r're:(?m)^ *gaps\s*\}\s*\Z', 'proof { assert(self@.take(self@.len() as int) =~= self@); }')],
           loops={0: dict(invariant=[
               ('knows', 'knows_handles(self@) && self@.len() <= T::HandleType::hmax() <= 0xFFFF_FFFF'),
               ('size', '-(vx_it.index@ as int) <= gapsize <= 0'),
               ('balance', 'total(gv(gaps@)) + gapsize == -tombs(self@, vx_it.index@ as int)'),
               ('wf', 'gaps_wf(gv(gaps@))'),
               ('positions', 'forall|k: int| 0 <= k < gaps@.len() ==> 0 <= (#[trigger] gv(gaps@)[k]).0 < vx_it.index@ && self@[gv(gaps@)[k].0] is Some'),
               ('describes', 'forall|i: int| 0 <= i < vx_it.index@ && (#[trigger] self@[i]) is Some ==> shift(gv(gaps@), i) == -tombs(self@, i)'),
           ], at_end=GAPS_STEP, at_end_label='describes')}),
        Fn('reindex', props=P, ret='r',
           rewrites=[('R-outline', r'gaps\.iter\(\)\.map\(\|x\| x\.1\)\.sum\(\)', 'vx_sum_deltas(gaps)'),
                     ('R-forname', r'for item in self \{', 'for item in vx_it: self { let ghost vx_n0 = newstore@;'),
                     ('R-expect', r'\.expect\("handle must exist"\)', '.unwrap()')],
           prologue='let ghost vx_s = self@; proof { T::HandleType::hmax_bound(); lemma_tombs_bound(self@, self@.len() as int); if gaps@.len() > 0 { let g = gv(gaps@); let p = g[g.len() - 1].0; assert(g.take(g.len() as int) =~= g); lemma_shift_all(g, p); lemma_tombs_bound(self@, p); } else { lemma_shift_none(gv(gaps@), 0); assert forall|i: int| shift(gv(gaps@), i) == 0 by { lemma_shift_none(gv(gaps@), i); } } }',
           before=[(r're:(?m)^ *self\s*\}\s*\Z', 'proof { assert forall|i: int| 0 <= i < vx_s.len() && (#[trigger] vx_s[i]) is Some implies vx_s[i].unwrap().same_content(&vx_s[i].unwrap()) by { T::same_content_refl(vx_s[i].unwrap()); } }', None, 'moved'),
                   ('return Vec::new();', 'proof { let g = gv(gaps@); let p = g[g.len() - 1].0; assert(vx_s[p] is Some); assert(shift(g, p) == -tombs(vx_s, p)); assert(false); }', None, 'moved'),
                   ('return newstore;', 'proof { assert(vx_s.len() == vx_s.len()); }', None, 'moved'),
                   (r're:let newhandle = handle\.reindex\(gaps\);', 'proof { assert(gv(gaps@) =~= ' + GV + '); lemma_tombs_bound(vx_s, vx_it.index@ as int); }')],
           loops={0: dict(invariant=[
               ('link', 'vx_s == self@ && 0 <= vx_it.index@ <= vx_s.len()'),
               ('pre', 'knows_handles(vx_s) && vx_s.len() <= T::HandleType::hmax() && gaps_describe(gv(gaps@), vx_s) && gaps@.len() > 0'),
               ('count', 'newstore@.len() == vx_it.index@ - tombs(vx_s, vx_it.index@ as int)'),
               ('dense', 'forall|k: int| 0 <= k < newstore@.len() ==> (#[trigger] newstore@[k]) is Some'),
               ('moved_so_far', '''forall|i: int| 0 <= i < vx_it.index@ && (#[trigger] vx_s[i]) is Some ==> {
                    let k = i + shift(gv(gaps@), i);
                    0 <= k < newstore@.len() && newstore@[k] is Some && newstore@[k].unwrap().spec_id() == vx_s[i].unwrap().spec_id() && vx_s[i].unwrap().same_content(&newstore@[k].unwrap())
                    && newstore@[k].unwrap().spec_handle() is Some && newstore@[k].unwrap().spec_handle().unwrap().idx() == k }'''),
               ('onto', 'forall|k: int| 0 <= k < newstore@.len() && (#[trigger] newstore@[k]) is Some ==> exists|i: int| 0 <= i < vx_it.index@ && vx_s[i] is Some && k == i + shift(gv(gaps@), i)'),
           ], at_end=REINDEX_VEC_STEP, at_end_label='moved')}),
    ], verus_header='impl<T: Storable> ReindexStore<T> for Vec<Option<T>>', extra='\n    open spec fn rview(&self) -> Seq<Option<T>> { self@ }\n')
    return u

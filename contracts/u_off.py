"""U-off: cursor / offset arithmetic.  Serves C04 (offsets resolve exactly or are rejected),
C19 (no panic on any deserialised cursor), C14 (nothing is inserted for an offset that is rejected)."""
from vx.gen import Unit, Fn
from . import common

P = ['C04', 'C19']
P4 = ['C04']

SPEC = r'''
/// absolute position denoted by a cursor in a text of length L (None: denotes nothing)
pub open spec fn abs_pos(c: Cursor, len: int) -> Option<int> {
    match c {
        Cursor::BeginAligned(x) => Some(x as int),
        Cursor::EndAligned(x) => if x <= 0 && -x <= len { Some(len + x) } else { None },
    }
}

/// the property's acceptance condition: the offset denotes a range 0 <= begin <= end <= len
pub open spec fn accept(o: Offset, len: int) -> bool {
    abs_pos(o.begin, len) is Some && abs_pos(o.end, len) is Some
    && 0 <= abs_pos(o.begin, len).unwrap() <= abs_pos(o.end, len).unwrap() <= len
}

/// every offset the library reports is well formed: end-aligned cursors are never positive
pub open spec fn wf_cursor(c: Cursor) -> bool {
    match c { Cursor::BeginAligned(_) => true, Cursor::EndAligned(x) => x <= 0 }
}
pub open spec fn wf_offset(o: Offset) -> bool { wf_cursor(o.begin) && wf_cursor(o.end) }

pub open spec fn mode_of(o: Offset) -> OffsetMode {
    match (o.begin, o.end) {
        (Cursor::BeginAligned(_), Cursor::BeginAligned(_)) => OffsetMode::BeginBegin,
        (Cursor::BeginAligned(_), Cursor::EndAligned(_)) => OffsetMode::BeginEnd,
        (Cursor::EndAligned(_), Cursor::BeginAligned(_)) => OffsetMode::EndBegin,
        (Cursor::EndAligned(_), Cursor::EndAligned(_)) => OffsetMode::EndEnd,
    }
}

pub open spec fn wf_sel(t: TextSelection) -> bool { t.begin <= t.end }
'''

STORE_STUBS = r'''
/// R-opaque: the store is only used for handle lookups
#[verifier::external_body]
pub struct AnnotationStore { _opaque: usize }

impl AnnotationStore {
    /// ghost: the live resource / annotation under a handle
    pub uninterp spec fn res(&self, h: TextResourceHandle) -> Option<TextResource>;
    pub uninterp spec fn ann(&self, h: AnnotationHandle) -> Option<Annotation>;
}
impl TextResource {
    /// ghost: the live text selection under a handle
    pub uninterp spec fn sel(&self, h: TextSelectionHandle) -> Option<TextSelection>;
}

/// stands for StoreFor<T>::get(handle): Ok(&item) iff the handle refers to a live item
pub trait VxGet<H, T> {
    spec fn lookup(&self, h: H) -> Option<T>;
    fn get(&self, h: H) -> (r: Result<&T, StamError>)
        ensures r is Ok <==> self.lookup(h) is Some, r is Ok ==> *r->Ok_0 == self.lookup(h).unwrap();
}
impl VxGet<TextResourceHandle, TextResource> for AnnotationStore {
    open spec fn lookup(&self, h: TextResourceHandle) -> Option<TextResource> { self.res(h) }
    #[verifier::external_body]
    fn get(&self, h: TextResourceHandle) -> (r: Result<&TextResource, StamError>) { unimplemented!() }
}
impl VxGet<AnnotationHandle, Annotation> for AnnotationStore {
    open spec fn lookup(&self, h: AnnotationHandle) -> Option<Annotation> { self.ann(h) }
    #[verifier::external_body]
    fn get(&self, h: AnnotationHandle) -> (r: Result<&Annotation, StamError>) { unimplemented!() }
}
impl VxGet<TextSelectionHandle, TextSelection> for TextResource {
    open spec fn lookup(&self, h: TextSelectionHandle) -> Option<TextSelection> { self.sel(h) }
    #[verifier::external_body]
    fn get(&self, h: TextSelectionHandle) -> (r: Result<&TextSelection, StamError>) { unimplemented!() }
}

/// `.expect(msg)` on a lookup result: panics unless Ok - so Ok is an obligation
#[verifier::external_body]
pub fn vx_expect<T>(r: Result<T, StamError>, msg: &str) -> (v: T)
    requires r is Ok,
    ensures v == r->Ok_0,
{ match r { Ok(v) => v, Err(_) => panic!() } }
'''

PARSE_STUBS = r'''
#[verifier::external_type_specification]
#[verifier::external_body]
pub struct ExParseIntError(std::num::ParseIntError);

pub assume_specification [isize::from_str_radix] (s: &str, radix: u32) -> (r: Result<isize, std::num::ParseIntError>);
pub assume_specification [usize::from_str_radix] (s: &str, radix: u32) -> (r: Result<usize, std::num::ParseIntError>);

#[verifier::external_body]
pub fn vx_starts_with_char(s: &str, c: char) -> bool { s.starts_with(c) }
#[verifier::external_body]
pub fn vx_strip_prefix_char<'a>(s: &'a str, c: char) -> Option<&'a str> { s.strip_prefix(c) }
/// R-closure-msg: stands for `|_e| StamError::InvalidCursor(cursor.to_owned(), "..")`
#[verifier::external_body]
pub fn vx_invalid_cursor(e: std::num::ParseIntError) -> StamError { unimplemented!() }
'''

VX_MSG = r'''
/// R-err: stands for a `format!(..)` error-message argument; the text is never inspected by a contract
#[verifier::external_body]
pub fn vx_msg() -> String { String::new() }
'''


def build(name='u_off', selector_variants=('TextSelector', 'AnnotationSelector', 'ResourceSelector'), extra_errors=()):
    u = Unit(name, serves=['C04', 'C19', 'C14'])
    common.target64(u)
    common.int_specs(u)
    u.trusted_text(VX_MSG, 'external_body vx_msg(): error message text (R-err)')
    u.item('src/types.rs', 'enum', 'Cursor', keep_derives=['Debug', 'Clone', 'Copy', 'PartialEq'])
    u.trusted_text('''
/// R-derive-eq: `#[derive(PartialEq)]` on Cursor is structural equality (trusted)
impl vstd::std_specs::cmp::PartialEqSpecImpl for Cursor {
    open spec fn obeys_eq_spec() -> bool { true }
    open spec fn eq_spec(&self, other: &Self) -> bool { *self == *other }
}
''', 'derived PartialEq on Cursor is structural equality (R-derive-eq)')
    u.item('src/selector.rs', 'struct', 'Offset', keep_derives=['Clone', 'Copy', 'PartialEq'])
    u.item('src/selector.rs', 'enum', 'OffsetMode', keep_derives=['Clone', 'Copy', 'PartialEq'])
    u.item('src/error.rs', 'enum', 'StamError', keep_variants=['CursorOutOfBounds', 'InvalidOffset', 'InvalidCursor'] + list(extra_errors), keep_derives=['Debug'])
    common.handle_trait(u, P)
    common.handle_impl(u, 'TextSelectionHandle', P)
    u.item('src/textselection.rs', 'struct', 'TextSelection', keep_derives=['Clone', 'Copy'])
    u.spec(SPEC, 'contracts/u_off.py:SPEC')

    # ------------------------------------------------------------------ Cursor / Offset
    u.impl('src/types.rs', 'impl TryFrom<isize> for Cursor', [
        Fn('try_from', emit_name='try_from_isize', props=P, ret='r', sig_rewrites=[('R-inherent', r'Self::Error', 'StamError')],
           ensures=[('ok_iff', 'r is Ok <==> cursor <= 0'), ('value', 'r is Ok ==> r->Ok_0 == Cursor::EndAligned(cursor)')]),
    ], verus_header='impl Cursor', )
    u.trusted_text(PARSE_STUBS, 'external: isize/usize::from_str_radix (no panic, any Result), vx_starts_with_char / vx_strip_prefix_char (str::starts_with / strip_prefix with a char), vx_invalid_cursor (error closure)')
    u.impl('src/types.rs', 'impl TryFrom<&str> for Cursor', [
        Fn('try_from', emit_name='try_from_str', props=['C19'], ret='r', sig_rewrites=[('R-inherent', r'Self::Error', 'StamError')],
           rewrites=[('R-outline', r'cursor\.starts_with\(\'-\'\)', "vx_starts_with_char(cursor, '-')", 'opt'),
                     ('R-outline', r'cursor\.strip_prefix\(\'-\'\)', "vx_strip_prefix_char(cursor, '-')", 'opt'),
                     ('R-closure-msg', r'\.map_err\(\|_e\| \{\s*StamError::InvalidCursor\([^;]*?\)\s*\}\)', '.map_err(vx_invalid_cursor)', 'opt'),
                     ('R-inherent', r'Cursor::try_from\(', 'Cursor::try_from_isize(', 'opt'),
                     ('R-inherent', r'Cursor::from\(cursor\)', 'Cursor::BeginAligned(cursor)', 'opt')],
           ensures=[('wellformed', 'r is Ok ==> wf_cursor(r->Ok_0)')]),
    ], verus_header='impl Cursor')
    u.impl('src/types.rs', 'impl Cursor', [
        # total: a shift that leaves the range of positions of the cursor's kind (below 0 / above usize::MAX for a begin-aligned
        # cursor, above 0 / below isize::MIN for an end-aligned one) is an error, never an overflow
        Fn('shift', props=P4 + ['C19'], ret='r',
           ensures=[('wf', 'wf_cursor(*self) && r is Ok ==> wf_cursor(r->Ok_0)'),
                    ('value', '''r is Ok ==> match (*self, r->Ok_0) {
                        (Cursor::BeginAligned(c), Cursor::BeginAligned(n)) => n == c + distance,
                        (Cursor::EndAligned(c), Cursor::EndAligned(n)) => n == c + distance,
                        _ => false }'''),
                    ('ok_iff', '''wf_cursor(*self) ==> (r is Ok <==> match *self {
                        Cursor::BeginAligned(c) => 0 <= c + distance <= usize::MAX,
                        Cursor::EndAligned(c) => isize::MIN <= c + distance <= 0 })''')]),
    ])
    u.impl('src/selector.rs', 'impl Offset', [
        Fn('new', props=P4, ret='r', ensures=[('fields', 'r.begin == begin && r.end == end')]),
        Fn('simple', props=P4, ret='r', ensures=[('fields', 'r.begin == Cursor::BeginAligned(begin) && r.end == Cursor::BeginAligned(end)')]),
        Fn('whole', props=P4, ret='r', ensures=[('fields', 'r.begin == Cursor::BeginAligned(0) && r.end == Cursor::EndAligned(0)')]),
        # total: an offset that denotes no range (end before begin, end-aligned cursor above zero, mixed alignment) has no length
        Fn('len', props=P4 + ['C19'], ret='r',
           ensures=[('value', '''match (self.begin, self.end) {
                (Cursor::BeginAligned(b), Cursor::BeginAligned(e)) => r == (if b <= e { Some((e - b) as usize) } else { None }),
                (Cursor::EndAligned(b), Cursor::EndAligned(e)) => r == (if b <= e && e <= 0 { Some((e - b) as usize) } else { None }),
                _ => r is None }''')]),
        # shifting an offset shifts both cursors by the same distance, keeps each cursor's alignment, and is refused
        # exactly when one of the two cursors would leave the range of its kind (checked against Cursor::shift's contract)
        Fn('shift', props=P4, ret='r',
           ensures=[('value', '''r is Ok ==> match (self.begin, (r->Ok_0).begin) {
                        (Cursor::BeginAligned(c), Cursor::BeginAligned(n)) => n == c + distance,
                        (Cursor::EndAligned(c), Cursor::EndAligned(n)) => n == c + distance,
                        _ => false } && match (self.end, (r->Ok_0).end) {
                        (Cursor::BeginAligned(c), Cursor::BeginAligned(n)) => n == c + distance,
                        (Cursor::EndAligned(c), Cursor::EndAligned(n)) => n == c + distance,
                        _ => false }'''),
                    ('ok_iff', '''wf_cursor(self.begin) && wf_cursor(self.end) ==> (r is Ok <==> (match self.begin {
                        Cursor::BeginAligned(c) => 0 <= c + distance <= usize::MAX,
                        Cursor::EndAligned(c) => isize::MIN <= c + distance <= 0 }) && (match self.end {
                        Cursor::BeginAligned(c) => 0 <= c + distance <= usize::MAX,
                        Cursor::EndAligned(c) => isize::MIN <= c + distance <= 0 }))'''),
                    ('len_kept', '''r is Ok ==> (self.begin is BeginAligned <==> self.end is BeginAligned) ==>
                        match ((r->Ok_0).begin, (r->Ok_0).end, self.begin, self.end) {
                            (Cursor::BeginAligned(nb), Cursor::BeginAligned(ne), Cursor::BeginAligned(b), Cursor::BeginAligned(e)) => ne - nb == e - b,
                            (Cursor::EndAligned(nb), Cursor::EndAligned(ne), Cursor::EndAligned(b), Cursor::EndAligned(e)) => ne - nb == e - b,
                            _ => false }''')]),
        Fn('is_simple', props=P4, ret='r',
           ensures=[('iff', 'r <==> (self.begin is BeginAligned && self.end is BeginAligned)')]),
        Fn('is_simple_or_whole', props=P4, ret='r',
           ensures=[('iff', 'r <==> ((self.begin is BeginAligned && self.end is BeginAligned) || (self.begin == Cursor::BeginAligned(0) && self.end == Cursor::EndAligned(0)))')]),
    ])
    # R-inherent: Default::default for Offset emitted as an inherent method; the default offset selects the whole target
    u.impl('src/selector.rs', 'impl Default for Offset', [
        Fn('default', emit_name='default_offset', props=P4, ret='r', ensures=[('whole', 'r.begin == Cursor::BeginAligned(0) && r.end == Cursor::EndAligned(0)')]),
    ], verus_header='impl Offset')
    u.impl('src/selector.rs', 'impl From<&Offset> for OffsetMode', [
        Fn('from', props=P4, ret='r', ensures=[('mode', 'r == mode_of(*offset)')]),
    ], verus_header='impl OffsetMode')

    # ------------------------------------------------------------------ Text trait defaults (generic over textlen)
    TEXT_GHOST = """
    /// ghost: absolute position of position 0 of this text in its resource
    spec fn base(&self) -> usize;
    /// ghost: length in codepoints
    spec fn tlen(&self) -> usize;
"""
    BAC_ENS = [('ok_iff', 'r is Ok <==> abs_pos(*cursor, LEN as int) is Some'),
               ('value', 'r is Ok ==> r->Ok_0 as int == abs_pos(*cursor, LEN as int).unwrap()')]
    u.impl('src/text.rs', "pub trait Text<'store, 'slf>", [
        Fn('text', props=P4, ret='r'),
        Fn('textlen', props=P, ret='r', ensures=[('len', 'r == self.tlen()')]),
        Fn('absolute_cursor', props=P, ret='r', requires=[('no_overflow', 'self.base() + cursor <= usize::MAX')],
           ensures=[('value', 'r == self.base() + cursor')]),
        Fn('beginaligned_cursor', props=P, ret='r',
           ensures=[(l, t.replace('LEN', 'self.tlen()')) for l, t in BAC_ENS]),
        Fn('absolute_offset', props=P4, ret='r',
           requires=[('fits', 'self.base() + self.tlen() <= usize::MAX')],
           # from the property (C04): accepted exactly when the offset denotes a range inside this text, and then the result is
           # that range in absolute coordinates
           ensures=[('accept_iff', 'r is Ok <==> accept(*offset, self.tlen() as int)'),
                    ('value', 'r is Ok ==> r->Ok_0.begin == Cursor::BeginAligned((self.base() + abs_pos(offset.begin, self.tlen() as int).unwrap()) as usize) && r->Ok_0.end == Cursor::BeginAligned((self.base() + abs_pos(offset.end, self.tlen() as int).unwrap()) as usize)')]),
    ], extra=TEXT_GHOST)

    # ------------------------------------------------------------------ TextSelection
    u.spec("""
/// the absolute range denoted by offset o inside container c (only meaningful when accept() holds)
pub open spec fn resolve_in(o: Offset, c: TextSelection) -> (int, int) {
    (c.begin + abs_pos(o.begin, c.end - c.begin).unwrap(), c.begin + abs_pos(o.end, c.end - c.begin).unwrap())
}
pub open spec fn embeds_sel(c: TextSelection, t: TextSelection) -> bool { c.begin <= t.begin && t.end <= c.end }
""", 'contracts/u_off.py:resolve')
    F = 'src/textselection.rs'
    SLEN = '(self.end - self.begin)'
    CLEN_OK = ('container_fits', 'wf_sel(*container) && container.end <= isize::MAX as usize')
    u.impl(F, 'impl TextSelection', [
        Fn('begin', props=P, ret='r', ensures=[('begin', 'r == self.begin')]),
        Fn('end', props=P, ret='r', ensures=[('end', 'r == self.end')]),
        Fn('is_embedded_in', props=P4, ret='r', ensures=[('embedded', 'r == embeds_sel(*container, *self)')], optional=True),
        # from the documentation of the four helpers ("None if they are not embedded") and the property: a cursor is only
        # reported for a selection that lies inside the container
        Fn('relative_begin', props=P4, ret='r',
           ensures=[('value', 'r == (if embeds_sel(*container, *self) { Some((self.begin - container.begin) as usize) } else { None })')]),
        Fn('relative_end', props=P4, ret='r', requires=[('wf_self', 'wf_sel(*self)')],
           ensures=[('value', 'r == (if embeds_sel(*container, *self) { Some((self.end - container.begin) as usize) } else { None })')]),
        Fn('relative_begin_endaligned', props=P4, ret='r', requires=[CLEN_OK, ('self_fits', 'self.begin <= isize::MAX as usize')],
           ensures=[('some_iff', 'r is Some <==> embeds_sel(*container, *self)'),
                    ('value', 'r is Some ==> r.unwrap() == (self.begin - container.begin) - (container.end - container.begin)')]),
        Fn('relative_end_endaligned', props=P4, ret='r', requires=[CLEN_OK, ('wf_self', 'wf_sel(*self)')],
           ensures=[('some_iff', 'r is Some <==> embeds_sel(*container, *self)'),
                    ('value', 'r is Some ==> r.unwrap() == (self.end - container.begin) - (container.end - container.begin)'),
                    ('nonpositive', 'r is Some ==> r.unwrap() <= 0')]),
        Fn('relative_offset', props=P4, ret='r', requires=[CLEN_OK, ('wf_self', 'wf_sel(*self)'), ('self_fits', 'self.end <= isize::MAX as usize')],
           ensures=[('some_iff', 'r is Some <==> embeds_sel(*container, *self)'),
                    ('mode', 'r is Some ==> mode_of(r.unwrap()) == offsetmode'),
                    ('wellformed', 'r is Some ==> wf_offset(r.unwrap())'),
                    ('accepted', 'r is Some ==> accept(r.unwrap(), container.end - container.begin)'),
                    ('re_resolves', 'r is Some ==> resolve_in(r.unwrap(), *container) == (self.begin as int, self.end as int)')]),
        Fn('absolute_offset', props=P, ret='r',
           requires=[('wf_self', 'wf_sel(*self)')],
           ensures=[('accept_iff', f'r is Ok <==> accept(*offset, {SLEN})'),
                    ('value', f'r is Ok ==> r->Ok_0.begin == Cursor::BeginAligned((self.begin + abs_pos(offset.begin, {SLEN}).unwrap()) as usize) && r->Ok_0.end == Cursor::BeginAligned((self.begin + abs_pos(offset.end, {SLEN}).unwrap()) as usize)')]),
        Fn('beginaligned_cursor', props=P, ret='r', requires=[('wf_self', 'wf_sel(*self)')],
           ensures=[(l, t.replace('LEN', SLEN)) for l, t in BAC_ENS]),
        Fn('textselection_by_offset', props=P + ['C14'], ret='r', requires=[('wf_self', 'wf_sel(*self)')],
           ensures=[('accept_iff', f'r is Ok <==> accept(*offset, {SLEN})'),
                    ('range', 'r is Ok ==> (r->Ok_0.begin as int, r->Ok_0.end as int) == resolve_in(*offset, *self)'),
                    ('inside', 'r is Ok ==> wf_sel(r->Ok_0) && embeds_sel(*self, r->Ok_0)'),
                    ('unbound', 'r is Ok ==> r->Ok_0.intid is None')]),
    ])
    u.spec('''
impl vstd::std_specs::convert::FromSpecImpl<&TextSelection> for Offset {
    open spec fn obeys_from_spec() -> bool { true }
    open spec fn from_spec(t: &TextSelection) -> Offset { Offset { begin: Cursor::BeginAligned(t.begin), end: Cursor::BeginAligned(t.end) } }
}
''', 'contracts/u_off.py:from_spec')
    u.impl(F, 'impl From<&TextSelection> for Offset', [
        Fn('from', props=P4, ret='r', ensures=[('simple', 'r.begin == Cursor::BeginAligned(textselection.begin) && r.end == Cursor::BeginAligned(textselection.end)')]),
    ])

    # ------------------------------------------------------------------ TextResource
    R = 'src/resources.rs'
    u.use('use std::collections::BTreeMap;')
    u.item(F, 'struct', 'PositionIndexItem', keep_derives=[],
           rewrites=[('R-smallvec', r'SmallVec<\[\(usize, TextSelectionHandle\); 1\]>', 'Vec<(usize, TextSelectionHandle)>')])
    u.item(F, 'struct', 'PositionIndex', keep_derives=[])
    u.item(R, 'struct', 'TextResource', keep_fields=['text', 'textlen', 'positionindex'], keep_derives=[],
           rewrites=[('R-vis', r'\btext:', 'pub text:'), ('R-vis', r'\btextlen:', 'pub textlen:'), ('R-vis', r'\bpositionindex:', 'pub positionindex:')])
    u.spec("""
impl TextResource {
    /// ghost: the handle under which the range (b, e) is known in the position index, if any
    pub open spec fn known(&self, b: usize, e: usize) -> bool {
        self.positionindex.0@.contains_key(b) && exists|i: int| 0 <= i < self.positionindex.0@[b].begin2end@.len() && (#[trigger] self.positionindex.0@[b].begin2end@[i]).0 == e
    }
    /// ghost: the position index lists handle h for the range (b, e)
    pub open spec fn listed(&self, b: usize, e: usize, h: TextSelectionHandle) -> bool {
        self.positionindex.0@.contains_key(b) && exists|i: int| 0 <= i < self.positionindex.0@[b].begin2end@.len() && (#[trigger] self.positionindex.0@[b].begin2end@[i]) == (e, h)
    }
}
/// a cursor that resolves to a position of a text of that length (what beginaligned_cursor accepts)
pub open spec fn abs_cursor_ok(c: Cursor, len: int) -> bool { abs_pos(c, len) is Some }
""", 'contracts/u_off.py:known')
    u.impl(R, "impl<'store> Text<'store, 'store> for TextResource", [
        Fn('text', props=P4, ret='r'),
        Fn('textlen', props=P, ret='r'),
        Fn('absolute_cursor', props=P, ret='r'),
    ], extra="""
    open spec fn base(&self) -> usize { 0 }
    open spec fn tlen(&self) -> usize { self.textlen }
""")
    RES_ENS = [('accept_iff', 'r is Ok <==> accept(*offset, self.textlen as int)'),
               ('range', 'r is Ok ==> r->Ok_0.begin as int == abs_pos(offset.begin, self.textlen as int).unwrap() && r->Ok_0.end as int == abs_pos(offset.end, self.textlen as int).unwrap()'),
               ('wf', 'r is Ok ==> wf_sel(r->Ok_0) && r->Ok_0.end <= self.textlen')]
    u.impl(R, 'impl TextResource', [
        Fn('known_textselection', props=P4 + ['C06'], ret='r',
           rewrites=[('R-forname', r'for \(end2, handle\) in beginitem\.begin2end\.iter\(\)', 'for (end2, handle) in vx_it: beginitem.begin2end.iter()')],
           loops={0: dict(invariant=[('cursors', 'abs_pos(offset.begin, self.textlen as int) == Some(begin as int) && abs_pos(offset.end, self.textlen as int) == Some(end as int)'),
                                     ('not_yet', 'forall|j: int| 0 <= j < vx_it.index@ ==> (#[trigger] beginitem.begin2end@[j]).0 != end'),
                                     ('same_item', 'self.positionindex.0@.contains_key(begin) && *beginitem == self.positionindex.0@[begin]')])},
           ensures=[('ok_iff_cursors', 'r is Ok <==> (abs_cursor_ok(offset.begin, self.textlen as int) && abs_cursor_ok(offset.end, self.textlen as int))'),
                    ('some_iff_known', 'r is Ok ==> (r->Ok_0 is Some <==> self.known(abs_pos(offset.begin, self.textlen as int).unwrap() as usize, abs_pos(offset.end, self.textlen as int).unwrap() as usize))'),
                    ('the_listed_handle', 'r is Ok && r->Ok_0 is Some ==> self.listed(abs_pos(offset.begin, self.textlen as int).unwrap() as usize, abs_pos(offset.end, self.textlen as int).unwrap() as usize, r->Ok_0.unwrap())')]),
        Fn('textselection_by_offset', props=P + ['C14'], ret='r',
           ensures=RES_ENS + [('handle_iff_known', 'r is Ok ==> (r->Ok_0.intid is Some <==> self.known(r->Ok_0.begin, r->Ok_0.end))'),
                              ('the_listed_handle', 'r is Ok && r->Ok_0.intid is Some ==> self.listed(r->Ok_0.begin, r->Ok_0.end, r->Ok_0.intid.unwrap())')],
           loops={0: dict(invariant=[('handle_known', 'handle is Some ==> self.listed(begin, end, handle.unwrap())'),
                                     ('complete', 'handle is None ==> forall|j: int| 0 <= j < vx_it.index@ ==> (#[trigger] beginitem.begin2end@[j]).0 != end'),
                                     ('same_item', 'self.positionindex.0@.contains_key(begin) && *beginitem == self.positionindex.0@[begin]')])},
           rewrites=[('R-forname', r'for \(end2, gothandle\) in beginitem\.begin2end\.iter\(\)', 'for (end2, gothandle) in vx_it: beginitem.begin2end.iter()')]),
        Fn('textselection_by_offset_unchecked', props=P + ['C14'], ret='r',
           ensures=RES_ENS + [('unbound', 'r is Ok ==> r->Ok_0.intid is None')]),
    ])

    # ------------------------------------------------------------------ Selector::offset_with_mode (reporting)
    S = 'src/selector.rs'
    common.handle_impl(u, 'TextResourceHandle', P)
    common.handle_impl(u, 'AnnotationHandle', P)
    u.item(S, 'enum', 'Selector', keep_variants=list(selector_variants), keep_derives=[])
    u.item('src/annotation.rs', 'struct', 'Annotation', keep_fields=['target'], keep_derives=[], rewrites=[('R-vis', r'\btarget:', 'pub target:')])
    u.trusted_text(STORE_STUBS, 'external_body AnnotationStore (opaque) with VxGet::get stubs: StoreFor::get(handle) returns the live item under that handle (contract assumed; proved for the generic StoreFor::get in unit u_store); Result::expect; str::len is an uninterpreted byte length')
    u.impl('src/annotation.rs', 'impl Annotation', [
        Fn('target', props=P4, ret='r', ensures=[('target', '*r == self.target')]),
    ])
    u.spec('''
/// every handle stored in a selector refers to a live item, and stored text selections are well formed and inside their resource
/// the text selection a selector carries itself (a text selector, or an annotation selector with text)
pub open spec fn target_text(sel: Selector) -> Option<(TextResourceHandle, TextSelectionHandle)> {
    match sel { Selector::TextSelector(r, t, _) => Some((r, t)), Selector::AnnotationSelector(_, Some((r, t, _))) => Some((r, t)), _ => None }
}
pub open spec fn selector_valid(sel: Selector, store: &AnnotationStore) -> bool {
    match sel {
        Selector::TextSelector(res, tsel, _) => store.res(res) is Some && store.res(res).unwrap().sel(tsel) is Some
            && wf_sel(store.res(res).unwrap().sel(tsel).unwrap()) && store.res(res).unwrap().sel(tsel).unwrap().end <= store.res(res).unwrap().textlen
            && store.res(res).unwrap().textlen <= isize::MAX as usize,
        Selector::AnnotationSelector(a, Some((res, tsel, _))) => store.ann(a) is Some && store.res(res) is Some && store.res(res).unwrap().sel(tsel) is Some
            && wf_sel(store.res(res).unwrap().sel(tsel).unwrap()) && store.res(res).unwrap().sel(tsel).unwrap().end <= isize::MAX as usize,
        _ => true,
    }
}
''', 'contracts/u_off.py:selector_valid')
    u.impl(S, 'impl Selector', [
        Fn('textselection', props=P4, ret='r',
           requires=[('valid', 'selector_valid(*self, store)')],
           ensures=[('value', '''match *self {
                Selector::TextSelector(res, tsel, _) => r is Some && *r.unwrap() == store.res(res).unwrap().sel(tsel).unwrap(),
                Selector::AnnotationSelector(_, Some((res, tsel, _))) => r is Some && *r.unwrap() == store.res(res).unwrap().sel(tsel).unwrap(),
                _ => r is None }''')]),
        Fn('offset_with_mode', props=P4, ret='r',
           requires=[('valid', 'selector_valid(*self, store)'),
                     ('parent_valid', '''match *self { Selector::AnnotationSelector(a, Some(_)) => selector_valid(store.ann(a).unwrap().target, store), _ => true }''')],
           ensures=[('text_selector', '''match *self {
                Selector::TextSelector(res, tsel, stored_mode) => {
                    let t = store.res(res).unwrap().sel(tsel).unwrap();
                    let len = store.res(res).unwrap().textlen as int;
                    r is Some
                    && mode_of(r.unwrap()) == (match override_mode { Some(m) => m, None => stored_mode })
                    && wf_offset(r.unwrap())
                    && accept(r.unwrap(), len)
                    && abs_pos(r.unwrap().begin, len) == Some(t.begin as int)
                    && abs_pos(r.unwrap().end, len) == Some(t.end as int)
                },
                _ => true }'''),
                    ('annotation_selector', '''match *self {
                Selector::AnnotationSelector(a, Some((res, tsel, stored_mode))) => {
                    let t = store.res(res).unwrap().sel(tsel).unwrap();
                    match target_text(store.ann(a).unwrap().target) {
                        Some((pres, ptsel)) => {
                            let parent = store.res(pres).unwrap().sel(ptsel).unwrap();
                            (r is Some <==> embeds_sel(parent, t))
                            && (r is Some ==> mode_of(r.unwrap()) == (match override_mode { Some(m) => m, None => stored_mode })
                                && wf_offset(r.unwrap()) && accept(r.unwrap(), parent.end - parent.begin)
                                && resolve_in(r.unwrap(), parent) == (t.begin as int, t.end as int))
                        },
                        None => r is None,
                    }
                },
                _ => true }'''),
                    ('others', '''match *self { Selector::TextSelector(..) => true, Selector::AnnotationSelector(_, Some(_)) => true, _ => r is None }''')]),
    ])
    return u

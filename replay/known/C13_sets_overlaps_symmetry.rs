// K7 (C13): replay of the known finding - copy to /repo/tests/ and run with cargo test; it fails on the current tree.
// OVERLAPS on sets is not symmetric, although it is documented as commutative.
//
// Documentation of TextSelectionOperator::Overlaps (src/textselection.rs):
//   "Each TextSelection in A overlaps with a TextSelection in B (cf. textfabric's `&&`), commutative"
use stam::*;

fn store() -> Result<AnnotationStore, StamError> {
    AnnotationStore::default()
        .with_id("s")
        .with_resource(
            TextResourceBuilder::new()
                .with_id("r")
                .with_text("0123456789"),
        )?
        .with_dataset(AnnotationDataSetBuilder::new().with_id("d"))?
        // A selects [0,1)
        .with_annotation(
            AnnotationBuilder::new()
                .with_id("A")
                .with_target(SelectorBuilder::textselector("r", Offset::simple(0, 1)))
                .with_data("d", "k", "a"),
        )?
        // B selects [0,1) and [5,6)
        .with_annotation(
            AnnotationBuilder::new()
                .with_id("B")
                .with_target(SelectorBuilder::compositeselector([
                    SelectorBuilder::textselector("r", Offset::simple(0, 1)),
                    SelectorBuilder::textselector("r", Offset::simple(5, 6)),
                ]))
                .with_data("d", "k", "b"),
        )
}

fn ts<'a>(store: &'a AnnotationStore, begin: usize, end: usize) -> ResultTextSelection<'a> {
    store
        .resource("r")
        .unwrap()
        .textselection(&Offset::simple(begin, end))
        .unwrap()
}

fn set<'a>(store: &'a AnnotationStore, ranges: &[(usize, usize)]) -> ResultTextSelectionSet<'a> {
    ranges.iter().map(|(b, e)| ts(store, *b, *e)).collect()
}

#[test]
fn set_overlaps_is_symmetric() -> Result<(), StamError> {
    let store = store()?;
    let a = set(&store, &[(0, 1)]);
    let b = set(&store, &[(0, 1), (5, 6)]);
    let overlaps = TextSelectionOperator::overlaps();
    assert_eq!(
        a.test_set(&overlaps, &b),
        b.test_set(&overlaps, &a),
        "OVERLAPS is documented as commutative: A={{[0,1)}} OVERLAPS B={{[0,1),[5,6)}} and B OVERLAPS A must agree"
    );
    Ok(())
}

#[test]
fn single_overlaps_set_is_symmetric() -> Result<(), StamError> {
    let store = store()?;
    let a = ts(&store, 0, 1);
    let b = set(&store, &[(0, 1), (5, 6)]);
    let overlaps = TextSelectionOperator::overlaps();
    assert_eq!(
        a.test_set(&overlaps, &b),
        b.test(&overlaps, &a),
        "[0,1) OVERLAPS B={{[0,1),[5,6)}} and B OVERLAPS [0,1) must agree"
    );
    Ok(())
}

#[test]
fn annotation_overlaps_is_symmetric() -> Result<(), StamError> {
    let store = store()?;
    let a = store.annotation("A").unwrap();
    let b = store.annotation("B").unwrap();
    let overlaps = TextSelectionOperator::overlaps();
    assert_eq!(
        a.test(&overlaps, &b),
        b.test(&overlaps, &a),
        "annotation A (text [0,1)) OVERLAPS annotation B (text [0,1) + [5,6)) and B OVERLAPS A must agree"
    );
    assert_eq!(
        a.test(&overlaps.toggle_negate(), &b),
        b.test(&overlaps.toggle_negate(), &a),
        "and so must the negated tests"
    );
    Ok(())
}

#!/usr/bin/env python3
"""regenerate MANIFEST.json from vx/registry.py"""
import json, os, sys
sys.path.insert(0, os.path.dirname(os.path.dirname(os.path.abspath(__file__))))
from vx.registry import PROPERTIES, NOT_APPLICABLE, PENDING, TECH
ALL = ['C%02d' % i for i in range(1, 21)]
hooks_commits = []
hp = os.path.join(os.path.dirname(__file__), '..', 'hooks', 'source_commits.txt')
if os.path.exists(hp):
    hooks_commits = [l.strip() for l in open(hp) if l.strip()]
m = dict(
    version=1,
    setup_cmd="./tools/setup.sh",
    hooks=dict(
        guard="stam_verif",
        enable="the Verus checks need no hook: they read /repo/src text on every run. In-crate replay/Kani modules are compiled with RUSTFLAGS='--cfg stam_verif' (or cfg(kani), set by cargo-kani) and STAM_VERIF_DIR=/verif",
        baseline_off_cmd="cd /repo && CARGO_NET_OFFLINE=true cargo test --workspace --no-fail-fast --offline",
        source_commits=hooks_commits,
        add_only=True,
    ),
    engines=[dict(name="vx", path="/verif/check", serves_properties=sorted(PROPERTIES), kind_free_text="extractor (vx/gen.py) + contracts (contracts/*.py) + Verus runner/classifier (vx/run.py, vx/decide.py)")],
    checks=[],
    notes="Contract-based deductive verification of the real code. Every check re-slices the functions under contract from /repo's working tree, splices the contracts of contracts/*.py, and has Verus discharge every obligation. Exit 0 = all discharged, 1 = a contract obligation fails (VIOLATION), 2 = undecided (lost anchor, unsupported construct, resource limit, or a proof step that no longer discharges while the exhaustive small-input search of the real code finds no failing input) - never an alarm. The thorough tier repeats the proofs at a higher resource limit and adds the labelled bounded checks: Kani harnesses (C03, C19) and the executable twins of the contract clauses (replay/finder.rs) run through the real crate; bounded results are reported under coverage.bounded and never counted as proved.",
    not_applicable=[],
)
for p in ALL:
    if p in PROPERTIES:
        c = PROPERTIES[p]
        m['checks'].append(dict(
            property_id=p,
            quick_cmd=f"./check {p} --tier quick",
            thorough_cmd=f"./check {p} --tier thorough",
            evidence_file=f"/verif/evidence/{p}.json",
            replay_cmd_template=f"./check {p} --replay {{path}}",
            engine="vx",
            level_claimed=dict(category="proof", text=c['level_text'], design_ref=c.get('design_ref', 'DESIGN.md §7')),
            level_note=c['level_note'],
            technique=c.get('technique', TECH),
        ))
    elif p in NOT_APPLICABLE:
        m['not_applicable'].append(dict(property_id=p, reason=NOT_APPLICABLE[p]))
    else:
        m['not_applicable'].append(dict(property_id=p, reason=PENDING.get(p, "no check built yet for this property; contracts planned in DESIGN.md §7 are not implemented, so it is not claimed")))
json.dump(m, open(os.path.join(os.path.dirname(__file__), '..', 'MANIFEST.json'), 'w'), indent=1)
print("MANIFEST.json:", len(m['checks']), "checks,", len(m['not_applicable']), "not applicable")

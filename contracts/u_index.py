"""U-index: the indexing half of C01.  StoreCallbacks<Annotation>::inserted (src/annotationstore.rs) - the
function that enters a new annotation into every reverse index - is verified whole: for every target
selector and every configuration each index receives exactly one entry per matching leaf of the target, in
order, under the right key(s), carrying the new annotation's handle, and nothing else changes.  The three
`Extend` implementations of the index types (src/store.rs) are verified on the way."""
from vx.gen import Unit, Fn
from . import common
from . import u_map

P = ['C01']
AS = 'src/annotationstore.rs'
ST = 'src/store.rs'



SPEC = r'''
// ------------------------------------------------------------------ composition of appends
pub proof fn lemma_proj2_concat<A: Handle, B>(e1: Seq<(A, B)>, e2: Seq<(A, B)>, x: int)
    ensures proj2(e1 + e2, x) == proj2(e1, x) + proj2(e2, x),
    decreases e2.len(),
{
    if e2.len() == 0 { assert(e1 + e2 =~= e1); assert(proj2(e1, x) + Seq::<B>::empty() =~= proj2(e1, x)); }
    else {
        assert((e1 + e2).drop_last() =~= e1 + e2.drop_last());
        assert((e1 + e2).last() == e2.last());
        lemma_proj2_concat(e1, e2.drop_last(), x);
        if e2.last().0.idx() == x { assert((proj2(e1, x) + proj2(e2.drop_last(), x)).push(e2.last().1) =~= proj2(e1, x) + proj2(e2.drop_last(), x).push(e2.last().1)); }
    }
}
pub proof fn lemma_projk_concat<A, B>(e1: Seq<(A, B)>, e2: Seq<(A, B)>, x: A)
    ensures projk(e1 + e2, x) == projk(e1, x) + projk(e2, x),
    decreases e2.len(),
{
    if e2.len() == 0 { assert(e1 + e2 =~= e1); assert(projk(e1, x) + Seq::<B>::empty() =~= projk(e1, x)); }
    else {
        assert((e1 + e2).drop_last() =~= e1 + e2.drop_last());
        assert((e1 + e2).last() == e2.last());
        lemma_projk_concat(e1, e2.drop_last(), x);
        if e2.last().0 == x { assert((projk(e1, x) + projk(e2.drop_last(), x)).push(e2.last().1) =~= projk(e1, x) + projk(e2.drop_last(), x).push(e2.last().1)); }
    }
}
pub proof fn lemma_proj3_concat<A: Handle, B: Handle, C>(e1: Seq<(A, B, C)>, e2: Seq<(A, B, C)>, x: int, y: int)
    ensures proj3(e1 + e2, x, y) == proj3(e1, x, y) + proj3(e2, x, y),
    decreases e2.len(),
{
    if e2.len() == 0 { assert(e1 + e2 =~= e1); assert(proj3(e1, x, y) + Seq::<C>::empty() =~= proj3(e1, x, y)); }
    else {
        assert((e1 + e2).drop_last() =~= e1 + e2.drop_last());
        assert((e1 + e2).last() == e2.last());
        lemma_proj3_concat(e1, e2.drop_last(), x, y);
        if e2.last().0.idx() == x && e2.last().1.idx() == y { assert((proj3(e1, x, y) + proj3(e2.drop_last(), x, y)).push(e2.last().2) =~= proj3(e1, x, y) + proj3(e2.drop_last(), x, y).push(e2.last().2)); }
    }
}
pub proof fn lemma_rm_trans<A: Handle, B>(o: RelationMap<A, B>, c: RelationMap<A, B>, n: RelationMap<A, B>, e1: Seq<(A, B)>, e2: Seq<(A, B)>)
    requires rm_pushed(o, c, e1), rm_pushed(c, n, e2),
    ensures rm_pushed(o, n, e1 + e2),
{
    assert forall|x: int| #[trigger] rm_row(n, x) == rm_row(o, x) + proj2(e1 + e2, x) by {
        lemma_proj2_concat(e1, e2, x);
        assert(rm_row(c, x) == rm_row(o, x) + proj2(e1, x));
        assert((rm_row(o, x) + proj2(e1, x)) + proj2(e2, x) =~= rm_row(o, x) + (proj2(e1, x) + proj2(e2, x)));
    }
}
pub proof fn lemma_bt_trans<A: Handle, B: Handle>(o: RelationBTreeMap<A, B>, c: RelationBTreeMap<A, B>, n: RelationBTreeMap<A, B>, e1: Seq<(A, B)>, e2: Seq<(A, B)>)
    requires bt_pushed(o, c, e1), bt_pushed(c, n, e2),
    ensures bt_pushed(o, n, e1 + e2),
{
    assert forall|x: A| #[trigger] bt_row(n, x) == bt_row(o, x) + projk(e1 + e2, x) by {
        lemma_projk_concat(e1, e2, x);
        assert(bt_row(c, x) == bt_row(o, x) + projk(e1, x));
        assert((bt_row(o, x) + projk(e1, x)) + projk(e2, x) =~= bt_row(o, x) + (projk(e1, x) + projk(e2, x)));
    }
}
pub proof fn lemma_tr_trans<A: Handle, B: Handle, C>(o: TripleRelationMap<A, B, C>, c: TripleRelationMap<A, B, C>, n: TripleRelationMap<A, B, C>, e1: Seq<(A, B, C)>, e2: Seq<(A, B, C)>)
    requires tr_pushed(o, c, e1), tr_pushed(c, n, e2),
    ensures tr_pushed(o, n, e1 + e2),
{
    assert forall|x: int, y: int| #[trigger] n.cell(x, y) == o.cell(x, y) + proj3(e1 + e2, x, y) by {
        lemma_proj3_concat(e1, e2, x, y);
        assert(c.cell(x, y) == o.cell(x, y) + proj3(e1, x, y));
        assert((o.cell(x, y) + proj3(e1, x, y)) + proj3(e2, x, y) =~= o.cell(x, y) + (proj3(e1, x, y) + proj3(e2, x, y)));
    }
}
pub proof fn lemma_rm_none<A: Handle, B>(m: RelationMap<A, B>)
    ensures rm_pushed(m, m, Seq::<(A, B)>::empty()),
{
    assert forall|x: int| #[trigger] rm_row(m, x) == rm_row(m, x) + proj2(Seq::<(A, B)>::empty(), x) by { assert(rm_row(m, x) + Seq::<B>::empty() =~= rm_row(m, x)); }
}
pub proof fn lemma_bt_none<A: Handle, B: Handle>(m: RelationBTreeMap<A, B>)
    ensures bt_pushed(m, m, Seq::<(A, B)>::empty()),
{
    assert forall|x: A| #[trigger] bt_row(m, x) == bt_row(m, x) + projk(Seq::<(A, B)>::empty(), x) by { assert(bt_row(m, x) + Seq::<B>::empty() =~= bt_row(m, x)); }
}
pub proof fn lemma_tr_none<A: Handle, B: Handle, C>(m: TripleRelationMap<A, B, C>)
    ensures tr_pushed(m, m, Seq::<(A, B, C)>::empty()),
{
    assert forall|x: int, y: int| #[trigger] m.cell(x, y) == m.cell(x, y) + proj3(Seq::<(A, B, C)>::empty(), x, y) by { assert(m.cell(x, y) + Seq::<C>::empty() =~= m.cell(x, y)); }
}

// ------------------------------------------------------------------ what `inserted` has to enter (from the property, not the code)
/// the selectors SelectorIter yields for a target (the target itself, then everything under it, ranged selectors
/// expanded); uninterpreted: SelectorIter is not verified
pub uninterp spec fn walk(sel: Selector, anns: Seq<Option<Annotation>>) -> Seq<Selector>;

/// a target that stands for exactly one thing
pub open spec fn is_simple(t: Selector) -> bool {
    match t {
        Selector::DataSetSelector(_) => true,
        Selector::ResourceSelector(_) => true,
        Selector::TextSelector(_, _, _) => true,
        Selector::DataKeySelector(_, _) => true,
        Selector::AnnotationDataSelector(_, _) => true,
        Selector::AnnotationSelector(_, _) => true,
        _ => false,
    }
}
/// everything an annotation points at
pub open spec fn leafs(t: Selector, anns: Seq<Option<Annotation>>) -> Seq<Selector> {
    if is_simple(t) { seq![t] } else { walk(t, anns) }
}

pub open spec fn data_entries(d: Seq<(AnnotationDataSetHandle, AnnotationDataHandle)>, h: AnnotationHandle) -> Seq<(AnnotationDataSetHandle, AnnotationDataHandle, AnnotationHandle)> {
    Seq::new(d.len(), |i: int| (d[i].0, d[i].1, h))
}
pub open spec fn aa_of(s: Selector, h: AnnotationHandle) -> Seq<(AnnotationHandle, AnnotationHandle)> {
    match s { Selector::AnnotationSelector(a, _) => seq![(a, h)], _ => Seq::empty() }
}
pub open spec fn res_of(s: Selector, h: AnnotationHandle) -> Seq<(TextResourceHandle, AnnotationHandle)> {
    match s { Selector::ResourceSelector(r) => seq![(r, h)], _ => Seq::empty() }
}
pub open spec fn ds_of(s: Selector, h: AnnotationHandle) -> Seq<(AnnotationDataSetHandle, AnnotationHandle)> {
    match s { Selector::DataSetSelector(d) => seq![(d, h)], _ => Seq::empty() }
}
pub open spec fn key_of(s: Selector, h: AnnotationHandle) -> Seq<(AnnotationDataSetHandle, DataKeyHandle, AnnotationHandle)> {
    match s { Selector::DataKeySelector(d, k) => seq![(d, k, h)], _ => Seq::empty() }
}
pub open spec fn md_of(s: Selector, h: AnnotationHandle) -> Seq<(AnnotationDataSetHandle, AnnotationDataHandle, AnnotationHandle)> {
    match s { Selector::AnnotationDataSelector(d, k) => seq![(d, k, h)], _ => Seq::empty() }
}
pub open spec fn text_of(s: Selector, h: AnnotationHandle) -> Seq<(TextResourceHandle, TextSelectionHandle, AnnotationHandle)> {
    match s {
        Selector::TextSelector(r, t, _) => seq![(r, t, h)],
        Selector::AnnotationSelector(_, Some(off)) => seq![(off.0, off.1, h)],
        _ => Seq::empty(),
    }
}
/// entries of one index for a sequence of leafs: the per-leaf entries, in order; nothing when the index is switched off
pub open spec fn aa_entries(l: Seq<Selector>, on: bool, h: AnnotationHandle) -> Seq<(AnnotationHandle, AnnotationHandle)> decreases l.len()
{ if l.len() == 0 || !on { Seq::empty() } else { aa_entries(l.drop_last(), on, h) + aa_of(l.last(), h) } }
pub open spec fn res_entries(l: Seq<Selector>, on: bool, h: AnnotationHandle) -> Seq<(TextResourceHandle, AnnotationHandle)> decreases l.len()
{ if l.len() == 0 || !on { Seq::empty() } else { res_entries(l.drop_last(), on, h) + res_of(l.last(), h) } }
pub open spec fn ds_entries(l: Seq<Selector>, on: bool, h: AnnotationHandle) -> Seq<(AnnotationDataSetHandle, AnnotationHandle)> decreases l.len()
{ if l.len() == 0 || !on { Seq::empty() } else { ds_entries(l.drop_last(), on, h) + ds_of(l.last(), h) } }
pub open spec fn key_entries(l: Seq<Selector>, on: bool, h: AnnotationHandle) -> Seq<(AnnotationDataSetHandle, DataKeyHandle, AnnotationHandle)> decreases l.len()
{ if l.len() == 0 || !on { Seq::empty() } else { key_entries(l.drop_last(), on, h) + key_of(l.last(), h) } }
pub open spec fn md_entries(l: Seq<Selector>, on: bool, h: AnnotationHandle) -> Seq<(AnnotationDataSetHandle, AnnotationDataHandle, AnnotationHandle)> decreases l.len()
{ if l.len() == 0 || !on { Seq::empty() } else { md_entries(l.drop_last(), on, h) + md_of(l.last(), h) } }
pub open spec fn text_entries(l: Seq<Selector>, on: bool, h: AnnotationHandle) -> Seq<(TextResourceHandle, TextSelectionHandle, AnnotationHandle)> decreases l.len()
{ if l.len() == 0 || !on { Seq::empty() } else { text_entries(l.drop_last(), on, h) + text_of(l.last(), h) } }

pub proof fn lemma_entries_single(t: Selector, on: bool, h: AnnotationHandle)
    ensures
        aa_entries(seq![t], on, h) == (if on { aa_of(t, h) } else { Seq::empty() }),
        res_entries(seq![t], on, h) == (if on { res_of(t, h) } else { Seq::empty() }),
        ds_entries(seq![t], on, h) == (if on { ds_of(t, h) } else { Seq::empty() }),
        key_entries(seq![t], on, h) == (if on { key_of(t, h) } else { Seq::empty() }),
        md_entries(seq![t], on, h) == (if on { md_of(t, h) } else { Seq::empty() }),
        text_entries(seq![t], on, h) == (if on { text_of(t, h) } else { Seq::empty() }),
{
    let l = seq![t];
    assert(l.drop_last() =~= Seq::<Selector>::empty());
    assert(l.last() == t);
    reveal_with_fuel(aa_entries, 2); reveal_with_fuel(res_entries, 2); reveal_with_fuel(ds_entries, 2);
    reveal_with_fuel(key_entries, 2); reveal_with_fuel(md_entries, 2); reveal_with_fuel(text_entries, 2);
    assert(Seq::<(AnnotationHandle, AnnotationHandle)>::empty() + aa_of(t, h) =~= aa_of(t, h));
    assert(Seq::<(TextResourceHandle, AnnotationHandle)>::empty() + res_of(t, h) =~= res_of(t, h));
    assert(Seq::<(AnnotationDataSetHandle, AnnotationHandle)>::empty() + ds_of(t, h) =~= ds_of(t, h));
    assert(Seq::<(AnnotationDataSetHandle, DataKeyHandle, AnnotationHandle)>::empty() + key_of(t, h) =~= key_of(t, h));
    assert(Seq::<(AnnotationDataSetHandle, AnnotationDataHandle, AnnotationHandle)>::empty() + md_of(t, h) =~= md_of(t, h));
    assert(Seq::<(TextResourceHandle, TextSelectionHandle, AnnotationHandle)>::empty() + text_of(t, h) =~= text_of(t, h));
}
/// one more leaf
pub proof fn lemma_entries_step(w: Seq<Selector>, i: int, on: bool, h: AnnotationHandle)
    requires 0 <= i < w.len(),
    ensures
        aa_entries(w.take(i + 1), on, h) == (if on { aa_entries(w.take(i), on, h) + aa_of(w[i], h) } else { Seq::empty() }),
        res_entries(w.take(i + 1), on, h) == (if on { res_entries(w.take(i), on, h) + res_of(w[i], h) } else { Seq::empty() }),
        ds_entries(w.take(i + 1), on, h) == (if on { ds_entries(w.take(i), on, h) + ds_of(w[i], h) } else { Seq::empty() }),
        key_entries(w.take(i + 1), on, h) == (if on { key_entries(w.take(i), on, h) + key_of(w[i], h) } else { Seq::empty() }),
        md_entries(w.take(i + 1), on, h) == (if on { md_entries(w.take(i), on, h) + md_of(w[i], h) } else { Seq::empty() }),
        text_entries(w.take(i + 1), on, h) == (if on { text_entries(w.take(i), on, h) + text_of(w[i], h) } else { Seq::empty() }),
{
    assert(w.take(i + 1).drop_last() =~= w.take(i));
    assert(w.take(i + 1).last() == w[i]);
}
'''

TRUSTED_WALK = '''
/// R-outline: stands for `annotation.target().iter(self, false)` (SelectorIter, src/selector.rs, not verified) collected
/// into a vector; the body is that expression.  Trusted: the iterator reads nothing of the store but its annotations.
#[verifier::external_body]
pub fn vx_selector_walk(sel: &Selector, store: &AnnotationStore) -> (r: Vec<Selector>)
    ensures r@ == walk(*sel, store.annotations@),
        is_simple(*sel) ==> r@ == seq![*sel],   // trusted: SelectorIter yields a non-complex selector itself and nothing else (recurse_annotation = false)
{
    unimplemented!() // sel.iter(store, false).map(|s| s.into_owned()).collect(): SelectorIter is not part of this unit
}
'''

# proof steps of the three `extend` loops: one insert appends one entry to one row
EXT_RM = '''proof {
                let i = vx_it.index@ as int; let o = *old(self); let c = vx_cur; let n = *self;
                assert forall|k: int| #[trigger] rm_row(n, k) == rm_row(o, k) + proj2(iter@.take(i + 1), k) by {
                    lemma_proj2_step(iter@, i, k);
                    assert(rm_row(c, k) == rm_row(o, k) + proj2(iter@.take(i), k));
                    if k == x.idx() { assert(rm_row(n, k) =~= rm_row(c, k).push(y)); assert(rm_row(o, k) + proj2(iter@.take(i), k).push(y) =~= (rm_row(o, k) + proj2(iter@.take(i), k)).push(y)); }
                    else if 0 <= k < n@.len() { assert(n@[k] == row_or_empty(c.data@, k)); }
                }
            }'''
EXT_BT = '''proof {
                let i = vx_it.index@ as int; let o = *old(self); let c = vx_cur; let n = *self;
                assert forall|k: A| #[trigger] bt_row(n, k) == bt_row(o, k) + projk(iter@.take(i + 1), k) by {
                    lemma_projk_step(iter@, i, k);
                    assert(bt_row(c, k) == bt_row(o, k) + projk(iter@.take(i), k));
                    if k == x { assert(bt_row(n, k) =~= bt_row(c, k).push(y)); assert(bt_row(o, k) + projk(iter@.take(i), k).push(y) =~= (bt_row(o, k) + projk(iter@.take(i), k)).push(y)); }
                    else if c.data@.contains_key(k) { assert(n.data@[k] == c.data@[k]); }
                }
            }'''
EXT_TR = '''proof {
                let i = vx_it.index@ as int; let o = *old(self); let c = vx_cur; let n = *self;
                assert forall|k: int, l: int| #[trigger] n.cell(k, l) == o.cell(k, l) + proj3(iter@.take(i + 1), k, l) by {
                    lemma_proj3_step(iter@, i, k, l);
                    assert(c.cell(k, l) == o.cell(k, l) + proj3(iter@.take(i), k, l));
                    if k == x.idx() && l == y.idx() { assert(o.cell(k, l) + proj3(iter@.take(i), k, l).push(z) =~= (o.cell(k, l) + proj3(iter@.take(i), k, l)).push(z)); }
                    else { assert(n.cell(k, l) == c.cell(k, l)); }
                }
            }'''


def emit_extend(u, P):
    """the three Extend impls, R-instantiate: the generic `T: IntoIterator<Item = ..>` parameter is instantiated at Vec<..>
    (every call site in `inserted` passes `vec.into_iter()`)"""
    def ext(header, vheader, item, call, hint, inv, post, req=()):
        u.impl(ST, header, [
            Fn('extend', props=P, requires=list(req),
               sig_rewrites=[('R-instantiate', r'fn extend<T>\(&mut self, iter: T\)\s*where\s*T: IntoIterator<Item = ' + item + r'>,', 'fn extend(&mut self, iter: Vec<' + item.replace('\\', '') + '>)')],
               rewrites=[('R-forname', r'for \(([a-z, ]+)\) in iter \{', r'for (\1) in vx_it: iter {')],
               before=[(call, 'let ghost vx_cur = *self;')],
               after=[(call, hint, None, 'appended')],
               prologue='proof { assert(iter@.take(iter@.len() as int) =~= iter@); }',
               loops={0: dict(invariant=[('appended', inv), ('full', 'iter@.take(iter@.len() as int) == iter@')] + [(l, c) for l, c in req])},
               ensures=[('appended', post)]),
        ], verus_header=vheader)
    ext('impl<A, B> Extend<(A, B)> for RelationMap<A, B>', 'impl<A: Handle, B: Handle> RelationMap<A, B>', r'\(A, B\)', 'self.insert(x, y);', EXT_RM,
        'rm_pushed(*old(self), *self, iter@.take(vx_it.index@ as int))', 'rm_pushed(*old(self), *final(self), iter@)')
    ext('impl<A, B> Extend<(A, B)> for RelationBTreeMap<A, B>', 'impl<A: Handle, B: Handle> RelationBTreeMap<A, B>', r'\(A, B\)', 'self.insert(x, y);', EXT_BT,
        'bt_pushed(*old(self), *self, iter@.take(vx_it.index@ as int))', 'bt_pushed(*old(self), *final(self), iter@)',
        req=[('cmp_laws', 'vstd::laws_cmp::obeys_cmp::<A>()')])
    ext('impl<A, B, C> Extend<(A, B, C)> for TripleRelationMap<A, B, C>', 'impl<A: Handle, B: Handle, C: Handle> TripleRelationMap<A, B, C>', r'\(A, B, C\)', 'self.insert(x, y, z);', EXT_TR,
        'tr_pushed(*old(self), *self, iter@.take(vx_it.index@ as int))', 'tr_pushed(*old(self), *final(self), iter@)')


def build():
    u = Unit('u_index', serves=['C01'])
    u.use('use std::marker::PhantomData;')
    u.use('use std::collections::BTreeMap;')
    common.target64(u)
    common.std_specs(u)
    common.handle_trait(u, P)
    for h in ('AnnotationHandle', 'TextResourceHandle', 'AnnotationDataSetHandle', 'AnnotationDataHandle', 'DataKeyHandle', 'TextSelectionHandle', 'AnnotationSubStoreHandle'):
        common.handle_impl(u, h, P)
    u.trusted_text(u_map.VX_POSITION, 'external_body vx_position: std Iterator::position semantics + structural == on handles (R-outline)')
    u_map.emit_relationmap(u, P, with_canary=False, pushed=True)
    u_map.emit_other_maps(u, P, pushed=True)
    emit_extend(u, P)
    emit_inserted(u, P)
    return u


MAPS = ['dataset_data_annotation_map', 'textrelationmap', 'resource_annotation_metamap', 'dataset_annotation_metamap',
        'annotation_annotation_map', 'key_annotation_metamap', 'data_annotation_metamap']
# reverse indices `inserted` must leave alone (the reserved key_annotation_map and the substore maps): part of the frame
UNTOUCHED = ['key_annotation_map', 'annotation_substore_map', 'resource_substore_map', 'dataset_substore_map']
# index field -> (shape, entries function, config flag)
INDEX = {
    'annotation_annotation_map': ('bt', 'aa_entries', 'annotation_annotation_map'),
    'resource_annotation_metamap': ('rm', 'res_entries', 'resource_annotation_metamap'),
    'dataset_annotation_metamap': ('rm', 'ds_entries', 'dataset_annotation_metamap'),
    'key_annotation_metamap': ('tr', 'key_entries', 'key_annotation_metamap'),
    'data_annotation_metamap': ('tr', 'md_entries', 'data_annotation_metamap'),
    'textrelationmap': ('tr', 'text_entries', 'textrelationmap'),
}
# local buffer of the multi-target block -> index field
BUFFERS = {
    'target_annotations': 'annotation_annotation_map',
    'target_meta_resources': 'resource_annotation_metamap',
    'target_meta_datasets': 'dataset_annotation_metamap',
    'target_meta_keys': 'key_annotation_metamap',
    'target_meta_data': 'data_annotation_metamap',
    'extend_textrelationmap': 'textrelationmap',
}

INS_SPEC = r"""
pub open spec fn live_annotation(s: AnnotationStore, h: AnnotationHandle) -> bool {
    h.idx() < s.annotations@.len() && s.annotations@[h.idx() as int] is Some
}
pub open spec fn the_annotation(s: AnnotationStore, h: AnnotationHandle) -> Annotation { s.annotations@[h.idx() as int]->Some_0 }
pub open spec fn the_leafs(s: AnnotationStore, h: AnnotationHandle) -> Seq<Selector> { leafs(the_annotation(s, h).target, s.annotations@) }
"""


def emit_inserted(u, P):
    S = 'src/selector.rs'
    A = 'src/annotation.rs'
    u.item(S, 'enum', 'OffsetMode', keep_derives=['Clone', 'Copy'])
    u.item(S, 'enum', 'Selector', keep_derives=[])
    u.item(A, 'type', 'DataVec')
    u.item(A, 'struct', 'Annotation', keep_fields=['data', 'target'], keep_derives=[],
           rewrites=[('R-vis', r'\btarget:', 'pub target:'), ('R-vis', r'\bdata:', 'pub data:')])
    u.item('src/config.rs', 'struct', 'Config', keep_fields=[v[2] for v in INDEX.values()], keep_derives=[])
    u.item('src/error.rs', 'enum', 'StamError', keep_variants=['HandleError'], keep_derives=['Debug'])
    u.item(ST, 'type', 'Store')
    u.item(AS, 'struct', 'AnnotationStore', keep_fields=['config', 'annotations'] + MAPS + UNTOUCHED, keep_derives=[])
    u.spec(SPEC, 'contracts/u_index.py:SPEC')
    u.spec(INS_SPEC, 'contracts/u_index.py:INS_SPEC')
    u.trusted_text(TRUSTED_WALK, 'external_body vx_selector_walk: SelectorIter (src/selector.rs) is not verified; the sequence it yields is the uninterpreted `walk(target, annotations)` (R-outline)')
    u.impl(A, 'impl Annotation', [
        Fn('target', props=P, ret='r', ensures=[('target', '*r == self.target')]),
    ])
    O, N = 'old(self)', 'final(self)'
    CMP = 'vstd::laws_cmp::obeys_cmp::<AnnotationHandle>()'
    ANN = 'the_annotation(*old(self), handle)'
    L = 'the_leafs(*old(self), handle)'
    flags = sorted(set(v[2] for v in INDEX.values()))

    def others(m):
        return [(f'same_{f}', f'self.{f} == old(self).{f}') for f in MAPS + UNTOUCHED if f != m]
    base_inv = [('cmp', CMP), ('live', 'live_annotation(*old(self), handle)'), ('annotation', f'*annotation == {ANN}'),
                ('frame', 'self.annotations == old(self).annotations && self.config == old(self).config')]
    data_inv = base_inv + others('dataset_data_annotation_map') + [
        ('data_index', 'tr_pushed(old(self).dataset_data_annotation_map, self.dataset_data_annotation_map, data_entries(annotation.data@, handle).take(vx_itd.index@ as int))'),
    ]
    DATA_CALL = r're:self\.dataset_data_annotation_map\s*\.insert\(\*dataset, \*data, handle\);'
    DATA_HINT = '''proof {
                let i = vx_itd.index@ as int; let e = data_entries(annotation.data@, handle);
                assert(e.take(i + 1) =~= e.take(i) + seq![e[i]]);
                lemma_tr_trans(old(self).dataset_data_annotation_map, vx_cur, self.dataset_data_annotation_map, e.take(i), seq![e[i]]);
            }'''
    walk_inv = [('cmp', CMP), ('walk', 'vx_w@ == walk(annotation.target, self.annotations@) && vx_w@ == vx_w_all')]
    for buf, f in BUFFERS.items():
        shape, ent, flag = INDEX[f]
        walk_inv.append((f, f'{buf}@ == {ent}(vx_w@.take(vx_it.index@ as int), self.config.{flag}, handle)'))
    STEP_HINT = 'proof { ' + ' '.join(f'lemma_entries_step(vx_w@, vx_it.index@ as int, self.config.{flag}, handle);' for flag in flags) + ' }'
    MID_HINT = ('let ghost vx_mid = *self; proof { '
                + ' '.join(f'lemma_entries_single(annotation.target, self.config.{flag}, handle);' for flag in flags) + ' '
                + ' '.join(f'lemma_{INDEX[f][0]}_none(old(self).{f});' for f in INDEX) + ' }')
    rewrites = [
        ('R-forname', r'for \(dataset, data\) in annotation\.data\(\) \{', 'for (dataset, data) in vx_itd: annotation.data.iter() {'),
        ('R-outline', r'for selector in annotation\.target\(\)\.iter\(self, false\) \{',
         'let vx_w = vx_selector_walk(annotation.target(), self); proof { vx_w_all = vx_w@; } for selector in vx_it: vx_w {'),
        ('R-outline', r'match selector\.as_ref\(\) \{', 'match &selector {'),
        ('R-smallvec', r'SmallVec<\s*\[\(TextResourceHandle, TextSelectionHandle, AnnotationHandle\); 1\],\s*>\s*=\s*SmallVec::new\(\)',
         'Vec<(TextResourceHandle, TextSelectionHandle, AnnotationHandle)> = Vec::new()'),
        ('R-instantiate', r'\.extend\((\w+)\.into_iter\(\)\)', r'.extend(\1)'),
    ]
    ens = [('ok', 'r is Ok'),
           ('frame', f'{N}.annotations == {O}.annotations && {N}.config == {O}.config'),
           ('other_indices_untouched', ' && '.join(f'{N}.{f} == {O}.{f}' for f in UNTOUCHED)),
           ('dataset_data_annotation_map', f'tr_pushed({O}.dataset_data_annotation_map, {N}.dataset_data_annotation_map, data_entries({ANN}.data@, handle))')]
    for f, (shape, ent, flag) in INDEX.items():
        ens.append((f, f'{shape}_pushed({O}.{f}, {N}.{f}, {ent}({L}, {O}.config.{flag}, handle))'))
    u.impl(AS, 'impl private::StoreCallbacks<Annotation> for AnnotationStore', [
        Fn('inserted', props=P, ret='r',
           requires=[('cmp_laws', CMP), ('live', 'live_annotation(*old(self), handle)')],
           ensures=ens,
           rewrites=rewrites,
           prologue='let ghost mut vx_w_all: Seq<Selector> = Seq::empty();',
           before=[(DATA_CALL, 'let ghost vx_cur = self.dataset_data_annotation_map;'),
                   ('re:let mut extend_textrelationmap', MID_HINT),
                   ('let mut multitarget = false;', 'proof { let e = data_entries(annotation.data@, handle); assert(e.take(e.len() as int) =~= e); }', None, 'dataset_data_annotation_map'),
                   (r're:if self\.config\.annotation_annotation_map \{\s*self\.annotation_annotation_map\s*\.extend', 'proof { assert(vx_w_all.take(vx_w_all.len() as int) =~= vx_w_all); }')],
           after=[(DATA_CALL, DATA_HINT, None, 'dataset_data_annotation_map'),
                  (r're:_ => \{\}[^\n]*\n\s*\};', STEP_HINT)],
           loops={r'vx_itd: ': dict(invariant=data_inv),
                  r'vx_it: vx_w\b': dict(invariant=walk_inv)}),
    ], verus_header='impl AnnotationStore')

// replay of the defect repaired by /repo commit 5f79e20 (C08): copy to /repo/tests/ and run it with cargo test; it fails on the parent commit.
// STAMQL text with an `AS <qualifier>` clause (AS METADATA / AS TARGET / AS NOCASE / AS REGEX)
// is refused by the parser, although the same query built programmatically runs fine and
// Constraint::to_string() itself produces that syntax.
use stam::*;

fn store() -> AnnotationStore {
    let mut store = AnnotationStore::default()
        .with_id("s")
        .with_resource(
            TextResourceBuilder::new()
                .with_id("r")
                .with_text("Aa bb cc"),
        )
        .unwrap();
    for (i, (b, e)) in [(0, 2), (3, 5), (6, 8)].iter().enumerate() {
        store = store
            .with_annotation(
                AnnotationBuilder::new()
                    .with_id(format!("w{}", i))
                    .with_target(SelectorBuilder::textselector("r", Offset::simple(*b, *e)))
                    .with_data("set", "type", "word"),
            )
            .unwrap();
    }
    // metadata on the resource as a whole (ResourceSelector)
    store
        .with_annotation(
            AnnotationBuilder::new()
                .with_id("m0")
                .with_target(SelectorBuilder::resourceselector("r"))
                .with_data("set", "type", "meta"),
        )
        .unwrap()
}

fn ids(store: &AnnotationStore, query: Query) -> Vec<String> {
    let mut out = Vec::new();
    for row in store.query(query).expect("query must run") {
        if let Some(QueryResultItem::Annotation(a)) = row.iter().next() {
            out.push(a.id().unwrap().to_string());
        }
    }
    out
}

/// parses STAMQL and runs it; a parse error is reported in the Err
fn ids_from_text(store: &AnnotationStore, q: &str) -> Result<Vec<String>, String> {
    let query: Query = q
        .try_into()
        .map_err(|e: StamError| format!("STAMQL text refused: {}", e))?;
    Ok(ids(store, query))
}

#[test]
fn resource_as_metadata_text_equals_programmatic() {
    let store = store();
    let constraint = Constraint::TextResource("r", SelectionQualifier::Metadata, None);
    let stamql = format!("SELECT ANNOTATION WHERE {}", constraint.to_string().unwrap());
    assert_eq!(stamql, "SELECT ANNOTATION WHERE RESOURCE AS METADATA \"r\";");
    let programmatic = ids(
        &store,
        Query::new(QueryType::Select, Some(Type::Annotation), None).with_constraint(constraint),
    );
    assert_eq!(programmatic, vec!["m0"]);
    assert_eq!(
        ids_from_text(&store, &stamql),
        Ok(programmatic.clone()),
        "the STAMQL text form of RESOURCE AS METADATA must give the same answer as the programmatic query"
    );
    assert_eq!(
        ids_from_text(&store, "SELECT ANNOTATION WHERE RESOURCE AS TARGET r;"),
        Ok(programmatic),
        "AS TARGET is documented as a synonym of AS METADATA"
    );
}

#[test]
fn text_as_nocase_text_equals_programmatic() {
    let store = store();
    let constraint = Constraint::Text("aa", TextMode::CaseInsensitive);
    let stamql = format!("SELECT ANNOTATION WHERE {}", constraint.to_string().unwrap());
    assert_eq!(stamql, "SELECT ANNOTATION WHERE TEXT AS NOCASE \"aa\";");
    let programmatic = ids(
        &store,
        Query::new(QueryType::Select, Some(Type::Annotation), None).with_constraint(constraint),
    );
    assert_eq!(programmatic, vec!["w0"]);
    assert_eq!(
        ids_from_text(&store, &stamql),
        Ok(programmatic),
        "the STAMQL text form of TEXT AS NOCASE must give the same answer as the programmatic query"
    );
}

#[test]
fn text_as_regex_text_equals_programmatic() {
    let store = store();
    let word = Constraint::KeyValue {
        set: "set",
        key: "type",
        operator: DataOperator::Equals("word".into()),
        qualifier: SelectionQualifier::Normal,
    };
    let programmatic = ids(
        &store,
        Query::new(QueryType::Select, Some(Type::Annotation), None)
            .with_constraint(word)
            .with_constraint(Constraint::Regex(Regex::new("^[b-c]+$").unwrap())),
    );
    assert_eq!(programmatic, vec!["w1", "w2"]);
    assert_eq!(
        ids_from_text(
            &store,
            "SELECT ANNOTATION WHERE DATA set type = word; TEXT AS REGEX \"^[b-c]+$\";"
        ),
        Ok(programmatic),
        "the STAMQL text form of TEXT AS REGEX must give the same answer as the programmatic query"
    );
}

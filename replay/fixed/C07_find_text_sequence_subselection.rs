// replay of the defect repaired by /repo commit 2d282b4 (C07): copy to /repo/tests/ and run it with cargo test; before the fix the search in the
// sub-selection "b c d" (2..7 of "a b c d") for ["b", "c"] returns None although the same text as a resource gives Some.
use stam::*;
#[test]
fn find_text_sequence_in_a_subselection_agrees_with_the_same_text_as_a_resource() {
    let store = AnnotationStore::default()
        .with_resource(TextResourceBuilder::new().with_id("r").with_text("a b c d")).unwrap()
        .with_resource(TextResourceBuilder::new().with_id("s").with_text("b c d")).unwrap();
    let res = store.resource("r").unwrap();
    let plain = store.resource("s").unwrap();
    let skip = |c: char| c == ' ';
    let as_resource = plain.find_text_sequence(&["b", "c"], skip, true).map(|v| v.iter().map(|t| (t.begin(), t.end())).collect::<Vec<_>>());
    assert_eq!(as_resource, Some(vec![(0, 1), (2, 3)]));
    let sel = res.textselection(&Offset::simple(2, 7)).unwrap(); // "b c d"
    let in_selection = sel.find_text_sequence(&["b", "c"], skip, true).map(|v| v.iter().map(|t| (t.begin(), t.end())).collect::<Vec<_>>());
    assert_eq!(in_selection, Some(vec![(2, 3), (4, 5)]), "the same text as a sub-selection, absolute offsets");
    // a sequence that does not start at the beginning of the searched text (modulo skippable characters) is still refused
    let sel = res.textselection(&Offset::simple(0, 7)).unwrap();
    assert_eq!(sel.find_text_sequence(&["b", "c"], skip, true).map(|v| v.len()), None);
    let sel = res.textselection(&Offset::simple(1, 7)).unwrap(); // " b c d"
    assert_eq!(sel.find_text_sequence(&["b", "c"], skip, true).map(|v| v.iter().map(|t| (t.begin(), t.end())).collect::<Vec<_>>()), Some(vec![(2, 3), (4, 5)]));
}

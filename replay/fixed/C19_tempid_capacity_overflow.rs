// replay of the defect repaired by /repo commit 9469b68 (C19): copy to /repo/tests/ and run it with cargo test; it fails on the parent commit.
use stam::*;
fn doc(id: &str) -> String {
    format!(r#"{{ "@type": "AnnotationStore",
        "annotationsets": [{{ "@type": "AnnotationDataSet", "@id": "d", "keys": [{{"@type": "DataKey", "@id": "k"}}],
            "data": [{{"@type": "AnnotationData", "@id": "D1", "key": "k", "value": {{"@type": "String", "value": "v"}}}}] }}],
        "resources": [{{ "@id": "r", "text": "Hello world" }}],
        "annotations": [{{ "@type": "Annotation", "@id": "{}", "target": {{"@type": "TextSelector", "resource": "r", "offset": {{"begin": {{"@type":"BeginAlignedCursor","value":0}}, "end": {{"@type":"BeginAlignedCursor","value":5}}}}}}, "data": [{{"@type": "AnnotationData", "@id": "D1", "set": "d"}}] }}] }}"#, id)
}
#[test]
fn extreme_temporary_annotation_id_is_refused_or_loaded_without_panic() {
    let r = std::panic::catch_unwind(|| AnnotationStore::from_json_str(&doc("!A18446744073709551615"), Config::default()).is_ok());
    assert!(r.is_ok(), "loading a document whose only annotation has the temporary id !A18446744073709551615 panicked");
}
#[test]
fn small_gap_still_loads() {
    let store = AnnotationStore::from_json_str(&doc("!A5"), Config::default()).unwrap();
    assert_eq!(store.annotations().count(), 1);
}

#[test]
fn extreme_temporary_data_id_is_refused_or_loaded_without_panic() {
    let d = doc("A1").replace(r#""@id": "D1", "key""#, r#""@id": "!D18446744073709551615", "key""#).replace(r#""@id": "D1", "set""#, r#""key": "k", "value": {"@type": "String", "value": "v"}, "set""#);
    assert!(d.contains("!D18446744073709551615"));
    let r = std::panic::catch_unwind(|| AnnotationStore::from_json_str(&d, Config::default()).is_ok());
    assert!(r.is_ok(), "loading a dataset whose only data item has the temporary id !D18446744073709551615 panicked");
}
#[test]
fn extreme_temporary_id_in_a_merged_document_is_refused_without_panic() {
    let mut store = AnnotationStore::from_json_str(&doc("A0"), Config::default()).unwrap();
    let r = std::panic::catch_unwind(std::panic::AssertUnwindSafe(|| store.merge_json_str(&doc("!A18446744073709551615")).is_ok()));
    assert!(r.is_ok(), "merging a document with the temporary id !A18446744073709551615 panicked");
}

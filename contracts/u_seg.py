"""U-seg: SegmentationIter::next (src/api/resources.rs) - segmentation partitions the searched range and
cuts exactly at positions where known selections begin or end.  Serves C07 (narrow)."""
from vx.gen import Unit, Fn
from . import common

P = ['C07']
F = 'src/api/resources.rs'
T = 'src/textselection.rs'

STUBS = r'''
/// R-err
#[verifier::external_body]
pub fn vx_msg() -> String { String::new() }

/// R-opaque: `Box<dyn Iterator<Item = &usize>>` over the keys of the position index (ascending), as produced by
/// TextResource::positions / positions_in_range (assumed: strictly increasing, every yielded position is in the index)
#[verifier::external_body]
pub struct VxPositions<'a> { inner: Box<dyn Iterator<Item = &'a usize> + 'a> }

impl<'a> VxPositions<'a> {
    /// ghost: the positions still to come
    pub uninterp spec fn remaining(&self) -> Seq<usize>;

    #[verifier::external_body]
    pub fn next(&mut self) -> (r: Option<&'a usize>)
        ensures
            old(self).remaining().len() == 0 ==> r is None && final(self).remaining() == old(self).remaining(),
            old(self).remaining().len() > 0 ==> r is Some && *r.unwrap() == old(self).remaining()[0] && final(self).remaining() == old(self).remaining().skip(1),
    { self.inner.next() }
}

/// R-opaque: ResultItem<TextResource>; only as_ref().position(p) and textselection(&offset) are used
#[verifier::external_body]
pub struct VxResultResource<'a> { _p: std::marker::PhantomData<&'a usize> }
#[verifier::external_body]
pub struct VxTextResource { _p: usize }
#[verifier::external_body]
pub struct ResultTextSelection<'a> { _p: std::marker::PhantomData<&'a usize> }

impl<'a> ResultTextSelection<'a> {
    pub uninterp spec fn begin(&self) -> usize;
    pub uninterp spec fn end(&self) -> usize;
}

impl VxTextResource {
    pub uninterp spec fn textlen_s(&self) -> usize;
    /// stands for TextResource::textlen
    #[verifier::external_body]
    #[verifier::when_used_as_spec(textlen_s)]
    pub fn textlen(&self) -> (r: usize)
        ensures r == self.textlen_s(),
    { unimplemented!() }
    /// ghost: the keys of the position index in [begin, end) at which, per mode, a selection begins / ends / either is recorded
    /// (Both: every key, milestones included), ascending
    pub uninterp spec fn index_positions(&self, mode: PositionMode, begin: usize, end: usize) -> Seq<usize>;
    /// stands for TextResource::positions (src/resources.rs): the whole index
    #[verifier::external_body]
    pub fn positions<'a>(&'a self, mode: PositionMode) -> (r: VxPositions<'a>)
        ensures r.remaining() == self.index_positions(mode, 0, usize::MAX),
    { unimplemented!() }
    /// stands for TextResource::positions_in_range (src/resources.rs): BTreeMap::range over [begin, end)
    #[verifier::external_body]
    pub fn positions_in_range<'a>(&'a self, mode: PositionMode, begin: usize, end: usize) -> (r: VxPositions<'a>)
        ensures r.remaining() == self.index_positions(mode, begin, end),
    { unimplemented!() }
    /// ghost: the position index entry at p, if any
    pub uninterp spec fn entry(&self, p: usize) -> Option<PositionIndexItem>;

    /// stands for TextResource::position (src/resources.rs): a plain lookup in the position index
    #[verifier::external_body]
    pub fn position(&self, index: usize) -> (r: Option<&PositionIndexItem>)
        ensures r is Some <==> self.entry(index) is Some, r is Some ==> *r.unwrap() == self.entry(index).unwrap(),
    { unimplemented!() }
}

impl<'a> VxResultResource<'a> {
    pub uninterp spec fn res(&self) -> VxTextResource;

    #[verifier::external_body]
    pub fn as_ref(&self) -> (r: &'a VxTextResource)
        ensures *r == self.res(),
    { unimplemented!() }

    /// stands for the derived Clone of ResultItem (two references)
    #[verifier::external_body]
    pub fn clone(&self) -> (r: Self)
        ensures r == *self,
    { unimplemented!() }

    /// stands for FindText::textselection on a resource: Ok(begin..end) iff the offset is accepted (C04)
    #[verifier::external_body]
    pub fn textselection(&self, offset: &Offset) -> (r: Result<ResultTextSelection<'a>, StamError>)
        ensures
            r is Ok <==> (offset.begin is BeginAligned && offset.end is BeginAligned && offset.begin->BeginAligned_0 <= offset.end->BeginAligned_0 <= self.res().textlen()),
            r is Ok ==> r->Ok_0.begin() == offset.begin->BeginAligned_0 && r->Ok_0.end() == offset.end->BeginAligned_0,
    { unimplemented!() }
}

/// a position is a segment boundary iff some known selection begins or ends there (milestones have empty lists)
pub open spec fn boundary(res: VxTextResource, p: usize) -> bool {
    res.entry(p) is Some && (res.entry(p).unwrap().begin2end@.len() > 0 || res.entry(p).unwrap().end2begin@.len() > 0)
}

pub open spec fn increasing(s: Seq<usize>) -> bool { forall|i: int, j: int| 0 <= i < j < s.len() ==> s[i] < s[j] }
'''


def build():
    u = Unit('u_seg', serves=['C07'])
    common.target64(u)
    u.item('src/types.rs', 'enum', 'Cursor', keep_derives=['Debug', 'Clone', 'Copy', 'PartialEq'])
    u.item('src/selector.rs', 'struct', 'Offset', keep_derives=['Clone', 'Copy', 'PartialEq'])
    u.item('src/error.rs', 'enum', 'StamError', keep_variants=['CursorOutOfBounds', 'InvalidOffset', 'OtherError'], keep_derives=['Debug'])
    u.item(T, 'struct', 'TextSelectionHandle', keep_derives=['Clone', 'Copy'])
    u.item(T, 'struct', 'PositionIndexItem', keep_derives=[],
           rewrites=[('R-smallvec', r'SmallVec<\[\(usize, TextSelectionHandle\); 1\]>', 'Vec<(usize, TextSelectionHandle)>')])
    u.trusted_text(STUBS, 'external_body stubs: VxPositions (ascending position-index keys), VxResultResource/VxTextResource (position lookup, positions / positions_in_range as the uninterpreted index_positions(mode, begin, end), textlen, clone, textselection acceptance as proved in u_off), ResultTextSelection (opaque)')
    u.impl('src/selector.rs', 'impl Offset', [
        Fn('simple', props=P, ret='r', ensures=[('fields', 'r.begin == Cursor::BeginAligned(begin) && r.end == Cursor::BeginAligned(end)')]),
    ])
    u.impl(T, 'impl PositionIndexItem', [
        Fn('len_begin2end', props=P, ret='r', ensures=[('len', 'r == self.begin2end@.len()')]),
        Fn('len_end2begin', props=P, ret='r', ensures=[('len', 'r == self.end2begin@.len()')]),
    ])
    u.item('src/resources.rs', 'enum', 'PositionMode', keep_derives=[])
    u.item(F, 'struct', 'SegmentationIter', keep_derives=[],
           rewrites=[('R-opaque', r"Box<dyn Iterator<Item = &'a usize> \+ 'a>", "VxPositions<'a>"),
                     ('R-opaque', r"ResultItem<'a, TextResource>", "VxResultResource<'a>"),
                     ('R-vis', r'\b(positions|resource|cursor|end):', r'pub \1:')])
    OLDR = 'old(self).positions.remaining()'
    u.impl(F, "impl<'a> Iterator for SegmentationIter<'a>", [
        Fn('next', props=P, ret='r', sig_rewrites=[('R-inherent', r'Self::Item', "ResultTextSelection<'a>")],
           requires=[('range', 'old(self).cursor <= old(self).end <= old(self).resource.res().textlen()'),
                     ('positions_sorted', f'increasing({OLDR})'),
                     ('positions_indexed', f'forall|i: int| 0 <= i < {OLDR}.len() ==> old(self).resource.res().entry(#[trigger] {OLDR}[i]) is Some')],
           ensures=[
               ('done_iff', 'r is None <==> old(self).cursor >= old(self).end'),
               ('consecutive', 'r is Some ==> r.unwrap().begin() == old(self).cursor && r.unwrap().end() == final(self).cursor'),
               ('nonempty_inside', 'r is Some ==> old(self).cursor < final(self).cursor <= old(self).end'),
               ('frame', 'final(self).end == old(self).end && final(self).resource == old(self).resource && (r is None ==> final(self).cursor == old(self).cursor)'),
               ('positions_suffix', f'exists|k: int| 0 <= k <= {OLDR}.len() && final(self).positions.remaining() == {OLDR}.skip(k)'),
               ('cut_at_boundary_or_end', 'r is Some ==> final(self).cursor == old(self).end || boundary(old(self).resource.res(), final(self).cursor)'),
               ('no_boundary_skipped', f'''r is Some ==> forall|i: int| 0 <= i < {OLDR}.len() && old(self).cursor < (#[trigger] {OLDR}[i]) < final(self).cursor ==> !boundary(old(self).resource.res(), {OLDR}[i])'''),
               ('cut_is_next_boundary', f'''r is Some && final(self).cursor < old(self).end ==> exists|i: int| 0 <= i < {OLDR}.len() && {OLDR}[i] == final(self).cursor'''),
               ('to_end_only_without_boundary', f'''r is Some && final(self).cursor == old(self).end ==> forall|i: int| 0 <= i < {OLDR}.len() && old(self).cursor < (#[trigger] {OLDR}[i]) < old(self).end ==> !boundary(old(self).resource.res(), {OLDR}[i])'''),
           ],
           prologue='let ghost mut vx_k: int = 0;',
           after=[('if let Some(pos) = self.positions.next() {', 'proof { vx_k = vx_k + 1; assert(*pos == ' + OLDR + '[vx_k - 1]); }')],
           before=[('return Some(textselection);', 'proof { assert(self.positions.remaining() == ' + OLDR + '.skip(vx_k)); }', 0),
                   ('return Some(textselection);', 'proof { assert(self.positions.remaining() == ' + OLDR + '.skip(vx_k)); }', 1),
                   ('return Some(textselection);', 'proof { assert(self.positions.remaining() == ' + OLDR + '.skip(vx_k)); }', 2),
                   ('return None;', 'proof { assert(self.positions.remaining() == ' + OLDR + '.skip(vx_k)); }')],
           loops={0: dict(
               invariant=[
                   ('state', 'self.cursor == old(self).cursor && self.end == old(self).end && self.resource == old(self).resource'),
                   ('consumed', f'0 <= vx_k <= {OLDR}.len() && self.positions.remaining() == {OLDR}.skip(vx_k)'),
                   ('no_boundary_so_far', f'forall|i: int| 0 <= i < vx_k && old(self).cursor < (#[trigger] {OLDR}[i]) ==> !boundary(old(self).resource.res(), {OLDR}[i])'),
                   ('range', 'self.cursor <= self.end <= self.resource.res().textlen()'),
                   ('pre', f'increasing({OLDR}) && forall|i: int| 0 <= i < {OLDR}.len() ==> old(self).resource.res().entry(#[trigger] {OLDR}[i]) is Some'),
               ],
               decreases='self.positions.remaining().len()')},
           ),
    ], verus_header="impl<'a> SegmentationIter<'a>")
    # the constructors: which positions the iterator is given, and where it starts and ends
    u.impl(F, "impl<'store> ResultItem<'store, TextResource>", [
        Fn('segmentation', props=P, ret='r',
           ensures=[('positions', 'r.positions.remaining() == self.res().index_positions(PositionMode::Both, 0, usize::MAX)'),
                    ('range', 'r.cursor == 0 && r.end == self.res().textlen()'), ('walkable', 'r.cursor <= r.end <= self.res().textlen()'), ('resource', 'r.resource == *self')]),
        # the requested range clipped to the text (there is nothing to segment beyond it); this is what establishes the
        # precondition `cursor <= end <= textlen` under which `next` is proved
        Fn('segmentation_in_range', props=P, ret='r',
           ensures=[('range', 'r.end == (if end <= self.res().textlen() { end } else { self.res().textlen() }) && r.cursor == (if begin <= r.end { begin } else { r.end })'),
                    ('walkable', 'r.cursor <= r.end <= self.res().textlen()'),
                    ('positions', 'r.positions.remaining() == self.res().index_positions(PositionMode::Both, r.cursor, r.end)'),
                    ('resource', 'r.resource == *self')]),
    ], verus_header="impl<'store> VxResultResource<'store>")
    return u

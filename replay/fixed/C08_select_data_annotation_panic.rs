// replay of the defect repaired by /repo commit f86ef26 (C08): copy to /repo/tests/ and run it with cargo test; it fails on the parent commit.
// SELECT DATA with an ANNOTATION ?var constraint that is not the first constraint panics
// (DataIterator::filter_annotation() builds a filter that FilteredData does not handle).
use stam::*;

fn store() -> AnnotationStore {
    let mut store = AnnotationStore::default()
        .with_id("s")
        .with_resource(
            TextResourceBuilder::new()
                .with_id("r")
                .with_text("Hello world"),
        )
        .unwrap();
    store
        .annotate(
            AnnotationBuilder::new()
                .with_id("A1")
                .with_target(SelectorBuilder::textselector("r", Offset::simple(0, 5)))
                .with_data_with_id("set", "pos", "intj", "D_intj")
                .with_data_with_id("set", "n", 1isize, "D_n1"),
        )
        .unwrap();
    store
        .annotate(
            AnnotationBuilder::new()
                .with_id("A2")
                .with_target(SelectorBuilder::textselector("r", Offset::simple(6, 11)))
                .with_data_with_id("set", "pos", "noun", "D_noun")
                .with_data_with_id("set", "n", 2isize, "D_n2"),
        )
        .unwrap();
    store
}

fn rows(store: &AnnotationStore, q: &str) -> Vec<String> {
    let query: Query = q.try_into().unwrap();
    let mut out = Vec::new();
    for row in store.query(query).unwrap() {
        let ids: Vec<&str> = row
            .iter()
            .map(|item| match item {
                QueryResultItem::Annotation(a) => a.id().unwrap(),
                QueryResultItem::AnnotationData(d) => d.id().unwrap(),
                x => panic!("unexpected {:?}", x),
            })
            .collect();
        out.push(ids.join(" "));
    }
    out.sort();
    out
}

#[test]
fn select_data_constraint_order() {
    let store = store();
    // ANNOTATION ?a as first constraint works
    let first = rows(
        &store,
        "SELECT ANNOTATION ?a { SELECT DATA ?d WHERE ANNOTATION ?a; DATA \"set\" \"n\" > 0; }",
    );
    assert_eq!(first, vec!["A1 D_n1", "A2 D_n2"]);
    // the same constraints in the other order must give the same result (it panics with
    // 'entered unreachable code: Filter Annotation(..) not implemented for FilteredData')
    let second = std::panic::catch_unwind(|| {
        let store = self::store();
        rows(
            &store,
            "SELECT ANNOTATION ?a { SELECT DATA ?d WHERE DATA \"set\" \"n\" > 0; ANNOTATION ?a; }",
        )
    });
    assert!(
        second.is_ok(),
        "SELECT DATA WHERE DATA ..; ANNOTATION ?a; must not panic"
    );
    assert_eq!(
        second.unwrap(),
        first,
        "the result must not depend on the order of the constraints"
    );
}

#[test]
fn iterator_api_filter_annotation() {
    let store = store();
    let a2 = store.annotation("A2").unwrap();
    let result = std::panic::catch_unwind(std::panic::AssertUnwindSafe(|| {
        let mut ids: Vec<_> = store
            .data()
            .filter_annotation(&a2)
            .map(|d| d.id().unwrap().to_string())
            .collect();
        ids.sort();
        ids
    }));
    assert!(
        result.is_ok(),
        "DataIterator::filter_annotation() must not panic"
    );
    assert_eq!(
        result.unwrap(),
        vec!["D_n2", "D_noun"],
        "filter_annotation() must keep exactly the data used by the annotation"
    );
}

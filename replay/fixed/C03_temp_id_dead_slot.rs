// replay of the defect repaired by /repo commit 18f46b2 (C03): copy to /repo/tests/ and run it with cargo test; it fails on the parent commit.
// resolve_annotation_id / resolve_resource_id / resolve_dataset_id (= StoreFor::resolve_id) answer
// Ok(handle) for a temporary identifier whose position holds no live item: never existed, or removed.
use stam::*;

fn store() -> AnnotationStore {
    AnnotationStore::new(Config::default())
        .with_id("base")
        .with_resource(TextResourceBuilder::new().with_id("r0").with_text("Hello world"))
        .unwrap()
        .with_dataset(AnnotationDataSetBuilder::new().with_id("s0"))
        .unwrap()
        .with_annotation(
            AnnotationBuilder::new()
                .with_id("a0")
                .with_target(SelectorBuilder::textselector("r0", Offset::simple(0, 5)))
                .with_data_with_id("s0", "pos", "interj", "d0"),
        )
        .unwrap()
}

#[test]
fn temporary_id_of_nothing_does_not_resolve() {
    let store = store();
    assert!(store.resolve_annotation_id("!A0").is_ok(), "sanity: live item");
    assert!(
        store.resolve_annotation_id("!A999").is_err(),
        "expected: \"!A999\" resolves to nothing (there is no annotation 999); got {:?}",
        store.resolve_annotation_id("!A999")
    );
    assert!(
        store.resolve_resource_id("!R7").is_err(),
        "expected: \"!R7\" resolves to nothing; got {:?}",
        store.resolve_resource_id("!R7")
    );
    assert!(
        store.resolve_dataset_id("!S7").is_err(),
        "expected: \"!S7\" resolves to nothing; got {:?}",
        store.resolve_dataset_id("!S7")
    );
}

#[test]
fn temporary_id_stops_resolving_on_removal() {
    let mut store = store();
    store.remove_annotation("a0").unwrap();
    assert!(store.resolve_annotation_id("a0").is_err(), "sanity: public id is gone");
    assert!(
        store.resolve_annotation_id("!A0").is_err(),
        "expected: the temporary id of a removed annotation stops resolving; got {:?}",
        store.resolve_annotation_id("!A0")
    );
}

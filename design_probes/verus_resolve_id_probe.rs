use vstd::prelude::*;
use std::collections::HashMap;
verus! {
#[derive(Debug)]
pub enum StamError { HandleError(&'static str), IdNotFoundError(String, &'static str), NoIdError(&'static str) }
#[verifier::external_body]
pub fn vx_msg() -> String { String::new() }
pub trait Handle: Copy + PartialEq + Sized + core::fmt::Debug {
    spec fn idx(&self) -> usize;
    fn new(intid: usize) -> (r: Self) ensures r.idx() == intid;
    fn as_usize(&self) -> (r: usize) ensures r == self.idx();
}
pub struct IdMap<HandleType> {
    pub data: HashMap<String, HandleType>,
    pub autoprefix: String,
    pub resolve_temp_ids: bool,
}
pub trait Storable: PartialEq + Sized { type HandleType: Handle; }

#[verifier::external_body]
pub fn resolve_temp_id(id: &str) -> Option<usize> { None }

pub trait StoreFor<T: Storable>: Sized {
    spec fn view_store(&self) -> Seq<Option<T>>;
    fn store(&self) -> (r: &Vec<Option<T>>) ensures r@ == self.view_store();
    fn idmap(&self) -> Option<&IdMap<T::HandleType>>;
    fn store_typeinfo() -> &'static str;

    fn resolve_id(&self, id: &str) -> Result<T::HandleType, StamError> {
        if let Some(idmap) = self.idmap() {
            if idmap.resolve_temp_ids {
                if let Some(handle) = resolve_temp_id(id) {
                    return Ok(T::HandleType::new(handle));
                }
            }
            if let Some(handle) = idmap.data.get(id) {
                Ok(*handle)
            } else {
                Err(StamError::IdNotFoundError(
                    vx_msg(),
                    Self::store_typeinfo(),
                ))
            }
        } else {
            Err(StamError::NoIdError(Self::store_typeinfo()))
        }
    }

    fn get__str(&self, item: &str) -> (r: Result<&T, StamError>)
    {
        if let Some(handle) = self.resolve_id(item).ok() {
            if let Some(Some(item)) = self.store().get(handle.as_usize()) {
                return Ok(item);
            }
        }
        Err(StamError::HandleError(Self::store_typeinfo()))
    }
    fn get__handle(&self, item: T::HandleType) -> (r: Result<&T, StamError>)
        ensures r is Ok <==> (item.idx() < self.view_store().len() && self.view_store()[item.idx() as int] is Some)
    {
        if let Some(handle) = Some(item) {
            if let Some(Some(item)) = self.store().get(handle.as_usize()) {
                return Ok(item);
            }
        }
        Err(StamError::HandleError(Self::store_typeinfo()))
    }
}
} // verus!
fn main() {}

"""U-sub: the range-compression loop of AnnotationStore::subselectors (src/annotationstore.rs), cut out as a
region on top of U-off: adjacent selectors are merged into an internal ranged selector only when that
loses nothing - expanding the result gives back the input sequence.  Serves C01 (targets are what the
annotation was built with) and C19 (no arithmetic panic for any handle order)."""
from vx.gen import Unit, Fn
from . import common
from . import u_off

P = ['C01', 'C19']
AS = 'src/annotationstore.rs'

SPEC = r'''
/// the selectors an internal ranged selector stands for
pub open spec fn expand(sel: Selector) -> Seq<Selector> {
    match sel {
        Selector::RangedTextSelector { resource, begin, end } =>
            Seq::new((end.0 - begin.0 + 1) as nat, |i: int| Selector::TextSelector(resource, TextSelectionHandle((begin.0 + i) as u32), OffsetMode::BeginBegin)),
        Selector::RangedAnnotationSelector { begin, end, with_text: false } =>
            Seq::new((end.0 - begin.0 + 1) as nat, |i: int| Selector::AnnotationSelector(AnnotationHandle((begin.0 + i) as u32), None)),
        _ => seq![sel],
    }
}

pub open spec fn flat(s: Seq<Selector>) -> Seq<Selector>
    decreases s.len()
{
    if s.len() == 0 { Seq::empty() } else { flat(s.drop_last()) + expand(s.last()) }
}

/// inputs of the merge loop: simple selectors (the loop never sees ranged ones); annotation selectors with an
/// offset are excluded here (their compression additionally depends on the parent's text, see DESIGN.md)
pub open spec fn simple_input(s: Seq<Selector>) -> bool {
    forall|i: int| 0 <= i < s.len() ==> match #[trigger] s[i] {
        Selector::RangedTextSelector { .. } => false,
        Selector::RangedAnnotationSelector { .. } => false,
        Selector::AnnotationSelector(_, Some(_)) => false,
        _ => true,
    }
}

/// what the loop builds: every ranged selector is a proper ascending range
pub open spec fn ranges_ok(s: Seq<Selector>) -> bool {
    forall|i: int| 0 <= i < s.len() ==> match #[trigger] s[i] {
        Selector::RangedTextSelector { begin, end, .. } => begin.0 < end.0,
        Selector::RangedAnnotationSelector { begin, end, with_text } => begin.0 < end.0 && !with_text,
        Selector::AnnotationSelector(_, Some(_)) => false,
        _ => true,
    }
}

pub proof fn lemma_flat_push(s: Seq<Selector>, x: Selector)
    ensures flat(s.push(x)) =~= flat(s) + expand(x),
{
    assert(s.push(x).drop_last() =~= s);
    assert(s.push(x).last() == x);
}

pub proof fn lemma_flat_update_last(s: Seq<Selector>, y: Selector)
    requires s.len() > 0,
    ensures flat(s.update(s.len() - 1, y)) =~= flat(s.drop_last()) + expand(y),
{
    let u = s.update(s.len() - 1, y);
    assert(u.drop_last() =~= s.drop_last());
    assert(u.last() == y);
}
'''


MERGE_HINT = '''proof {
                let i = vx_it.index@ as int;
                assert(tmp@.take(i + 1) =~= tmp@.take(i).push(vx_sel));
                if vx_skip {
                    let y = results@.last();
                    assert(results@ =~= vx_r0.update(vx_r0.len() - 1, y));
                    lemma_flat_update_last(vx_r0, y);
                    assert(flat(vx_r0) =~= flat(vx_r0.drop_last()) + expand(vx_r0.last()));
                    assert(expand(y) =~= expand(vx_r0.last()) + seq![vx_sel]);
                    assert(flat(results@) =~= (flat(vx_r0.drop_last()) + expand(vx_r0.last())) + seq![vx_sel]);
                    assert(flat(results@) =~= flat(vx_r0).push(vx_sel));
                } else {
                    assert(results@ =~= vx_r0.push(vx_sel));
                    lemma_flat_push(vx_r0, vx_sel);
                    assert(expand(vx_sel) =~= seq![vx_sel]);
                    assert(flat(results@) =~= flat(vx_r0).push(vx_sel));
                }
                assert(flat(results@) =~= tmp@.take(i + 1));
            }'''


def build():
    u = u_off.build(name='u_sub', selector_variants=('TextSelector', 'AnnotationSelector', 'ResourceSelector', 'RangedTextSelector', 'RangedAnnotationSelector'))
    u.serves = ['C01', 'C19']
    u.spec(SPEC, 'contracts/u_sub.py:SPEC')
    SIG = 'fn subselectors__merge(&self, tmp: Vec<Selector>) -> Result<Vec<Selector>, StamError>'
    u.impl(AS, 'impl AnnotationStore', [
        Fn('subselectors', emit_name='subselectors__merge', props=P, ret='r',
           region=('let mut results = Vec::with_capacity(tmp.len());', r're:Ok\(results\)\s*\}\s*\Z', SIG, '        Ok(results)'),
           # R-continue: Verus has no `continue` in for-loops: `if C { A; continue; } .. S` becomes a skip flag
           rewrites=[('R-forname', r'for selector in tmp \{', 'for selector in vx_it: tmp { let mut vx_skip = false; let ghost vx_sel = selector; let ghost vx_r0 = results@;'),
                     ('R-continue', r'continue; //prevent reaching the push below', 'vx_skip = true;'),
                     ('R-continue', r'results\.push\(selector\);', 'if !vx_skip { results.push(selector); }')],
           after=[('if !vx_skip { results.push(selector); }', MERGE_HINT, None, 'lossless')],
           requires=[('simple', 'simple_input(tmp@)')],
           ensures=[('ok', 'r is Ok'),
                    ('lossless', 'r is Ok ==> flat(r->Ok_0@) =~= tmp@'),
                    ('proper_ranges', 'r is Ok ==> ranges_ok(r->Ok_0@)')],
           loops={r'vx_it: tmp\b': dict(invariant=[
               ('lossless', 'flat(results@) =~= tmp@.take(vx_it.index@ as int)'),
               ('ranges', 'ranges_ok(results@)'),
               ('input', 'simple_input(tmp@)'),
           ])}),
    ])
    return u

// replay of the defect repaired by /repo commit 205e126 (C10): copy to /repo/tests/ and run it with cargo test; it fails on the parent commit.
// A key or data item of dataset A, handed to a lookup in dataset B, is answered with whatever B holds at the same
// position: the request is redirected to another item. (Every dataset numbers its keys and data from 0.)
use stam::*;

fn store() -> AnnotationStore {
    AnnotationStore::new(Config::default())
        .with_id("s")
        .with_dataset(AnnotationDataSetBuilder::new().with_id("A").with_key_value_id("x", "vx", "dx"))
        .unwrap()
        .with_dataset(AnnotationDataSetBuilder::new().with_id("B").with_key_value_id("y", "vy", "dy"))
        .unwrap()
}

#[test]
fn key_of_another_dataset_is_not_this_key() {
    let store = store();
    let key_ax = store.key("A", "x").expect("key x in A");
    let key_by = store.key("B", "y").expect("key y in B");
    assert!(key_ax != key_by, "sanity: different keys of different sets are not equal");
    assert!(key_ax.test(&key_ax), "sanity: a key is itself");

    // "Tests whether two DataKeys are the same"
    assert!(
        !key_by.test(&key_ax),
        "key(\"B\",\"y\").test(&key(\"A\",\"x\")) must be false: they are different keys of different datasets"
    );
    assert!(
        !key_by.test(key_ax.clone()),
        "key(\"B\",\"y\").test(key(\"A\",\"x\")) must be false"
    );
}

#[test]
fn lookup_with_item_of_another_dataset_finds_nothing() {
    let store = store();
    let key_ax = store.key("A", "x").expect("key x in A");
    let data_ax = store.annotationdata("A", "dx").expect("data dx in A");
    let set_b = store.dataset("B").expect("dataset B");

    // B holds no key "x" and no data "dx": expected None
    assert_eq!(
        set_b.key(&key_ax).and_then(|k| k.id()),
        None,
        "dataset B was asked for key \"x\" of dataset A, which it does not hold; it must return None and not its own key"
    );
    assert_eq!(
        store.key("B", &key_ax).and_then(|k| k.id()),
        None,
        "store.key(\"B\", <key x of A>) must return None"
    );
    assert_eq!(
        set_b.annotationdata(&data_ax).and_then(|d| d.id()),
        None,
        "dataset B was asked for data \"dx\" of dataset A; it must return None and not its own data"
    );
    assert_eq!(
        store.annotationdata("B", &data_ax).and_then(|d| d.id()),
        None,
        "store.annotationdata(\"B\", <data dx of A>) must return None"
    );
    // searching B for data with key x of A: there is none
    let found: Vec<_> = store
        .find_data("B", &key_ax, DataOperator::Any)
        .map(|d| d.id().unwrap_or("?").to_string())
        .collect();
    assert!(
        found.is_empty(),
        "find_data(\"B\", <key x of A>, Any) must be empty, dataset B has no data with that key; got {:?}",
        found
    );
    // the value test on a data item of B with the key of A
    let data_by = store.annotationdata("B", "dy").expect("data dy in B");
    assert!(
        !data_by.test(&key_ax, &DataOperator::Any),
        "data dy of B does not have key x of A, test() must be false"
    );
}

// Trusted specifications of integer methods vstd does not cover.
pub assume_specification [isize::abs] (x: isize) -> (r: isize)
    requires x != isize::MIN,
    ensures r == (if x < 0 { -x } else { x as int });

pub assume_specification [isize::unsigned_abs] (x: isize) -> (r: usize)
    ensures r == (if x < 0 { -x } else { x as int });

pub assume_specification [isize::abs_diff] (a: isize, b: isize) -> (r: usize)
    ensures r == (if a >= b { a - b } else { b - a });

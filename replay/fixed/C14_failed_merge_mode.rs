// replay of the defect repaired by /repo commit ad3defe (C14): copy to /repo/tests/ and run it with cargo test; it fails on the parent commit.
// A merge_json_str()/merge_json_file() that returns an error leaves the store in "merge mode"
// (and merge_json_file() also forgets the store's filename and changes its working directory).
// Afterwards the store answers the same requests differently than before the failed call.
use stam::*;

fn base() -> AnnotationStore {
    AnnotationStore::default()
        .with_id("s")
        .with_resource(
            TextResourceBuilder::new()
                .with_id("r1")
                .with_text("hello world"),
        )
        .unwrap()
        .with_dataset(
            AnnotationDataSetBuilder::new()
                .with_id("set1")
                .with_key_value_id("k1", "v1", "d1"),
        )
        .unwrap()
}

/// a store in which one annotation refers to a resource that does not exist
const BROKEN: &str = r#"{ "@type": "AnnotationStore", "annotations": [
    { "@type": "Annotation", "@id": "a1",
      "target": { "@type": "ResourceSelector", "resource": "nonexistent" }, "data": [] } ] }"#;

fn keys(store: &AnnotationStore) -> Vec<String> {
    store
        .dataset("set1")
        .unwrap()
        .keys()
        .map(|k| k.as_str().to_string())
        .collect()
}

#[test]
fn failed_merge_json_str_leaves_merge_mode_on() {
    // control: what the store answers without the failed call
    let mut control = base();
    let r = control.add_dataset(AnnotationDataSetBuilder::new().with_id("set1").with_key("k2"));
    assert!(
        matches!(r, Err(StamError::DuplicateIdError(..))),
        "control: a second dataset with id set1 is refused"
    );
    assert_eq!(keys(&control), vec!["k1".to_string()]);

    let mut store = base();
    assert!(
        store.merge_json_str(BROKEN).is_err(),
        "the merge must fail (unknown resource)"
    );

    // the very same request now must get the very same answer
    let r = store.add_dataset(AnnotationDataSetBuilder::new().with_id("set1").with_key("k2"));
    assert!(
        matches!(r, Err(StamError::DuplicateIdError(..))),
        "after a FAILED merge_json_str() a duplicate dataset id must still be refused with DuplicateIdError, got {:?}",
        r
    );
    assert_eq!(
        keys(&store),
        vec!["k1".to_string()],
        "after a FAILED merge_json_str() a refused dataset must not be merged into the existing set1"
    );
}

#[test]
fn failed_merge_json_file_loses_filename_and_workdir() {
    let dir = std::env::temp_dir().join("stam_hunt_l_bug1");
    std::fs::create_dir_all(&dir).unwrap();
    let bad = dir.join("bad.store.stam.json");
    std::fs::write(&bad, BROKEN).unwrap();

    let mut store = base().with_filename("mystore.store.stam.json");
    assert_eq!(store.filename(), Some("mystore.store.stam.json"));
    let workdir_before = store.config().workdir().map(|p| p.to_owned());

    assert!(
        store.merge_json_file(bad.to_str().unwrap()).is_err(),
        "the merge must fail (unknown resource)"
    );

    assert_eq!(
        store.filename(),
        Some("mystore.store.stam.json"),
        "after a FAILED merge_json_file() the store must still know its own filename"
    );
    assert_eq!(
        store.config().workdir().map(|p| p.to_owned()),
        workdir_before,
        "after a FAILED merge_json_file() the working directory of the store must be what it was"
    );
    let r = store.add_dataset(AnnotationDataSetBuilder::new().with_id("set1").with_key("k2"));
    assert!(
        matches!(r, Err(StamError::DuplicateIdError(..))),
        "after a FAILED merge_json_file() a duplicate dataset id must still be refused, got {:?}",
        r
    );
}

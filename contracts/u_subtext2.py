"""U-subtext2: the relative codepoint/byte conversions of `impl Text for ResultItem<TextSelection>` (src/api/text.rs),
under the same contracts as u_subtext (which covers the ResultTextSelection implementation).  Serves C12."""
from . import u_subtext


def build():
    return u_subtext.build2()

// replay of the defect repaired by /repo commit c4f2599 (C08): copy to /repo/tests/ and run it with cargo test; it fails on the parent commit.
// DELETE query: when the sub-query returns the item to delete in more than one row
// (a nested sub-query yields one row per inner match), query_mut() fails with NotFoundError
// after the first removal and leaves the other matching items in the store.
use stam::*;

/// "aa bb cc dd": words w0..w3, phrase pA = "aa bb" (embeds w0,w1), phrase pB = "cc dd" (embeds w2,w3)
fn store() -> AnnotationStore {
    let mut store = AnnotationStore::default()
        .with_id("s")
        .with_resource(
            TextResourceBuilder::new()
                .with_id("r")
                .with_text("aa bb cc dd"),
        )
        .unwrap();
    for (i, (b, e)) in [(0, 2), (3, 5), (6, 8), (9, 11)].iter().enumerate() {
        store = store
            .with_annotation(
                AnnotationBuilder::new()
                    .with_id(format!("w{}", i))
                    .with_target(SelectorBuilder::textselector("r", Offset::simple(*b, *e)))
                    .with_data("set", "type", "word"),
            )
            .unwrap();
    }
    for (id, (b, e)) in [("pA", (0, 5)), ("pB", (6, 11))] {
        store = store
            .with_annotation(
                AnnotationBuilder::new()
                    .with_id(id)
                    .with_target(SelectorBuilder::textselector("r", Offset::simple(b, e)))
                    .with_data("set", "type", "phrase"),
            )
            .unwrap();
    }
    store
}

fn annotation_ids(store: &AnnotationStore) -> Vec<String> {
    store
        .annotations()
        .map(|a| a.id().unwrap().to_string())
        .collect()
}

const SELECT: &str = "SELECT ANNOTATION ?p WHERE DATA set type = phrase; { SELECT ANNOTATION ?w WHERE RELATION ?p EMBEDS; DATA set type = word; }";

#[test]
fn delete_query_equals_direct_removal() {
    // reference: run the SELECT, remove every distinct ?p directly
    let mut reference = store();
    let mut handles: Vec<AnnotationHandle> = Vec::new();
    {
        let query: Query = SELECT.try_into().unwrap();
        let mut rows = 0;
        for row in reference.query(query).unwrap() {
            rows += 1;
            if let QueryResultItem::Annotation(a) = row.get_by_name("p").unwrap() {
                if !handles.contains(&a.handle()) {
                    handles.push(a.handle());
                }
            }
        }
        // (pA,w0) (pA,w1) (pB,w2) (pB,w3)
        assert_eq!(rows, 4);
        assert_eq!(handles.len(), 2);
    }
    for handle in handles {
        reference.remove(handle).unwrap();
    }
    assert_eq!(annotation_ids(&reference), vec!["w0", "w1", "w2", "w3"]);

    // the same as a DELETE query
    let mut store = store();
    let stamql = format!("DELETE ANNOTATION ?p {{ {} }}", SELECT);
    let query: Query = stamql.as_str().try_into().unwrap();
    let result = store.query_mut(query).map(|iter| iter.count());
    assert!(
        result.is_ok(),
        "DELETE over a sub-query that returns each phrase in two rows must succeed like the direct removals, got {:?}; annotations left in the store: {:?} (expected {:?})",
        result,
        annotation_ids(&store),
        annotation_ids(&reference)
    );
    assert_eq!(
        annotation_ids(&store),
        annotation_ids(&reference),
        "DELETE must leave the store as the equivalent direct remove() calls do (both phrases gone, words kept)"
    );
}
fn store2() -> AnnotationStore {
    let mut store = AnnotationStore::default()
        .with_resource(TextResourceBuilder::new().with_id("r").with_text("hello world")).unwrap()
        .with_dataset(AnnotationDataSetBuilder::new().with_id("keep")).unwrap()
        .with_dataset(AnnotationDataSetBuilder::new().with_id("drop")).unwrap();
    store.annotate(AnnotationBuilder::new().with_id("A1").with_target(SelectorBuilder::textselector("r", Offset::simple(0, 5))).with_data("keep", "type", "word")).unwrap();
    store.annotate(AnnotationBuilder::new().with_id("A2").with_target(SelectorBuilder::textselector("r", Offset::simple(6, 11))).with_data("drop", "type", "word")).unwrap();
    // B targets A1: removing A1 cascades to B
    store.annotate(AnnotationBuilder::new().with_id("B").with_target(SelectorBuilder::annotationselector("A1", None)).with_data("keep", "type", "word")).unwrap();
    store
}

/// DELETE DATASET removes the dataset (and what uses it), as remove_dataset() does
#[test]
fn delete_dataset_query_removes_the_dataset() {
    let mut by_query = store2();
    // (the STAMQL text form only knows DELETE ANNOTATION; the programmatic form takes any result type)
    let query = Query::new(QueryType::Delete, Some(Type::AnnotationDataSet), Some("s"))
        .with_subquery(Query::new(QueryType::Select, Some(Type::AnnotationDataSet), Some("s")).with_constraint(Constraint::Id("drop")));
    by_query.query_mut(query).expect("query must succeed");
    let mut direct = store2();
    direct.remove_dataset("drop").unwrap();
    assert!(direct.dataset("drop").is_none());
    assert!(by_query.dataset("drop").is_none(), "DELETE DATASET left the dataset in the store");
    let ids = |s: &AnnotationStore| s.annotations().map(|a| a.id().unwrap().to_string()).collect::<Vec<_>>();
    assert_eq!(ids(&by_query), ids(&direct));
}

/// DELETE ANNOTATION over a selection that contains an annotation and one that targets it: the second is already gone when its turn comes
#[test]
fn delete_annotations_that_cascade_to_each_other() {
    let mut by_query = store2();
    let query: Query = "DELETE ANNOTATION ?a { SELECT ANNOTATION ?a WHERE DATA \"keep\" \"type\" = \"word\"; }".try_into().unwrap();
    let r = by_query.query_mut(query).map(|_| ());
    assert!(r.is_ok(), "DELETE failed half-way: {:?}", r);
    let ids: Vec<String> = by_query.annotations().map(|a| a.id().unwrap().to_string()).collect();
    assert_eq!(ids, vec!["A2".to_string()]);
}

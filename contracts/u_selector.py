"""U-selector: the two arms of AnnotationStore::selector (src/annotationstore.rs) that turn an offset into a text selection -
`TextSelector(resource, offset)` and `AnnotationSelector(annotation, Some(offset))` - on top of U-off (where the offset
arithmetic they call is proved).  An offset is accepted only if it denotes a range inside the text it is relative to, the
selector that is built names a text selection of exactly that range, an existing selection of that range is reused (never a
second one), and nothing else in the store changes.  Serves C04 (first anchor of the property) and C14."""
from vx.gen import Unit, Fn
from . import common
from . import u_off

P = ['C04', 'C14']
# the offset-resolving arms of selector() and resource_handle are what a loaded TextSelector / AnnotationSelector reaches (C19: no panic)
PL = P + ['C19']
AS = 'src/annotationstore.rs'

STUBS = r'''
/// minimal stand-in for the Storable trait: BuildItem only needs the associated handle type
pub trait Storable { type HandleType; }
impl Storable for TextResource { type HandleType = TextResourceHandle; }
impl Storable for Annotation { type HandleType = AnnotationHandle; }

impl TextResource {
    /// ghost: the handle this resource carries in the store
    pub uninterp spec fn rh(&self) -> Option<TextResourceHandle>;

    /// the position index and the selection store of a resource agree (invariant of a consistent resource; what
    /// StoreCallbacks<TextSelection>::inserted establishes, u_posidx): a range the index lists under a handle is the range of the selection
    /// stored under that handle
    pub open spec fn res_wf(&self) -> bool {
        forall|b: usize, e: usize, h: TextSelectionHandle| #[trigger] self.listed(b, e, h) ==> (self.sel(h) matches Some(t) && t.begin == b && t.end == e)
    }

    /// stands for Storable::handle_or_err on a resource
    #[verifier::external_body]
    pub fn handle_or_err(&self) -> (r: Result<TextResourceHandle, StamError>)
        ensures r is Ok <==> self.rh() is Some, r is Ok ==> Some(r->Ok_0) == self.rh(),
    { unimplemented!() }

    /// stands for StoreFor<TextSelection>::insert on a resource (generic insert, u_store; its `inserted` callback enters the
    /// selection into the position index, u_posidx): on Ok the selection is stored under a fresh handle and listed under its range;
    /// every other selection and every other index entry stays; nothing is said about a failure (known finding K1)
    #[verifier::external_body]
    pub fn insert(&mut self, item: TextSelection) -> (r: Result<TextSelectionHandle, StamError>)
        ensures
            final(self).textlen == old(self).textlen, final(self).rh() == old(self).rh(),
            r is Ok ==> old(self).sel(r->Ok_0) is None
                && (final(self).sel(r->Ok_0) matches Some(t) && t.begin == item.begin && t.end == item.end)
                && final(self).listed(item.begin, item.end, r->Ok_0)
                && (forall|h: TextSelectionHandle| h != r->Ok_0 ==> #[trigger] final(self).sel(h) == old(self).sel(h))
                && (forall|b: usize, e: usize, h: TextSelectionHandle| #[trigger] final(self).listed(b, e, h) ==> old(self).listed(b, e, h) || (b == item.begin && e == item.end && h == r->Ok_0)),
    { unimplemented!() }
}

impl TextSelection {
    /// stands for Storable::handle on a text selection (`self.intid`)
    #[verifier::external_body]
    pub fn handle(&self) -> (r: Option<TextSelectionHandle>)
        ensures r == self.intid,
    { unimplemented!() }
}

impl AnnotationStore {
    /// ghost: the resource / annotation handle a BuildItem request denotes (bi_denotes of the generic layer, u_store)
    pub uninterp spec fn res_denoted(&self, b: BuildItem<TextResource>) -> Option<TextResourceHandle>;
    pub uninterp spec fn ann_denoted(&self, b: BuildItem<Annotation>) -> Option<AnnotationHandle>;

    /// the store apart from one resource
    pub open spec fn same_but(&self, other: &AnnotationStore, rh: TextResourceHandle) -> bool {
        (forall|h: TextResourceHandle| h != rh ==> #[trigger] self.res(h) == other.res(h))
        && (forall|a: AnnotationHandle| #[trigger] self.ann(a) == other.ann(a))
        && (forall|b: BuildItem<TextResource>| #[trigger] self.res_denoted(b) == other.res_denoted(b))
        && (forall|b: BuildItem<Annotation>| #[trigger] self.ann_denoted(b) == other.ann_denoted(b))
    }

    /// stands for `self.get_mut(&res_id)` (StoreFor<TextResource>::get_mut at a BuildItem, contract proved in u_store as get_mut__build)
    #[verifier::external_body]
    pub fn vx_get_resource_mut__build(&mut self, item: &BuildItem<'_, TextResource>) -> (r: Result<&mut TextResource, StamError>)
        ensures
            r is Ok <==> (old(self).res_denoted(*item) is Some && old(self).res(old(self).res_denoted(*item).unwrap()) is Some),
            r is Ok ==> *r->Ok_0 == old(self).res(old(self).res_denoted(*item).unwrap()).unwrap()
                && r->Ok_0.rh() == old(self).res_denoted(*item)
                && final(self).res(old(self).res_denoted(*item).unwrap()) == Some(*final(r->Ok_0))
                && final(self).same_but(old(self), old(self).res_denoted(*item).unwrap()),
            r is Err ==> *final(self) == *old(self),
    { unimplemented!() }

    /// stands for `self.get_mut(resource_handle)` (StoreFor<TextResource>::get_mut at a handle)
    #[verifier::external_body]
    pub fn vx_get_resource_mut__handle(&mut self, h: TextResourceHandle) -> (r: Result<&mut TextResource, StamError>)
        ensures
            r is Ok <==> old(self).res(h) is Some,
            r is Ok ==> *r->Ok_0 == old(self).res(h).unwrap() && r->Ok_0.rh() == Some(h)
                && final(self).res(h) == Some(*final(r->Ok_0)) && final(self).same_but(old(self), h),
            r is Err ==> *final(self) == *old(self),
    { unimplemented!() }

    /// stands for `self.get(&a_id)` on annotations (StoreFor<Annotation>::get at a BuildItem) followed by handle_or_err
    #[verifier::external_body]
    pub fn vx_get_annotation__build(&self, item: &BuildItem<'_, Annotation>) -> (r: Result<&Annotation, StamError>)
        ensures
            r is Ok <==> (self.ann_denoted(*item) is Some && self.ann(self.ann_denoted(*item).unwrap()) is Some),
            r is Ok ==> *r->Ok_0 == self.ann(self.ann_denoted(*item).unwrap()).unwrap(),
    { unimplemented!() }
}

impl Annotation {
    /// ghost: the handle the annotation carries
    pub uninterp spec fn ah(&self) -> Option<AnnotationHandle>;
    #[verifier::external_body]
    pub fn handle_or_err(&self) -> (r: Result<AnnotationHandle, StamError>)
        ensures r is Ok <==> self.ah() is Some, r is Ok ==> Some(r->Ok_0) == self.ah(),
    { unimplemented!() }
}

/// R-closure-msg: stands for `|err| { eprintln!(..); StamError::BuildError(Box::new(err), "..") }`
#[verifier::external_body]
pub fn vx_build_error(e: StamError) -> StamError { unimplemented!() }

/// every live resource is consistent, every live annotation's target is valid in this store
pub open spec fn store_wf(store: &AnnotationStore) -> bool {
    (forall|h: TextResourceHandle| (#[trigger] store.res(h)) is Some ==> store.res(h).unwrap().res_wf() && store.res(h).unwrap().rh() == Some(h) && store.res(h).unwrap().textlen <= isize::MAX as usize)
    && (forall|a: AnnotationHandle| (#[trigger] store.ann(a)) is Some ==> selector_valid(store.ann(a).unwrap().target, store) && store.ann(a).unwrap().ah() == Some(a))
}
'''

MAPERR = ('R-closure-inline', r'(?s)self\.(get_mut|get)\(&(\w+)\)\.map_err\(\|err\| \{.*?\}\)\?',
          None)


def build():
    u = u_off.build(name='u_selector', selector_variants=('TextSelector', 'AnnotationSelector', 'ResourceSelector'), extra_errors=('NoText',))
    u.serves = ['C04', 'C14', 'C19']
    u.item('src/store.rs', 'enum', 'BuildItem', keep_derives=[])
    u.impl('src/selector.rs', 'impl Offset', [
        # R-inherent: `self.into()` is From<&Offset> for OffsetMode, emitted in u_off as the inherent OffsetMode::from
        Fn('mode', props=P, ret='r', rewrites=[('R-inherent', r'self\.into\(\)', 'OffsetMode::from(self)')], ensures=[('mode', 'r == mode_of(*self)')]),
    ])
    u.trusted_text(STUBS, 'external_body: lookups of the store (get / get_mut at a BuildItem or a handle: contracts of the generic layer, u_store), TextResource::insert (generic insert + position-index callback: u_store, u_posidx; nothing assumed about a failure), handle accessors, the error-wrapping closure')
    O, N = 'old(self)', 'final(self)'
    RH = f'{O}.res_denoted(res_id).unwrap()'
    RES0 = f'{O}.res({RH}).unwrap()'
    RES1 = f'{N}.res({RH}).unwrap()'
    B = f'abs_pos(offset.begin, {RES0}.textlen as int).unwrap() as usize'
    E = f'abs_pos(offset.end, {RES0}.textlen as int).unwrap() as usize'
    get_mut_build = ('R-closure-inline', r'(?s)self\.get_mut\(&res_id\)\.map_err\(\|err\| \{.*?\}\)\?', '(match self.vx_get_resource_mut__build(&res_id) { Ok(vx_v) => vx_v, Err(vx_e) => { return Err(vx_build_error(vx_e)); } })')
    get_ann_build = ('R-closure-inline', r'(?s)self\.get\(&a_id\)\.map_err\(\|err\| \{.*?\}\)\?', '(match self.vx_get_annotation__build(&a_id) { Ok(vx_v) => vx_v, Err(vx_e) => { return Err(vx_build_error(vx_e)); } })')
    u.impl(AS, 'impl AnnotationStore', [
        Fn('selector', emit_name='selector__text', props=PL, ret='r',
           region=('let resource: &mut TextResource = self.get_mut(&res_id)', 'SelectorBuilder::AnnotationSelector(a_id, offset) => {',
                   "fn selector__text(&mut self, res_id: BuildItem<'_, TextResource>, offset: Offset) -> Result<Selector, StamError>", '@arm'),
           rewrites=[get_mut_build],
           requires=[('wf', f'store_wf({O})')],
           ensures=[
               ('refused_unless_inside', f'r is Ok ==> {O}.res_denoted(res_id) is Some && {O}.res({O}.res_denoted(res_id).unwrap()) is Some && accept(offset, {RES0}.textlen as int)'),
               ('the_selector', f'r is Ok ==> (r->Ok_0 matches Selector::TextSelector(rh, th, m) && rh == {RH} && m == mode_of(offset) '
                                f'&& ({RES1}.sel(th) matches Some(t) && t.begin == {B} && t.end == {E}))'),
               ('existing_selection_reused', f'r is Ok && {RES0}.known({B}, {E}) ==> {RES1} == {RES0} && (r->Ok_0 matches Selector::TextSelector(_, th, _) && {RES0}.listed({B}, {E}, th))'),
               ('one_new_selection_at_most', f'r is Ok && !{RES0}.known({B}, {E}) ==> (r->Ok_0 matches Selector::TextSelector(_, th, _) && {RES0}.sel(th) is None && forall|h: TextSelectionHandle| h != th ==> #[trigger] {RES1}.sel(h) == {RES0}.sel(h))'),
               ('frame', f'{O}.res_denoted(res_id) is Some ==> {N}.same_but({O}, {RH})'),
               ('unknown_resource', f'!({O}.res_denoted(res_id) is Some && {O}.res({O}.res_denoted(res_id).unwrap()) is Some) ==> r is Err && *{N} == *{O}'),
               ('refused_changes_nothing', f'({O}.res_denoted(res_id) is Some && {O}.res({O}.res_denoted(res_id).unwrap()) is Some) && !accept(offset, {RES0}.textlen as int) ==> r is Err && {N}.res({RH}) == {O}.res({RH})'),
           ]),
    ])
    # ------------------------------------------------------------------ AnnotationSelector(annotation, offset)
    u.spec('''
impl vstd::std_specs::convert::FromSpecImpl<TextSelection> for Offset {
    open spec fn obeys_from_spec() -> bool { true }
    open spec fn from_spec(t: TextSelection) -> Offset { Offset { begin: Cursor::BeginAligned(t.begin), end: Cursor::BeginAligned(t.end) } }
}
''', 'contracts/u_selector.py:from_spec')
    u.impl('src/textselection.rs', 'impl From<TextSelection> for Offset', [
        Fn('from', props=P, ret='r', ensures=[('simple', 'r.begin == Cursor::BeginAligned(textselection.begin) && r.end == Cursor::BeginAligned(textselection.end)')]),
    ])
    u.impl('src/selector.rs', 'impl Selector', [
        Fn('resource_handle', props=PL, ret='r',
           ensures=[('of_text', 'match *self { Selector::TextSelector(res, _, _) => r == Some(res), Selector::AnnotationSelector(_, Some((res, _, _))) => r == Some(res), Selector::ResourceSelector(res) => r == Some(res), _ => r is None }')]),
    ])
    AH = f'{O}.ann_denoted(a_id).unwrap()'
    ANN = f'{O}.ann({AH}).unwrap()'
    LIVE = f'({O}.ann_denoted(a_id) is Some && {O}.ann({O}.ann_denoted(a_id).unwrap()) is Some)'
    PT = f'target_text({ANN}.target)'
    PRES = f'{PT}.unwrap().0'
    PAR = f'{O}.res({PRES}).unwrap().sel({PT}.unwrap().1).unwrap()'
    R0 = f'{O}.res({PRES}).unwrap()'
    R1 = f'{N}.res({PRES}).unwrap()'
    OFF = 'offset.unwrap()'
    RB = f'resolve_in({OFF}, {PAR}).0 as usize'
    RE = f'resolve_in({OFF}, {PAR}).1 as usize'
    u.impl(AS, 'impl AnnotationStore', [
        Fn('selector', emit_name='selector__annotation', props=PL, ret='r',
           region=('if let Some(offset) = offset {', 'SelectorBuilder::DataSetSelector(id) => {',
                   "fn selector__annotation(&mut self, a_id: BuildItem<'_, Annotation>, offset: Option<Offset>) -> Result<Selector, StamError>", '@arm'),
           rewrites=[get_ann_build,
                     ('R-request', r'self\.get_mut\(resource_handle\)\?', 'self.vx_get_resource_mut__handle(resource_handle)?'),
                     ('R-expect', r'\.expect\("selector must have resource"\)', '.unwrap()')],
           requires=[('wf', f'store_wf({O})')],
           ensures=[
               ('unknown_annotation', f'!{LIVE} ==> r is Err && *{N} == *{O}'),
               ('without_offset', f'{LIVE} && offset is None ==> r is Ok && r->Ok_0 == Selector::AnnotationSelector({AH}, None) && *{N} == *{O}'),
               ('offset_needs_text', f'{LIVE} && offset is Some && {PT} is None ==> r is Err && *{N} == *{O}'),
               ('refused_unless_inside', f'{LIVE} && offset is Some && r is Ok ==> {PT} is Some && accept({OFF}, {PAR}.end - {PAR}.begin)'),
               ('refused_changes_nothing', f'{LIVE} && offset is Some && {PT} is Some && !accept({OFF}, {PAR}.end - {PAR}.begin) ==> r is Err && *{N} == *{O}'),
               ('the_selector', f'{LIVE} && offset is Some && r is Ok ==> (r->Ok_0 matches Selector::AnnotationSelector(ah, Some((rh, th, m))) && ah == {AH} && rh == {PRES} && m == mode_of({OFF}) '
                                f'&& ({R1}.sel(th) matches Some(t) && t.begin == {RB} && t.end == {RE}))'),
               ('existing_selection_reused', f'{LIVE} && offset is Some && r is Ok && {R0}.known({RB}, {RE}) ==> {R1} == {R0}'),
               ('one_new_selection_at_most', f'{LIVE} && offset is Some && r is Ok && !{R0}.known({RB}, {RE}) ==> (r->Ok_0 matches Selector::AnnotationSelector(_, Some((_, th, _))) && {R0}.sel(th) is None && forall|h: TextSelectionHandle| h != th ==> #[trigger] {R1}.sel(h) == {R0}.sel(h))'),
               ('frame', f'{LIVE} && offset is Some && {PT} is Some ==> {N}.same_but({O}, {PRES})'),
           ]),
    ])
    return u

// replay of the defect repaired by /repo commit e25a1ff (C03): copy to /repo/tests/ and run it with cargo test; it fails on the parent commit.
// ResultItem<Annotation>::textselectionset_in() takes a resource request (public id, temporary id
// or handle). If the string does not resolve to a resource, the call panics instead of returning None.
use stam::*;

fn store() -> AnnotationStore {
    AnnotationStore::new(Config::default())
        .with_id("base")
        .with_resource(TextResourceBuilder::new().with_id("r0").with_text("Hello world"))
        .unwrap()
        .with_resource(TextResourceBuilder::new().with_id("r1").with_text("Second text"))
        .unwrap()
        .with_dataset(AnnotationDataSetBuilder::new().with_id("s0"))
        .unwrap()
        .with_annotation(
            AnnotationBuilder::new()
                .with_id("a0")
                .with_target(SelectorBuilder::textselector("r0", Offset::simple(0, 5)))
                .with_data_with_id("s0", "pos", "interj", "d0"),
        )
        .unwrap()
}

#[test]
fn lookup_of_unknown_resource_id_does_not_panic() {
    let store = store();
    let annotation = store.annotation("a0").unwrap();
    //sanity: known resources work, a known resource the annotation has no text in gives None
    assert!(annotation.textselectionset_in("r0").is_some());
    assert!(annotation.textselectionset_in("r1").is_none());

    for id in ["nonexistent", "", "!", "!R", "!Rx", "!A0", "!R-1", "\u{0}", "ünï©ödé 😀"] {
        let result = std::panic::catch_unwind(|| annotation.textselectionset_in(id).is_some());
        assert_eq!(
            result.ok(),
            Some(false),
            "expected: textselectionset_in({:?}) returns None for an identifier that resolves to no resource; it panicked",
            id
        );
    }
}

#[test]
fn lookup_of_removed_resource_id_does_not_panic() {
    let mut store = store();
    store.remove_resource("r1").unwrap();
    let annotation = store.annotation("a0").unwrap();
    let result = std::panic::catch_unwind(|| annotation.textselectionset_in("r1").is_some());
    assert_eq!(
        result.ok(),
        Some(false),
        "expected: the id of a removed resource simply does not resolve (None); it panicked"
    );
}

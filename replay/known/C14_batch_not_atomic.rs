// K1 (C14), batch form: replay of the known finding - copy to /repo/tests/ and run with cargo test; it fails on the current tree.
// A batch of annotations (annotate_from_iter(), annotate_from_file(), an ADD query over several
// rows) that fails on a later member leaves the earlier members in the store.
use stam::*;

fn base() -> AnnotationStore {
    AnnotationStore::default()
        .with_id("test")
        .with_resource(
            TextResourceBuilder::new()
                .with_id("testres")
                .with_text("Hello world"),
        )
        .unwrap()
        .with_dataset(
            AnnotationDataSetBuilder::new()
                .with_id("testdataset")
                .with_key_value_id("pos", "noun", "D1"),
        )
        .unwrap()
        .with_annotation(
            AnnotationBuilder::new()
                .with_id("A1")
                .with_target(SelectorBuilder::textselector(
                    "testres",
                    Offset::simple(6, 11),
                ))
                .with_existing_data("testdataset", "D1"),
        )
        .unwrap()
}

/// what the store says about its annotations
fn annotations(store: &AnnotationStore) -> Vec<String> {
    store
        .annotations()
        .map(|a| {
            format!(
                "{:?} {:?} {:?} {:?}",
                a.handle(),
                a.id(),
                a.as_ref().target(),
                a.as_ref().raw_data()
            )
        })
        .collect()
}

fn batch<'a>(second_end: usize) -> Vec<AnnotationBuilder<'a>> {
    vec![
        AnnotationBuilder::new()
            .with_target(SelectorBuilder::textselector(
                "testres",
                Offset::simple(0, 5),
            ))
            .with_existing_data("testdataset", "D1"),
        AnnotationBuilder::new()
            .with_target(SelectorBuilder::textselector(
                "testres",
                Offset::simple(0, second_end),
            ))
            .with_existing_data("testdataset", "D1"),
    ]
}

#[test]
fn failed_annotate_from_iter_leaves_no_annotation() {
    let mut store = base();
    let before = annotations(&store);
    let d1_before = store
        .annotationdata("testdataset", "D1")
        .unwrap()
        .annotations()
        .count();

    // the second member has an offset beyond the text (11 characters)
    let result = store.annotate_from_iter(batch(500));
    assert!(result.is_err(), "the batch has an out-of-range offset");
    assert_eq!(
        store.annotations_len(),
        1,
        "the call returned an error: no annotation may have been added"
    );
    assert_eq!(
        annotations(&store),
        before,
        "the call returned an error: the annotations must be what they were"
    );
    assert_eq!(
        store
            .annotationdata("testdataset", "D1")
            .unwrap()
            .annotations()
            .count(),
        d1_before,
        "the call returned an error: D1 must be used by as many annotations as before"
    );

    // the same call with the mistake corrected
    let handles = store
        .annotate_from_iter(batch(11))
        .expect("corrected batch is valid");
    assert_eq!(
        handles,
        vec![AnnotationHandle::new(1), AnnotationHandle::new(2)],
        "the corrected batch must get the handles it would have got without the failed attempt"
    );
    assert_eq!(
        store.annotations().count(),
        3,
        "A1 and the two annotations of the corrected batch, the first one not twice"
    );
}

#[test]
fn failed_annotate_from_file_leaves_no_annotation() {
    let mut store = base();
    let before = annotations(&store);
    let filename = std::env::temp_dir().join("hunt_x_bug1.annotations.json");
    let json = |resource: &str| {
        format!(
            r#"[
            {{ "@type": "Annotation", "@id": "A2",
               "target": {{ "@type": "TextSelector", "resource": "testres", "offset": {{ "begin": {{"@type":"BeginAlignedCursor","value":0}}, "end": {{"@type":"BeginAlignedCursor","value":5}} }} }},
               "data": [ {{ "@type": "AnnotationData", "@id": "D1", "set": "testdataset" }} ] }},
            {{ "@type": "Annotation", "@id": "A3",
               "target": {{ "@type": "ResourceSelector", "resource": "{}" }},
               "data": [ {{ "@type": "AnnotationData", "@id": "D1", "set": "testdataset" }} ] }}
            ]"#,
            resource
        )
    };
    std::fs::write(&filename, json("no-such-resource")).unwrap();
    let result = store
        .annotate_from_file(filename.to_str().unwrap())
        .map(|_| ());
    assert!(result.is_err(), "the file names an unknown resource");
    assert!(
        store.annotation("A2").is_none(),
        "loading the file returned an error: the identifier A2 must not have appeared"
    );
    assert_eq!(
        annotations(&store),
        before,
        "loading the file returned an error: the annotations must be what they were"
    );
    std::fs::write(&filename, json("testres")).unwrap();
    store
        .annotate_from_file(filename.to_str().unwrap())
        .expect("corrected file is valid");
    assert_eq!(
        store.annotation("A2").map(|a| a.handle()),
        Some(AnnotationHandle::new(1)),
        "A2 gets the handle it would have got without the failed attempt"
    );
    assert_eq!(store.annotations().count(), 3);
    let _ = std::fs::remove_file(&filename);
}

#[test]
fn failed_add_query_leaves_no_annotation() {
    let mut store = base();
    // a second, shorter annotation ("He")
    store
        .annotate(
            AnnotationBuilder::new()
                .with_id("A4")
                .with_target(SelectorBuilder::textselector(
                    "testres",
                    Offset::simple(0, 2),
                ))
                .with_existing_data("testdataset", "D1"),
        )
        .unwrap();
    let before = annotations(&store);
    {
        // two rows: A1 ("world", 5 characters) and A4 ("He", 2 characters); the offset 0-5 does not fit in the second
        let query: Query = "ADD ANNOTATION ?a WITH DATA \"testdataset\" \"pos\" \"noun\"; TARGET ?t OFFSET 0 5; { SELECT ANNOTATION ?t WHERE DATA \"testdataset\" \"pos\" = \"noun\"; }"
            .try_into()
            .unwrap();
        let result = store.query_mut(query).map(|_| ());
        assert!(result.is_err(), "offset 0-5 is out of range for A4");
    }
    assert_eq!(
        annotations(&store),
        before,
        "the ADD query returned an error: the annotations must be what they were"
    );
    {
        // corrected: an offset that fits in both
        let query: Query = "ADD ANNOTATION ?a WITH DATA \"testdataset\" \"pos\" \"noun\"; TARGET ?t OFFSET 0 2; { SELECT ANNOTATION ?t WHERE DATA \"testdataset\" \"pos\" = \"noun\"; }"
            .try_into()
            .unwrap();
        let count = store.query_mut(query).expect("valid ADD query").count();
        assert_eq!(count, 2, "the corrected query adds one annotation per row");
    }
    assert_eq!(
        store.annotations().count(),
        4,
        "A1, A4 and the two annotations of the corrected query"
    );
}

use vstd::prelude::*;
verus! {

#[derive(PartialEq, Eq, Clone, Copy)]
pub struct TextSelection { pub begin: usize, pub end: usize }
impl TextSelection {
    pub fn begin(&self) -> (r: usize) ensures r == self.begin { self.begin }
    pub fn end(&self) -> (r: usize) ensures r == self.end { self.end }
}
pub open spec fn wf(t: TextSelection, textlen: usize) -> bool { t.begin <= t.end && t.end <= textlen }

#[derive(Clone, Copy, PartialEq)]
pub enum TextSelectionOperator {
    Equals { all: bool, negate: bool },
    Overlaps { all: bool, negate: bool },
    Embeds { all: bool, negate: bool },
    Embedded { all: bool, negate: bool, limit: Option<usize> },
    After { all: bool, negate: bool, limit: Option<usize> },
}

pub struct TextSelectionSet { pub data: Vec<TextSelection>, pub sorted: bool }

#[verifier::external_body]
pub struct TextResource { _x: usize }
#[verifier::external_body]
pub struct TextSelectionIter<'a> { _r: &'a TextResource }

impl<'a> TextSelectionIter<'a> {
    pub uninterp spec fn lo(&self) -> usize;
    pub uninterp spec fn hi(&self) -> usize;
}
impl TextResource {
    pub uninterp spec fn spec_textlen(&self) -> usize;
    #[verifier::external_body]
    pub fn textlen(&self) -> (r: usize) ensures r == self.spec_textlen() { unimplemented!() }
    #[verifier::external_body]
    pub fn range<'a>(&'a self, begin: usize, end: usize) -> (r: TextSelectionIter<'a>)
        ensures r.lo() == begin, r.hi() == end
    { unimplemented!() }
}

pub struct FindTextSelectionsIter<'store> {
    resource: &'store TextResource,
    operator: TextSelectionOperator,
    refset: TextSelectionSet,
    textseliters: Vec<(TextSelectionIter<'store>, bool)>,
    textseliter_index: usize,
}

// candidate t is reachable through pushed ranges
pub open spec fn covered(its: Seq<(TextSelectionIter, bool)>, t: TextSelection) -> bool {
    exists|k: int| 0 <= k < its.len() && (
        (its[k].1 && its[k].0.lo() <= t.begin < its[k].0.hi())
        || (!its[k].1 && its[k].0.lo() <= t.end < its[k].0.hi()))
}

impl<'store> FindTextSelectionsIter<'store> {
    fn init_textseliters(&mut self)
        requires
            old(self).textseliters@.len() == 0,
            old(self).refset.data@.len() > 0,
            forall|i: int| 0 <= i < old(self).refset.data@.len() ==> wf(#[trigger] old(self).refset.data@[i], old(self).resource.spec_textlen()),
        ensures
            // Embeds: any t embedded by some r is covered
            (old(self).operator matches TextSelectionOperator::Embeds{..}) ==>
                forall|t: TextSelection, i: int| wf(t, old(self).resource.spec_textlen()) && 0 <= i < old(self).refset.data@.len()
                    && t.begin >= old(self).refset.data@[i].begin && t.end <= old(self).refset.data@[i].end && t.begin < t.end
                    ==> covered(final(self).textseliters@, t),
    {
        match self.operator {
            TextSelectionOperator::Embeds { .. } => {
                for reftextselection in self.refset.data.iter() {
                    self.textseliters.push((
                        self.resource
                            .range(reftextselection.begin(), reftextselection.end()),
                        true,
                    ));
                }
            }
            TextSelectionOperator::Overlaps { .. } | TextSelectionOperator::Embedded { .. } => {
                let halfway = self.resource.textlen() / 2;
                for reftextselection in self.refset.data.iter() {
                    if reftextselection.begin() <= halfway {
                        self.textseliters
                            .push((self.resource.range(0, reftextselection.end()), true));
                    } else {
                        self.textseliters.push((
                            self.resource
                                .range(reftextselection.end(), self.resource.textlen()),
                            false, //search backwards!!
                        ));
                    }
                }
            }
            _ => {
                self.textseliters.push((self.resource.range(0, self.resource.textlen()), true));
            }
        }
    }
}

} // verus!
fn main() {}

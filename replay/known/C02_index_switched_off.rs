// K6 (C02): replay of the known finding - copy to /repo/tests/ and run with cargo test; the baseline test passes, the others fail.
// The removal methods find the dependent annotations only through reverse indices that the
// public configuration allows to switch off (Config::with_annotation_annotation_map(false),
// with_resource_annotation_map(false), with_key_annotation_metamap(false), ...).
// With such an index switched off the removal "succeeds" but does not cascade: annotations that
// point at the removed item survive with a dangling target, after which serialising or walking
// the store fails or panics - and remove_resource() itself can panic.
use stam::*;

fn store(config: Config) -> Result<AnnotationStore, StamError> {
    AnnotationStore::new(config)
        .with_id("test")
        .with_resource(
            TextResourceBuilder::new()
                .with_id("r1")
                .with_text("Hello world"),
        )?
        .with_dataset(AnnotationDataSetBuilder::new().with_id("s1"))?
        .with_annotation(
            AnnotationBuilder::new()
                .with_id("A")
                .with_target(SelectorBuilder::textselector("r1", Offset::simple(0, 5)))
                .with_data_with_id("s1", "pos", "interjection", "D1"),
        )?
        .with_annotation(
            AnnotationBuilder::new()
                .with_id("B")
                .with_target(SelectorBuilder::annotationselector("A", None))
                .with_data("s1", "comment", "about A"),
        )?
        .with_annotation(
            AnnotationBuilder::new()
                .with_id("M_res")
                .with_target(SelectorBuilder::resourceselector("r1"))
                .with_data("s1", "comment", "about r1"),
        )?
        .with_annotation(
            AnnotationBuilder::new()
                .with_id("M_key")
                .with_target(SelectorBuilder::datakeyselector("s1", "pos"))
                .with_data("s1", "comment", "about the key pos"),
        )?
        .with_annotation(
            AnnotationBuilder::new()
                .with_id("M_data")
                .with_target(SelectorBuilder::annotationdataselector("s1", "D1"))
                .with_data("s1", "comment", "about D1"),
        )
}

fn ids(store: &AnnotationStore) -> Vec<String> {
    store
        .annotations()
        .map(|a| a.id().unwrap_or("?").to_string())
        .collect()
}

fn assert_serialisable(store: &AnnotationStore) {
    assert_serialisable_opt(store, true)
}

fn assert_serialisable_opt(store: &AnnotationStore, reload: bool) {
    let result = std::panic::catch_unwind(std::panic::AssertUnwindSafe(|| {
        store.to_json_string(&Config::default())
    }));
    match result {
        Err(_) => panic!("expected: the store can be serialised after the removal; serialisation panicked"),
        Ok(Err(e)) => panic!("expected: the store can be serialised after the removal; got {:?}", e),
        Ok(Ok(json)) => {
            if !reload {
                return;
            }
            AnnotationStore::from_json_str(&json, Config::default())
                .expect("expected: the serialised store can be loaded again");
        }
    }
}

#[test]
fn baseline_default_config() -> Result<(), StamError> {
    //what the removals are documented to do (this passes)
    let mut store = store(Config::default())?;
    store.remove_annotation("A")?;
    assert_eq!(ids(&store), ["M_res", "M_key", "M_data"]);
    let mut store = store_again()?;
    store.remove_key("s1", "pos", true)?;
    assert_eq!(ids(&store), ["M_res"]);
    Ok(())
}

fn store_again() -> Result<AnnotationStore, StamError> {
    store(Config::default())
}

#[test]
fn remove_annotation_without_annotation_annotation_map() -> Result<(), StamError> {
    let mut store = store(Config::default().with_annotation_annotation_map(false))?;
    store.remove_annotation("A")?;
    assert_eq!(
        ids(&store),
        ["M_res", "M_key", "M_data"],
        "expected: B (an annotation on A) is removed together with A, exactly as with the default configuration"
    );
    assert_serialisable(&store);
    Ok(())
}

#[test]
fn remove_resource_without_annotation_annotation_map() -> Result<(), StamError> {
    let mut store = store(Config::default().with_annotation_annotation_map(false))?;
    let result = std::panic::catch_unwind(std::panic::AssertUnwindSafe(|| {
        store.remove_resource("r1")
    }));
    assert!(
        matches!(result, Ok(Ok(()))),
        "expected: remove_resource() succeeds, the resource exists; it panicked or failed"
    );
    assert_eq!(ids(&store), ["M_key", "M_data"], "expected: A, B and M_res are gone");
    assert_serialisable(&store);
    Ok(())
}

#[test]
fn remove_resource_without_resource_annotation_map() -> Result<(), StamError> {
    let mut store = store(Config::default().with_resource_annotation_map(false))?;
    store.remove_resource("r1")?;
    assert_eq!(
        ids(&store),
        ["M_key", "M_data"],
        "expected: M_res (metadata on the removed resource) is removed too"
    );
    assert_serialisable(&store);
    Ok(())
}

#[test]
fn remove_key_without_key_annotation_metamap() -> Result<(), StamError> {
    let mut store = store(Config::default().with_key_annotation_metamap(false))?;
    store.remove_key("s1", "pos", true)?;
    assert_eq!(
        ids(&store),
        ["M_res"],
        "expected: M_key (metadata on the removed key) is removed too"
    );
    //(not reloaded here: reloading after remove_key() fails for an unrelated reason, see out_bug1)
    assert_serialisable_opt(&store, false);
    Ok(())
}

#[test]
fn remove_data_without_data_annotation_metamap() -> Result<(), StamError> {
    let mut store = store(Config::default().with_data_annotation_metamap(false))?;
    store.remove_data("s1", "D1", true)?;
    assert_eq!(
        ids(&store),
        ["M_res", "M_key"],
        "expected: M_data (metadata on the removed data) is removed too"
    );
    assert_serialisable(&store);
    Ok(())
}

#[test]
fn remove_dataset_without_dataset_annotation_map() -> Result<(), StamError> {
    let mut store = store(Config::default().with_dataset_annotation_map(false))?
        .with_dataset(AnnotationDataSetBuilder::new().with_id("s2"))?
        .with_annotation(
            AnnotationBuilder::new()
                .with_id("M_set")
                .with_target(SelectorBuilder::datasetselector("s2"))
                .with_data("s1", "comment", "about s2"),
        )?;
    store.remove_dataset("s2")?;
    assert!(
        store.annotation("M_set").is_none(),
        "expected: M_set (metadata on the removed set) is removed too"
    );
    assert_serialisable(&store);
    Ok(())
}

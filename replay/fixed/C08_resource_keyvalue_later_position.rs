// replay of the defect repaired by /repo commit 0565d93 (C08): copy to /repo/tests/ and run it with cargo test; it fails on the parent commit.
// SELECT RESOURCE with a `DATA set key = value` constraint that is not the first constraint returned nothing at all:
// update_state_resources() had an arm for the AS METADATA form of Constraint::KeyValue only.
use stam::*;

fn store() -> AnnotationStore {
    let mut st = AnnotationStore::default();
    for r in ["book", "memo", "note"] {
        st.add_resource(TextResourceBuilder::new().with_id(r).with_text("some text here")).unwrap();
    }
    // book: genre on the resource itself; memo: genre on its text; note: both
    st.annotate(AnnotationBuilder::new().with_target(SelectorBuilder::resourceselector("book")).with_data("set", "genre", "novel")).unwrap();
    st.annotate(AnnotationBuilder::new().with_target(SelectorBuilder::textselector("memo", Offset::simple(0, 4))).with_data("set", "genre", "novel")).unwrap();
    st.annotate(AnnotationBuilder::new().with_target(SelectorBuilder::resourceselector("note")).with_data("set", "genre", "novel")).unwrap();
    st.annotate(AnnotationBuilder::new().with_target(SelectorBuilder::textselector("note", Offset::simple(0, 4))).with_data("set", "genre", "novel")).unwrap();
    st
}

fn resources(st: &AnnotationStore, q: &str) -> Vec<String> {
    let query: Query = q.try_into().expect("query must parse");
    let mut out = vec![];
    for results in st.query(query).expect("query must run") {
        for r in results.iter() {
            if let QueryResultItem::TextResource(x) = r {
                out.push(x.id().unwrap().to_string());
            }
        }
    }
    out.sort();
    out
}

#[test]
fn a_constraint_written_twice_is_the_constraint() {
    let st = store();
    let once = resources(&st, "SELECT RESOURCE ?r WHERE DATA set genre = novel;");
    assert_eq!(once, vec!["memo".to_string(), "note".to_string()]);
    let twice = resources(&st, "SELECT RESOURCE ?r WHERE DATA set genre = novel; DATA set genre = novel;");
    assert_eq!(twice, once, "the same constraint written twice must select the same resources");
}

#[test]
fn conjunction_is_the_intersection_in_either_order() {
    let st = store();
    let a = resources(&st, "SELECT RESOURCE ?r WHERE DATA set genre = novel; DATA AS METADATA set genre = novel;");
    let b = resources(&st, "SELECT RESOURCE ?r WHERE DATA AS METADATA set genre = novel; DATA set genre = novel;");
    assert_eq!(a, vec!["note".to_string()]);
    assert_eq!(b, a, "the result must not depend on the order of the two constraints");
}

// replay of the defect repaired by /repo commit b20ad49 (C07): copy to /repo/tests/ and run it with cargo test; before the fix the match is
// reported shifted right by the begin of the searched selection (3..4 for 2..3), or the
// iterator panics ("textselection from offset must succeed") when the doubled offset leaves the text.
use stam::*;

#[test]
fn regex_search_in_a_subselection_reports_absolute_offsets() {
    let store = AnnotationStore::default()
        .with_resource(TextResourceBuilder::new().with_id("r").with_text("a b c d"))
        .unwrap();
    let res = store.resource("r").unwrap();
    let sel = res.textselection(&Offset::simple(1, 4)).unwrap(); // " b "
    let exprs = [regex::Regex::new("b").unwrap()];
    let got: Vec<(usize, usize)> = sel
        .find_text_regex(&exprs, None, true)
        .unwrap()
        .flat_map(|m| m.textselections().iter().map(|t| (t.begin(), t.end())).collect::<Vec<_>>())
        .collect();
    assert_eq!(got, vec![(2, 3)], "the only 'b' of \"a b c d\" is at 2..3");
    // the same search on the whole resource agrees
    let all: Vec<(usize, usize)> = res
        .find_text_regex(&exprs, None, true)
        .unwrap()
        .flat_map(|m| m.textselections().iter().map(|t| (t.begin(), t.end())).collect::<Vec<_>>())
        .collect();
    assert_eq!(all, vec![(2, 3)]);
}

// K8 (C03): replay of the known finding - copy to /repo/tests/ and run with cargo test; it fails on the current tree.
// Merging a second STAM JSON document that uses temporary identifiers ("!A0", "!D0") into a store
// that already holds items: the items of the second document are appended (handle + offset), but
// the references inside that document are still resolved by absolute position, so they are
// redirected to unrelated items that were in the store before.
use stam::*;

fn base() -> AnnotationStore {
    AnnotationStore::new(Config::default())
        .with_id("base")
        .with_resource(TextResourceBuilder::new().with_id("r0").with_text("Hello world"))
        .unwrap()
        .with_dataset(AnnotationDataSetBuilder::new().with_id("s0"))
        .unwrap()
        .with_annotation(
            AnnotationBuilder::new()
                .with_id("a0")
                .with_target(SelectorBuilder::textselector("r0", Offset::simple(0, 5)))
                .with_data_with_id("s0", "pos", "interj", "d0"),
        )
        .unwrap()
        .with_annotation(
            AnnotationBuilder::new()
                .with_id("a1")
                .with_target(SelectorBuilder::textselector("r0", Offset::simple(6, 11)))
                .with_data_with_id("s0", "pos", "noun", "d1"),
        )
        .unwrap()
}

/// Two annotations without public id (serialised as "!A0" and "!A1"), the second points at the first.
const DOC_ANNOTATIONS: &str = r#"{
    "@type": "AnnotationStore",
    "resources": [{"@type":"TextResource","@id":"r9","text":"Goodbye moon"}],
    "annotationsets": [{"@type":"AnnotationDataSet","@id":"s9","keys":[{"@type":"DataKey","@id":"k"}],"data":[]}],
    "annotations": [
      {"@type":"Annotation","@id":"!A0",
       "target":{"@type":"TextSelector","resource":"r9","offset":{"@type":"Offset","begin":{"@type":"BeginAlignedCursor","value":8},"end":{"@type":"BeginAlignedCursor","value":12}}},
       "data":[{"@type":"AnnotationData","@id":"x1","set":"s9","key":"k","value":{"@type":"String","value":"v"}}]},
      {"@type":"Annotation","@id":"!A1",
       "target":{"@type":"AnnotationSelector","annotation":"!A0"},
       "data":[{"@type":"AnnotationData","@id":"x2","set":"s9","key":"k","value":{"@type":"String","value":"w"}}]}
    ]
}"#;

/// Data without public id (serialised as "!D0") in a set that also exists in the base store; one annotation uses it.
const DOC_DATA: &str = r#"{
    "@type": "AnnotationStore",
    "resources": [{"@type":"TextResource","@id":"r9","text":"Goodbye moon"}],
    "annotationsets": [{"@type":"AnnotationDataSet","@id":"s0","keys":[{"@type":"DataKey","@id":"pos"}],"data":[
        {"@type":"AnnotationData","@id":"!D0","key":"pos","value":{"@type":"String","value":"verb"}}
    ]}],
    "annotations": [
      {"@type":"Annotation","@id":"z1",
       "target":{"@type":"TextSelector","resource":"r9","offset":{"@type":"Offset","begin":{"@type":"BeginAlignedCursor","value":8},"end":{"@type":"BeginAlignedCursor","value":12}}},
       "data":[{"@type":"AnnotationData","@id":"!D0","set":"s0"}]}
    ]
}"#;

/// text of the annotations that the annotation carrying data `x2` points at
fn targets_of_x2(store: &AnnotationStore) -> Vec<Option<String>> {
    let x2 = store.annotationdata("s9", "x2").expect("data x2");
    let annotation = x2.annotations().next().expect("annotation with x2");
    annotation
        .annotations_in_targets(Default::default())
        .map(|a| a.text_simple().map(|s| s.to_string()))
        .collect()
}

#[test]
fn temporary_annotation_id_is_not_redirected_by_merge() {
    //on its own, the document says: the second annotation points at the annotation on "moon"
    let alone = AnnotationStore::from_str(DOC_ANNOTATIONS, Config::default()).unwrap();
    assert_eq!(targets_of_x2(&alone), vec![Some("moon".to_string())]);

    let mut store = base();
    store
        .merge_json_str(DOC_ANNOTATIONS)
        .expect("expected: the merge either succeeds with intact references or is refused");
    assert_eq!(
        targets_of_x2(&store),
        vec![Some("moon".to_string())],
        "expected: \"!A0\" inside the merged document still means that document's first annotation (text \"moon\"), \
         not the annotation that happened to be at position 0 of the store before the merge (text \"Hello\")"
    );
}

#[test]
fn temporary_data_id_is_not_redirected_by_merge() {
    let alone = AnnotationStore::from_str(DOC_DATA, Config::default()).unwrap();
    let values: Vec<String> = alone
        .annotation("z1")
        .unwrap()
        .data()
        .map(|d| d.value().to_string())
        .collect();
    assert_eq!(values, vec!["verb".to_string()]);

    let mut store = base();
    store
        .merge_json_str(DOC_DATA)
        .expect("expected: the merge either succeeds with intact references or is refused");
    let values: Vec<String> = store
        .annotation("z1")
        .unwrap()
        .data()
        .map(|d| d.value().to_string())
        .collect();
    assert_eq!(
        values,
        vec!["verb".to_string()],
        "expected: \"!D0\" inside the merged document still means that document's own data (\"verb\"), \
         not the data that was at position 0 of set s0 before the merge (\"interj\")"
    );
}

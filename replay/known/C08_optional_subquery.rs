// known finding K4 (C08), recorded, not repaired: copy to /repo/tests/ and run it with cargo test; it fails on the unchanged tree.
// The repair that makes it pass (it makes the existing test query_subquery_optional_nonexistant fail, which asserts the defective count):
//   diff --git a/src/api/query.rs b/src/api/query.rs
//   index 1553184..d6856f6 100644
//   --- a/src/api/query.rs
//   +++ b/src/api/query.rs
//   @@ -2374,7 +2374,10 @@ impl<'store> QueryIter<'store> {
//            while !self.statestack.is_empty() {
//                if let Some(mut state) = self.statestack.pop() {
//                    if state.done {
//   -                    continue;
//   +                    // all deeper (optional) subqueries for the current result of this state have
//   +                    // been processed; the state itself is not depleted: clear the flag and fall
//   +                    // through so its iterator advances to the next result
//   +                    state.done = false;
//                    }
//                    //we pop the state off the stack (we put it back again in cases where it's an undepleted iterator)
//                    //but this allows us to take full ownership and not have a mutable borrow,
// OPTIONAL sub-query without results ends the whole query (outer results are lost)
use stam::*;

/// Four adjacent words w0..w3 ("aa bb cc dd") in one resource, all with data set/type=word
fn store() -> AnnotationStore {
    let mut store = AnnotationStore::default()
        .with_id("s")
        .with_resource(
            TextResourceBuilder::new()
                .with_id("r")
                .with_text("aa bb cc dd ee"),
        )
        .unwrap();
    for (i, (b, e)) in [(0, 2), (3, 5), (6, 8), (9, 11)].iter().enumerate() {
        store = store
            .with_annotation(
                AnnotationBuilder::new()
                    .with_id(format!("w{}", i))
                    .with_target(SelectorBuilder::textselector("r", Offset::simple(*b, *e)))
                    .with_data("set", "type", "word"),
            )
            .unwrap();
    }
    store
}

/// Runs the query and returns every result row as the list of annotation ids in it
fn rows(store: &AnnotationStore, q: &str) -> Vec<Vec<String>> {
    let query: Query = q.try_into().expect("query must parse");
    let mut out = Vec::new();
    for row in store.query(query).expect("query must run") {
        let mut r = Vec::new();
        for item in row.iter() {
            if let QueryResultItem::Annotation(a) = item {
                r.push(a.id().unwrap().to_string());
            }
        }
        out.push(r);
    }
    out
}

fn v(rows: &[&[&str]]) -> Vec<Vec<String>> {
    rows.iter()
        .map(|r| r.iter().map(|s| s.to_string()).collect())
        .collect()
}

#[test]
fn optional_subquery_without_results_keeps_all_outer_results() {
    let store = store();
    // sanity: the outer query on its own yields the four words
    assert_eq!(
        rows(&store, "SELECT ANNOTATION ?w WHERE DATA set type = word;"),
        v(&[&["w0"], &["w1"], &["w2"], &["w3"]])
    );
    // the optional sub-query never matches anything: every outer result must still be returned once
    let got = rows(
        &store,
        "SELECT ANNOTATION ?w WHERE DATA set type = word; { SELECT OPTIONAL ANNOTATION ?x WHERE RELATION ?w EMBEDS; DATA set type = nonexistent; }",
    );
    assert_eq!(
        got,
        v(&[&["w0"], &["w1"], &["w2"], &["w3"]]),
        "an OPTIONAL sub-query that yields nothing must not drop outer results: expected one row for each of the 4 words"
    );
}

#[test]
fn optional_subquery_is_nested_iteration_over_all_outer_results() {
    let store = store();
    // the same sub-query without OPTIONAL: w0 has no predecessor, the others have one
    assert_eq!(
        rows(
            &store,
            "SELECT ANNOTATION ?w WHERE DATA set type = word; { SELECT ANNOTATION ?x WHERE RELATION ?w SUCCEEDS; DATA set type = word; }"
        ),
        v(&[&["w1", "w0"], &["w2", "w1"], &["w3", "w2"]])
    );
    // with OPTIONAL the row for w0 (without ?x) is added, the other rows must stay
    let got = rows(
        &store,
        "SELECT ANNOTATION ?w WHERE DATA set type = word; { SELECT OPTIONAL ANNOTATION ?x WHERE RELATION ?w SUCCEEDS; DATA set type = word; }",
    );
    assert_eq!(
        got,
        v(&[&["w0"], &["w1", "w0"], &["w2", "w1"], &["w3", "w2"]]),
        "OPTIONAL sub-query: expected the row [w0] followed by the three rows of the non-optional variant"
    );
}

#[test]
fn optional_subquery_on_second_level() {
    let mut store = store();
    store
        .annotate(
            AnnotationBuilder::new()
                .with_id("p0")
                .with_target(SelectorBuilder::textselector("r", Offset::simple(0, 5)))
                .with_data("set", "type", "phrase"),
        )
        .unwrap();
    let plain = rows(
        &store,
        "SELECT ANNOTATION ?p WHERE DATA set type = phrase; { SELECT ANNOTATION ?w WHERE RELATION ?p EMBEDS; DATA set type = word; }",
    );
    assert_eq!(plain, v(&[&["p0", "w0"], &["p0", "w1"]]));
    // adding an optional third level that never matches must not change the rows
    let got = rows(
        &store,
        "SELECT ANNOTATION ?p WHERE DATA set type = phrase; { SELECT ANNOTATION ?w WHERE RELATION ?p EMBEDS; DATA set type = word; { SELECT OPTIONAL ANNOTATION ?x WHERE RELATION ?w EMBEDS; DATA set type = nonexistent; } }",
    );
    assert_eq!(
        got, plain,
        "an OPTIONAL third-level sub-query without results must leave the rows of the first two levels intact"
    );
}

// replay of the defect repaired by /repo commit 0f80b1c (C10): copy to /repo/tests/ and run it with cargo test; it fails on the parent commit.
// The ordering operators are documented as "The datavalue must be numeric and greater/less than the value
// with the operator". Both Int and Float data are numeric, yet GreaterThan(isize) & co. silently skip all
// Float data and GreaterThanFloat(f64) & co. silently skip all Int data.
use stam::*;

fn store() -> AnnotationStore {
    AnnotationStore::default()
        .with_id("s")
        .with_dataset(
            AnnotationDataSetBuilder::new()
                .with_id("ds")
                .with_key_value_id("score", 2isize, "I2")
                .with_key_value_id("score", 5isize, "I5")
                .with_key_value_id("score", 2.5f64, "F2.5")
                .with_key_value_id("score", 5.5f64, "F5.5")
                .with_key_value_id("score", "7", "S7"),
        )
        .expect("dataset builds")
}

/// what a full scan selects when "numeric and greater than 3" is taken literally
fn scan_greater_than_3(store: &AnnotationStore) -> Vec<String> {
    store
        .dataset("ds")
        .unwrap()
        .data()
        .filter(|d| match d.value() {
            DataValue::Int(n) => (*n as f64) > 3.0,
            DataValue::Float(n) => *n > 3.0,
            _ => false,
        })
        .map(|d| d.id().unwrap().to_string())
        .collect()
}

fn ids<'a>(iter: impl Iterator<Item = ResultItem<'a, AnnotationData>>) -> Vec<String> {
    iter.map(|d| d.id().expect("id").to_string()).collect()
}

#[test]
fn greater_than_int_selects_all_numeric_data_above() {
    let store = store();
    let expected = scan_greater_than_3(&store);
    assert_eq!(expected, vec!["I5".to_string(), "F5.5".to_string()]);
    let ds = store.dataset("ds").unwrap();
    let found = ids(ds.find_data("score", DataOperator::GreaterThan(3)));
    assert_eq!(
        found, expected,
        "find_data(score > 3) must return every numeric value greater than 3, the float 5.5 included"
    );
}

#[test]
fn greater_than_float_selects_all_numeric_data_above() {
    let store = store();
    let expected = scan_greater_than_3(&store);
    let ds = store.dataset("ds").unwrap();
    let found = ids(ds.find_data("score", DataOperator::GreaterThanFloat(3.0)));
    assert_eq!(
        found, expected,
        "find_data(score > 3.0) must return every numeric value greater than 3.0, the integer 5 included"
    );
}

#[test]
fn stamql_greater_than() {
    let store = store();
    let query: Query = "SELECT DATA ?d WHERE DATA \"ds\" \"score\" > 3;"
        .try_into()
        .expect("query parses");
    let mut found: Vec<String> = Vec::new();
    for row in store.query(query).expect("query runs") {
        if let Ok(QueryResultItem::AnnotationData(d)) = row.get_by_name("d") {
            found.push(d.id().unwrap().to_string());
        }
    }
    assert_eq!(
        found,
        scan_greater_than_3(&store),
        "STAMQL `score > 3` must return every numeric value greater than 3"
    );
}

#[test]
fn all_ordering_operators_on_the_other_numeric_type() {
    let f = DataValue::Float(5.5);
    let i = DataValue::Int(5);
    assert!(f.test(&DataOperator::GreaterThan(3)), "5.5 > 3");
    assert!(f.test(&DataOperator::GreaterThanOrEqual(3)), "5.5 >= 3");
    assert!(f.test(&DataOperator::LessThan(6)), "5.5 < 6");
    assert!(f.test(&DataOperator::LessThanOrEqual(6)), "5.5 <= 6");
    assert!(i.test(&DataOperator::GreaterThanFloat(3.0)), "5 > 3.0");
    assert!(i.test(&DataOperator::GreaterThanOrEqualFloat(5.0)), "5 >= 5.0");
    assert!(i.test(&DataOperator::LessThanFloat(5.5)), "5 < 5.5");
    assert!(i.test(&DataOperator::LessThanOrEqualFloat(5.0)), "5 <= 5.0");
    // and they stay false when the comparison does not hold or the value is not numeric
    assert!(!f.test(&DataOperator::GreaterThan(6)), "5.5 > 6 is false");
    assert!(!i.test(&DataOperator::LessThanFloat(4.5)), "5 < 4.5 is false");
    assert!(!DataValue::String("7".into()).test(&DataOperator::GreaterThan(3)), "a string is not numeric");
}

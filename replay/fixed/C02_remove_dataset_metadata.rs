// replay of the defect repaired by /repo commit 1407f4e (C02): copy to /repo/tests/ and run it with cargo test; before the fix two annotations survive remove_dataset.
use stam::*;
#[test]
fn remove_dataset_removes_annotations_about_its_keys_and_data() {
    let mut store = AnnotationStore::default()
        .with_resource(TextResourceBuilder::new().with_id("r").with_text("hello world")).unwrap()
        .with_dataset(AnnotationDataSetBuilder::new().with_id("d0")).unwrap()
        .with_dataset(AnnotationDataSetBuilder::new().with_id("d1")).unwrap();
    store.annotate(AnnotationBuilder::new().with_id("A1").with_target(SelectorBuilder::textselector("r", Offset::simple(0, 5))).with_data_with_id("d0", "k", "v", "D1")).unwrap();
    // annotations ABOUT a key and ABOUT a data item of d0, with their own data in d1
    store.annotate(AnnotationBuilder::new().with_id("AboutKey").with_target(SelectorBuilder::datakeyselector("d0", "k")).with_data("d1", "note", "about the key")).unwrap();
    store.annotate(AnnotationBuilder::new().with_id("AboutData").with_target(SelectorBuilder::annotationdataselector("d0", "D1")).with_data("d1", "note", "about the data")).unwrap();
    store.remove_dataset("d0").unwrap();
    let left: Vec<String> = store.annotations().map(|a| a.id().unwrap().to_string()).collect();
    println!("annotations left after remove_dataset(d0): {:?}", left);
    assert!(left.is_empty(), "annotations that reference the removed dataset are still there: {:?}", left);
}

"""Unit builder: slices real functions out of /repo, applies the declared rewrite rules,
splices contracts, and keeps a line-level source map and a faithfulness record."""
import hashlib
import os
import re
from .rustsrc import RustFile, ExtractError, code_mask, norm_ws, split_top_level

REPO = os.environ.get('VX_REPO', '/repo')
VERIF = os.path.dirname(os.path.dirname(os.path.abspath(__file__)))


def sha(s):
    return hashlib.sha256(s.encode('utf-8')).hexdigest()[:16]


# --------------------------------------------------------------------------------------
# line preserving substitution helpers


def pad_lines(orig, repl):
    """pad repl with newlines so it spans as many lines as orig"""
    d = orig.count('\n') - repl.count('\n')
    if d < 0:
        raise ExtractError("rewrite increases line count: %r -> %r" % (orig[:40], repl[:40]))
    return repl + '\n' * d


class Slice:
    """A piece of repo text being rewritten; records rule firings."""

    def __init__(self, text, file, line, log):
        self.text = text
        self.file = file
        self.line = line
        self.log = log

    def _mask(self):
        return code_mask(self.text)

    def fire(self, rule, pos, what):
        ln = self.line + self.text.count('\n', 0, pos)
        self.log.append(dict(rule=rule, at=f"{self.file}:{ln}", what=what[:80]))

    def sub(self, rule, pattern, repl, count=0, require=False):
        """regex substitution at code positions, line preserving"""
        mask = self._mask()
        out = []
        last = 0
        n = 0
        for mm in re.compile(pattern, re.S).finditer(self.text):
            if not mask[mm.start()]:
                continue
            if count and n >= count:
                break
            r = mm.expand(repl) if isinstance(repl, str) else repl(mm)
            r = pad_lines(mm.group(0), r)
            self.fire(rule, mm.start(), mm.group(0).strip().split('\n')[0])
            out.append(self.text[last:mm.start()])
            out.append(r)
            last = mm.end()
            n += 1
        out.append(self.text[last:])
        self.text = ''.join(out)
        if require and n == 0:
            raise ExtractError(f"rule {rule}: pattern {pattern!r} did not fire in {self.file}:{self.line}")
        return n

    def replace_exact(self, rule, old, new, require=True):
        c = self.text.count(old)
        if c != 1:
            if c == 0 and not require:
                return 0
            raise ExtractError(f"rule {rule}: anchor {old!r} occurs {c} times in slice {self.file}:{self.line}")
        pos = self.text.index(old)
        self.fire(rule, pos, old.strip().split('\n')[0])
        self.text = self.text.replace(old, pad_lines(old, new))
        return 1

    def sub_call(self, rule, head_regex, repl_fn, trailing=''):
        """replace `HEAD( ...balanced... )TRAILING` at code positions. repl_fn(inner_text)->str"""
        n = 0
        while True:
            mask = self._mask()
            hit = None
            for mm in re.compile(head_regex).finditer(self.text):
                if mask[mm.start()]:
                    hit = mm
                    break
            if hit is None:
                return n
            # find the paren
            o = hit.end() - 1
            assert self.text[o] in '([{', (head_regex, self.text[o])
            close = match_close(self.text, mask, o)
            end = close + 1
            if trailing:
                tm = re.compile(trailing).match(self.text, end)
                if tm:
                    end = tm.end()
            orig = self.text[hit.start():end]
            r = pad_lines(orig, repl_fn(self.text[o + 1:close]))
            self.fire(rule, hit.start(), orig.strip().split('\n')[0])
            self.text = self.text[:hit.start()] + r + self.text[end:]
            n += 1


def match_close(text, mask, o):
    op = text[o]
    cl = {'(': ')', '[': ']', '{': '}'}[op]
    d = 0
    for i in range(o, len(text)):
        if not mask[i]:
            continue
        if text[i] == op:
            d += 1
        elif text[i] == cl:
            d -= 1
            if d == 0:
                return i
    raise ExtractError("unbalanced bracket in slice")


DROP_DERIVES = {'DataSize', 'Encode', 'Decode', 'Serialize', 'Deserialize', 'Hash'}
DROP_ATTRS = r'#\[\s*(?:n|b|cbor|serde|sealed|inline|data_size|allow|doc|must_use|cfg_attr)\b(?:[^\[\]]|\[[^\]]*\])*\]'


def std_rewrites(sl, keep_derives=None):
    """The rewrite rules of DESIGN.md §3.1 that apply to every slice."""
    sl.sub('R-attr', DROP_ATTRS, '')

    def derive(mm):
        names = [x.strip() for x in mm.group(1).split(',') if x.strip()]
        kept = [x for x in names if x.split('::')[-1] not in DROP_DERIVES and (keep_derives is None or x in keep_derives)]
        return '#[derive(%s)]' % ', '.join(kept) if kept else ''
    sl.sub('R-attr', r'#\[derive\(([^)]*)\)\]', derive)
    sl.sub('R-vis', r'\bpub\s*\(\s*crate\s*\)', 'pub')
    sl.sub_call('R-debug', r'\bdebug\s*\(', lambda inner: '', trailing=r'\s*;')
    sl.sub_call('R-err', r'\bformat!\s*\(', lambda inner: 'vx_msg()')


# --------------------------------------------------------------------------------------


class Fn:
    """Contract for one sliced function."""

    def __init__(self, name, props=(), ret=None, requires=(), ensures=(), decreases=None,
                 loops=None, before=(), after=(), rewrites=(), nth=0, emit_name=None,
                 external_body=False, sig_rewrites=(), opens=None, attrs=(), known=(), no_std_rewrites=False,
                 recommends=(), prologue=None, decl_only=False, from_block=None, reach_guard=False, region=None, optional=False):
        self.name = name
        self.props = list(props)
        self.ret = ret
        self.requires = [_cl(c, 'pre', i) for i, c in enumerate(requires)]
        self.ensures = [_cl(c, 'post', i) for i, c in enumerate(ensures)]
        self.decreases = decreases
        self.loops = loops or {}
        self.before = list(before)
        self.after = list(after)
        self.rewrites = list(rewrites)
        self.nth = nth
        self.emit_name = emit_name
        self.external_body = external_body
        self.sig_rewrites = list(sig_rewrites)
        self.attrs = list(attrs)
        self.known = set(known)   # labels of clauses expected to fail (known findings)
        self.no_std_rewrites = no_std_rewrites
        self.prologue = prologue
        self.decl_only = decl_only
        self.reach_guard = reach_guard
        # R-region: (start_anchor, end_anchor, signature, tail): the statements of the function from start_anchor up to
        # (not including) end_anchor are emitted as the body of a new function with the given signature; `tail` is appended
        self.region = region
        self.from_block = from_block   # (file, header): R-flatten, take the fn from another trait/impl block
        # a private helper the contracted functions may or may not be written with: when it is absent nothing is emitted
        # (its callers are then checked against their own contracts without it)
        self.optional = optional


def _cl(c, kind, i):
    if isinstance(c, tuple):
        return c
    return (f"{kind}{i}", c)


class Chunk:
    __slots__ = ('text', 'origin')

    def __init__(self, text, origin):
        self.text = text
        self.origin = origin   # ('src', file, line) | ('clause', id) | ('spec', file, line) | ('gen', what)


class Unit:
    def __init__(self, name, serves):
        self.name = name
        self.serves = list(serves)
        self.chunks = []
        self.files = {}
        self.rewrite_log = []
        self.functions = []     # dicts: qual, file, line, props, clauses[], sha_src, sha_out, trusted
        self.trusted = []       # strings
        self.items = []
        self.header = ['#![feature(allocator_api)]', '#![allow(unused_imports, unused_variables, dead_code, unused_mut, unused_parens, unused_assignments, non_snake_case, unreachable_code, unreachable_patterns)]',
                       'use vstd::prelude::*;', 'use vstd::std_specs::cmp::PartialEqSpec;']
        self.uses = []
        self.canaries = []      # names of proof fns that must FAIL
        self.reach = True       # emit a `ensures false` clone of every function under contract (vacuity guard)
        self.smoke = []
        self._cur_fn = None

    # ---- low level
    def rf(self, file):
        if file not in self.files:
            self.files[file] = RustFile(os.path.join(REPO, file))
        return self.files[file]

    def emit(self, text, origin):
        if not text.endswith('\n'):
            text += '\n'
        self.chunks.append(Chunk(text, origin))

    def use(self, line):
        self.uses.append(line)

    def spec(self, text, name='inline'):
        """hand-written spec-only Verus text (spec fn / proof fn / ghost declarations)"""
        self.emit(text, ('spec', name, 1))

    def spec_file(self, relpath):
        p = os.path.join(VERIF, relpath)
        with open(p) as f:
            self.emit(f.read(), ('spec', relpath, 1))

    def trusted_text(self, text, what):
        """external_body / assume_specification text. `what` is recorded in the trusted base."""
        self.emit(text, ('trusted', what, 1))
        self.trusted.append(what)

    def canary(self, name, text):
        """a proof fn that is false by one token; it must FAIL to verify."""
        self.canaries.append(name)
        self.emit(text, ('canary', name))

    # ---- items
    def item(self, file, kind, name, keep_fields=None, keep_variants=None, rewrites=(), extra_derive=None, replace_body=None, keep_derives=None):
        rf = self.rf(file)
        start, end, attrs = rf.find_item(kind, name)
        text = rf.text[start:end]
        line = rf.line_of(start)
        sl = Slice(text, file, line, self.rewrite_log)
        # derive attributes above the item
        dm = re.findall(r'#\[derive\(([^)]*)\)\]', attrs)
        derives = []
        for d in dm:
            for x in d.split(','):
                x = x.strip()
                if x and x.split('::')[-1] not in DROP_DERIVES and (keep_derives is None or x in keep_derives):
                    derives.append(x)
        std_rewrites(sl)
        if keep_fields is not None or keep_variants is not None:
            keep = keep_fields if keep_fields is not None else keep_variants
            o = sl.text.index('{')
            mask = code_mask(sl.text)
            c = match_close(sl.text, mask, o)
            body = sl.text[o + 1:c]
            # strip comments in body for splitting
            body_nc = ''.join(ch if mask[o + 1 + i] or ch == '\n' else ' ' for i, ch in enumerate(body))
            # strings inside attribute were already removed by R-attr
            parts = split_top_level(body_nc)
            kept = []
            dropped = []
            for p in parts:
                ps = p.strip()
                if not ps:
                    continue
                nm = re.match(r'(?:pub\s+)?([A-Za-z_][A-Za-z0-9_]*)', ps)
                fname = nm.group(1) if nm else ps
                if fname in keep:
                    kept.append(ps)
                else:
                    dropped.append(fname)
            missing = [k for k in keep if not any(re.match(r'(?:pub\s+)?' + re.escape(k) + r'\b', x) for x in kept)]
            if missing:
                raise ExtractError(f"{file}: {kind} {name}: fields/variants not found: {missing}")
            sl.fire('R-field', 0, f"{kind} {name}: dropped {dropped}")
            sl.text = sl.text[:o + 1] + '\n    ' + ',\n    '.join(kept) + ',\n}'
        for rw in rewrites:
            rule, pat, repl = rw[:3]
            sl.sub(rule, pat, repl, require=True)
        if extra_derive:
            derives += [d for d in extra_derive if d not in derives]
        out = ''
        if derives and kind in ('struct', 'enum'):
            out += '#[derive(%s)]\n' % ', '.join(derives)
        out += sl.text
        self.emit(out, ('src', file, line - (1 if derives and kind in ('struct', 'enum') else 0)))
        self.items.append(dict(kind=kind, name=name, file=file, line=line, sha_src=sha(text), sha_out=sha(out)))

    def impl(self, file, header, fns, nth=0, header_rewrites=(), extra='', verus_header=None):
        """emit `impl ... { <selected fns with contracts> }` ; header copied from the source."""
        rf = self.rf(file)
        hs, o, c = rf.find_impl(header, nth)
        htext = rf.text[hs:o]
        sl = Slice(htext, file, rf.line_of(hs), self.rewrite_log)
        std_rewrites(sl)
        for rw in header_rewrites:
            sl.sub(rw[0], rw[1], rw[2], require=True)
        if verus_header is not None:
            sl.fire('R-header', 0, f"{norm_ws(htext)} -> {verus_header}")
            sl.text = verus_header + ' '
        self.emit(sl.text.rstrip() + ' {', ('src', file, rf.line_of(hs)))
        if extra:
            self.emit(extra, ('spec', f'{self.name}:{header}', 1))
        implname = norm_ws(header)
        # all blocks with this header (a type often has several `impl X` blocks)
        blocks = [(o, c)]
        k = nth + 1
        while True:
            try:
                _, o2, c2 = rf.find_impl(header, k)
            except ExtractError:
                break
            blocks.append((o2, c2))
            k += 1
        for fn in fns:
            last = None
            if fn.from_block:
                f2, h2 = fn.from_block
                rf2 = self.rf(f2)
                _, o2, c2 = rf2.find_impl(h2)
                self.rewrite_log.append(dict(rule='R-flatten', at=f"{f2}:{rf2.line_of(o2)}", what=f"{fn.name} of `{h2}` emitted as a member of `{implname}`"))
                self._emit_fn(rf2, f2, fn, within=(o2, c2), owner=implname)
                continue
            for blk in blocks:
                try:
                    rf.find_fn(fn.name, blk, fn.nth)
                except ExtractError as e:
                    last = e
                    continue
                self._emit_fn(rf, file, fn, within=blk, owner=implname)
                last = None
                break
            if last is not None:
                if fn.optional:
                    self.rewrite_log.append(dict(rule='R-optional', at=f"{file}", what=f"optional helper {fn.name} of `{implname}` is not present; nothing emitted for it"))
                    continue
                raise last
        self.emit('}\n', ('src', file, rf.line_of(c)))

    def free_fn(self, file, fn):
        rf = self.rf(file)
        self._emit_fn(rf, file, fn, within=None, owner='')

    def _emit_fn(self, rf, file, fn, within, owner):
        self._emit_fn_inner(rf, file, fn, within, owner)
        if self.reach and not fn.external_body and not fn.decl_only and (fn.requires or fn.reach_guard):
            loc = rf.find_fn(fn.name, within, fn.nth)
            if loc['body_open'] is None:
                return
            import copy
            clone = copy.copy(fn)
            clone.emit_name = (fn.emit_name or fn.name) + '__reach'
            clone.ensures = [('reach', 'false')]
            clone.known = set()
            n0 = len(self.chunks)
            nf = len(self.functions)
            log0 = len(self.rewrite_log)
            self._emit_fn_inner(rf, file, clone, within, owner)
            del self.rewrite_log[log0:]
            cname = self.functions[-1]['qual']
            del self.functions[nf:]
            for ch in self.chunks[n0:]:
                ch.origin = ('canary', cname)
            self.canaries.append(cname)

    def _emit_fn_inner(self, rf, file, fn, within, owner):
        loc = rf.find_fn(fn.name, within, fn.nth)
        start, end, bo = loc['start'], loc['end'], loc['body_open']
        if fn.decl_only and bo is not None:
            # R-decl: a trait method's default body is dropped; only its signature and contract are emitted
            self.rewrite_log.append(dict(rule='R-decl', at=f"{file}:{rf.line_of(start)}", what=f"default body of {fn.name} dropped (declaration + contract only)"))
            end = bo + 1
            bo = None
        src_text = rf.text[start:end]
        line0 = rf.line_of(start)
        emit_name = fn.emit_name or fn.name
        qual = (owner + '::' if owner else '') + emit_name
        first_line = len(self._flat_lines_so_far())
        sig = rf.text[start:bo if bo is not None else end - 1]
        if fn.decl_only:
            sig = sig.rstrip()
        body = rf.text[bo:end] if bo is not None else ';'
        body_line = rf.line_of(bo) if bo is not None else None
        if fn.external_body and bo is not None:
            # the body of an assumed (external_body) function is not emitted at all
            body = '{ unimplemented!() }'
        if fn.region:
            ra, rb, rsig, rtail = fn.region
            full = rf.text[bo:end]
            def _find(anchor):
                # 'after:<anchor>': the region starts on the line after the anchored statement (so the first statement of
                # the region itself is not part of the anchor and may change freely)
                after = anchor.startswith('after:')
                if after:
                    anchor = anchor[6:]
                if anchor.startswith('re:'):
                    ms = list(re.finditer(anchor[3:], full))
                    if len(ms) != 1:
                        raise ExtractError(f"{file}: {fn.name}: region anchor {anchor!r} matches {len(ms)} times")
                    return (full.index('\n', ms[0].end()) + 1) if after else ms[0].start()
                if full.count(anchor) != 1:
                    raise ExtractError(f"{file}: {fn.name}: region anchor {anchor!r} occurs {full.count(anchor)} times")
                return (full.index('\n', full.index(anchor) + len(anchor)) + 1) if after else full.index(anchor)
            ia, ib = _find(ra), _find(rb)
            if not ia < ib:
                raise ExtractError(f"{file}: {fn.name}: region anchors out of order")
            # start at the beginning of the line of the start anchor
            ia = full.rfind('\n', 0, ia) + 1
            ib = full.rfind('\n', 0, ib) + 1
            self.rewrite_log.append(dict(rule='R-region', at=f"{file}:{rf.line_of(bo + ia)}-{rf.line_of(bo + ib)}",
                                         what=f"statements of {fn.name} between {ra!r} and {rb!r} emitted as `{rsig}`; the rest of the function is dropped"))
            sig = re.sub(r'\bfn\s+\w+', 'fn ' + emit_name, rsig, count=1) + ' '
            if rtail == '@arm':
                # the region is the block of one match arm (`PATTERN => { .. }`): the closing brace of the arm's block, which
                # is the last token before the end anchor, closes the new function instead
                reg = full[ia:ib].rstrip()
                if not reg.endswith('}'):
                    raise ExtractError(f"{file}: {fn.name}: region of a match arm does not end in a closing brace")
                body = '{\n' + reg[:-1] + '\n}'
            else:
                body = '{\n' + full[ia:ib] + (rtail or '') + '\n}'
            body_line = rf.line_of(bo + ia) - 1
        # ---------------- signature
        ssl = Slice(sig, file, line0, self.rewrite_log)
        if not fn.no_std_rewrites:
            std_rewrites(ssl)
        for rw in fn.sig_rewrites:
            ssl.sub(rw[0], rw[1], rw[2], require=not (len(rw) > 3 and rw[3] == 'opt'))
        if fn.emit_name and not fn.region:
            ssl.sub('R-rename', r'\bfn\s+' + re.escape(fn.name) + r'\b', 'fn ' + fn.emit_name, count=1, require=True)
        if fn.ret:
            ssl.text = name_return(ssl.text, fn.ret)
        for a in fn.attrs:
            self.emit('    ' + a, ('gen', 'attr'))
        if fn.external_body:
            self.emit('    #[verifier::external_body]', ('trusted', f'external_body {qual}'))
            self.trusted.append(f'external_body (contract assumed, body not verified): {file}:{line0} {qual}')
        self.emit(ssl.text.rstrip(), ('src', file, line0))
        # ---------------- contract
        clauses = []
        if fn.requires:
            self.emit('        requires', ('gen', 'requires'))
            for lab, txt in fn.requires:
                cid = f"{qual}/{lab}"
                self.emit(f"            {one_line(txt)},", ('clause', cid))
                clauses.append(dict(id=cid, kind='requires', text=one_line(txt)))
        if fn.ensures:
            self.emit('        ensures', ('gen', 'ensures'))
            for lab, txt in fn.ensures:
                cid = f"{qual}/{lab}"
                self.emit(f"            {one_line(txt)},", ('clause', cid))
                clauses.append(dict(id=cid, kind='ensures', text=one_line(txt), known=(lab in fn.known)))
        if fn.decreases:
            self.emit(f'        decreases {fn.decreases}', ('clause', f"{qual}/decreases"))
        # ---------------- body
        sha_out = None
        if bo is None:
            self.emit('    ;', ('src', file, rf.line_of(end - 1)))
        else:
            bline = body_line
            bsl = Slice(body, file, bline, self.rewrite_log)
            if not fn.no_std_rewrites:
                std_rewrites(bsl)
            for rw in fn.rewrites:
                if rw[0] == 'exact':
                    bsl.replace_exact(rw[1], rw[2], rw[3])
                else:
                    # a 4th element 'opt' marks a rewrite that need not fire (the construct may legitimately be absent)
                    bsl.sub(rw[0], rw[1], rw[2], require=not (len(rw) > 3 and rw[3] == 'opt'))
            sha_out = sha(ssl.text + bsl.text)
            pieces = self._splice_body(bsl, fn, qual, file, bline, clauses)
            for text, origin in pieces:
                self.emit_raw(text, origin)
            self.emit('\n', ('gen', 'nl'))
        last_line = len(self._flat_lines_so_far())
        self.functions.append(dict(
            qual=qual, name=emit_name, owner=owner, file=file, line=line0, end_line=rf.line_of(end),
            props=fn.props, clauses=clauses, sha_src=sha(src_text), sha_out=sha_out,
            gen_first=first_line + 1, gen_last=last_line, external_body=fn.external_body,
            n_loops=len(fn.loops)))

    def raw_fn(self, qual, props, file, line, header, contract, body, what):
        """emit a function assembled by a unit-specific mechanical rule (e.g. a lifted closure).
        header: signature text; contract: list of (label, kind, text); body: text cut from the source at file:line"""
        first_line = len(self._flat_lines_so_far())
        self.emit(header, ('gen', what))
        clauses = []
        for kind in ('requires', 'ensures'):
            cl = [c for c in contract if c[1] == kind]
            if cl:
                self.emit('        ' + kind, ('gen', kind))
                for lab, _, txt in cl:
                    cid = f"{qual}/{lab}"
                    self.emit(f"            {one_line(txt)},", ('clause', cid))
                    clauses.append(dict(id=cid, kind=kind, text=one_line(txt)))
        self.emit('{', ('gen', what))
        self.emit(body, ('src', file, line))
        self.emit('}', ('gen', what))
        last_line = len(self._flat_lines_so_far())
        self.functions.append(dict(qual=qual, name=qual.split('::')[-1], owner='', file=file, line=line, end_line=line + body.count('\n'),
                                   props=list(props), clauses=clauses, sha_src=sha(body), sha_out=sha(body), gen_first=first_line + 1, gen_last=last_line,
                                   external_body=False, n_loops=0))

    def emit_raw(self, text, origin):
        self.chunks.append(Chunk(text, origin))

    def _flat_lines_so_far(self):
        return ''.join(c.text for c in self.chunks).split('\n')[:-1]

    def _splice_body(self, bsl, fn, qual, file, bline, clauses):
        """insert loop invariants and proof hints. returns list of (text, origin)."""
        text = bsl.text
        mask = code_mask(text)
        inserts = []  # (pos, text, origin)
        # loops
        if fn.loops:
            loops = find_loops(text, mask)
            for ordinal, spec in fn.loops.items():
                if isinstance(ordinal, str):
                    # keyed by a pattern of the loop header (robust against reordering of loops)
                    hits = [k for k, (kp, op) in enumerate(loops) if re.search(ordinal, text[kp:op])]
                    if len(hits) != 1:
                        raise ExtractError(f"{file}:{bline} {qual}: loop header pattern {ordinal!r} matches {len(hits)} loops")
                    label = re.sub(r'[^A-Za-z0-9]+', '_', ordinal).strip('_')[:24]
                    kw_pos, open_pos = loops[hits[0]]
                    ordinal = label
                else:
                    if ordinal >= len(loops):
                        raise ExtractError(f"{file}:{bline} {qual}: loop #{ordinal} not found ({len(loops)} loops)")
                    kw_pos, open_pos = loops[ordinal]
                lines = []
                if spec.get('invariant'):
                    lines.append(('gen', '\n            invariant\n'))
                    for i, inv in enumerate(spec['invariant']):
                        if isinstance(inv, tuple) and len(inv) == 3:
                            # (label, text, identifier): a linking invariant about an implementation temporary; only emitted while
                            # the function body still has that temporary (so that removing it does not make the unit ill-formed)
                            if not re.search(r'\b' + re.escape(inv[2]) + r'\b', text):
                                continue
                            inv = inv[:2]
                        lab, t = inv if isinstance(inv, tuple) else (f"inv{i}", inv)
                        cid = f"{qual}/loop{ordinal}/{lab}"
                        lines.append((cid, f"                {one_line(t)},\n"))
                        clauses.append(dict(id=cid, kind='invariant', text=one_line(t)))
                if spec.get('ensures'):
                    lines.append(('gen', '\n            ensures\n'))
                    for i, inv in enumerate(spec['ensures']):
                        cid = f"{qual}/loop{ordinal}/ens{i}"
                        lines.append((cid, f"                {one_line(inv)},\n"))
                if spec.get('decreases'):
                    lines.append((f"{qual}/loop{ordinal}/decreases", f"            decreases {spec['decreases']},\n"))
                for cid, t in lines:
                    inserts.append((open_pos, t, ('gen', 'kw') if cid == 'gen' else ('clause', cid)))
                if spec.get('at_end'):
                    # proof step right before the closing brace of the loop body (structural anchor: independent of the statements)
                    close = match_close(text, mask, open_pos)
                    lab = spec.get('at_end_label')
                    inserts.append((close, '\n' + spec['at_end'].strip('\n') + '\n', ('clause', f"{qual}/{lab}/hint_loopend{ordinal}" if lab else f"{qual}/hint_loopend{ordinal}")))
        if fn.prologue:
            inserts.append((text.index('{') + 1, '\n' + fn.prologue.strip('\n') + '\n', ('clause', f"{qual}/prologue")))
        for where, lst in (('before', fn.before), ('after', fn.after)):
            for k, item in enumerate(lst):
                anchor, t = item[0], item[1]
                nth = item[2] if len(item) > 2 else None
                if anchor.startswith('re:'):
                    ms = [m for m in re.finditer(anchor[3:], text) if mask[m.start()]]
                    if len(ms) == 0 or (len(ms) != 1 and nth is None):
                        raise ExtractError(f"{file}:{bline} {qual}: hint anchor {anchor!r} matches {len(ms)} times")
                    mm = ms[nth or 0]
                    pos = mm.start() if where == 'before' else mm.end()
                else:
                    cnt = text.count(anchor)
                    if cnt == 0 or (cnt != 1 and nth is None):
                        raise ExtractError(f"{file}:{bline} {qual}: hint anchor {anchor!r} occurs {cnt} times")
                    pos = -1
                    for _ in range((nth or 0) + 1):
                        pos = text.index(anchor, pos + 1)
                    if where == 'after':
                        pos += len(anchor)
                label = item[3] if len(item) > 3 else None
                inserts.append((pos, '\n' + t.strip('\n') + '\n', ('clause', f"{qual}/{label}/hint_{where}{k}" if label else f"{qual}/hint_{where}{k}")))
        inserts.sort(key=lambda x: x[0])
        # stable for same pos: keep insertion order
        out = []
        last = 0
        for pos, t, origin in inserts:
            if pos > last:
                out.append((text[last:pos], ('src', file, bline + text.count('\n', 0, last))))
                last = pos
            out.append((t, origin))
        out.append((text[last:], ('src', file, bline + text.count('\n', 0, last))))
        return out

    # ---- finish
    def build(self):
        head = '\n'.join(self.header + self.uses) + '\nverus! {\n'
        tail = '\n} // verus!\nfn main() {}\n'
        # std::cmp::min / max: vstd has no specification; assumed here (only when the extracted code uses them),
        # so that a clamp added to a function under contract is decided rather than reported as unsupported
        body_text = ''.join(c.text for c in self.chunks if c.origin[0] == 'src')
        extra = []
        for fn, pick in (('min', '{ b } else { a }'), ('max', '{ a } else { b }')):
            if re.search(r'\bcmp::%s\s*\(' % fn, body_text):
                what = 'std::cmp::%s (assumed: the smaller/larger argument under OrdSpec::cmp_spec)' % fn
                extra.append(Chunk('pub assume_specification<T: Ord> [std::cmp::%s] (a: T, b: T) -> (r: T)\n'
                                   '    ensures <T as vstd::std_specs::cmp::OrdSpec>::obeys_cmp_spec() ==> r == (if vstd::std_specs::cmp::OrdSpec::cmp_spec(&a, &b) == core::cmp::Ordering::Greater %s);\n'
                                   % (fn, pick), ('trusted', what, 1)))
                if what not in self.trusted:
                    self.trusted.append(what)
        chunks = [Chunk(head, ('gen', 'header'))] + extra + self.chunks + [Chunk(tail, ('gen', 'tail'))]
        # flatten with line origins
        lines = []
        origins = []
        cur = ''
        cur_origin = None
        for ch in chunks:
            parts = ch.text.split('\n')
            for k, p in enumerate(parts):
                if k > 0:
                    lines.append(cur)
                    origins.append(cur_origin)
                    cur = ''
                    cur_origin = None
                if p.strip() and cur_origin is None:
                    o = ch.origin
                    if o[0] in ('src', 'spec') and len(o) == 3:
                        o = (o[0], o[1], o[2] + k)
                    cur_origin = o
                cur += p
        if cur:
            lines.append(cur)
            origins.append(cur_origin)
        # the header shifts function line ranges
        shift = head.count('\n')
        for f in self.functions:
            f['gen_first'] += shift
            f['gen_last'] += shift
        return '\n'.join(lines) + '\n', origins


def one_line(t):
    return re.sub(r'\s+', ' ', t.strip())


def name_return(sig, ret):
    """`-> T` becomes `-> (ret: T)` (rule R-retname)."""
    mask = code_mask(sig)
    # find param list
    p = sig.index('(', sig.index('fn '))
    # skip generics before params: find first '(' at angle depth 0 after fn name
    depth = 0
    i = sig.index('fn ') + 3
    while i < len(sig):
        ch = sig[i]
        if ch == '<':
            depth += 1
        elif ch == '>' and sig[i - 1] != '-':
            depth -= 1
        elif ch == '(' and depth == 0:
            p = i
            break
        i += 1
    c = match_close(sig, mask, p)
    rest = sig[c + 1:]
    m = re.match(r'(\s*->\s*)', rest)
    if not m:
        raise ExtractError(f"R-retname: no return type in {sig!r}")
    ty_start = c + 1 + m.end()
    # type ends at top-level `where` or end
    wm = None
    d = 0
    j = ty_start
    while j < len(sig):
        ch = sig[j]
        if ch in '<([':
            d += 1
        elif ch in ')]' or (ch == '>' and sig[j - 1] != '-'):
            d -= 1
        elif d == 0 and re.match(r'\bwhere\b', sig[j:]) and (j == 0 or not (sig[j - 1].isalnum() or sig[j - 1] == '_')):
            wm = j
            break
        j += 1
    ty_end = wm if wm is not None else len(sig)
    ty = sig[ty_start:ty_end]
    return sig[:ty_start] + f"({ret}: " + ty.rstrip() + ")" + ty[len(ty.rstrip()):] + sig[ty_end:]


def find_loops(text, mask):
    """positions of loops in body text, in source order: (keyword_pos, open_brace_pos)"""
    res = []
    for mm in re.finditer(r'\b(while|for|loop)\b', text):
        if not mask[mm.start()]:
            continue
        # `for` in `impl X for Y` / `for<'a>` does not occur inside bodies we slice
        # find the opening brace at paren depth 0
        pd = 0
        i = mm.end()
        found = None
        while i < len(text):
            if mask[i]:
                ch = text[i]
                if ch in '([':
                    pd += 1
                elif ch in ')]':
                    pd -= 1
                elif ch == '{' and pd == 0:
                    found = i
                    break
                elif ch == ';' and pd == 0:
                    break
            i += 1
        if found is not None:
            res.append((mm.start(), found))
    return res

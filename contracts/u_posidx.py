"""U-posidx: StoreCallbacks<TextSelection>::inserted for TextResource (src/resources.rs) - the position index
insertion.  The four closures given to the BTreeMap entry API are lifted (R-lambda) and proved; the entry
API itself is trusted.  Serves C06 (index walk finds every selection by begin and by end), C01, C12 (bytepos)."""
import re
from vx.gen import Unit, Fn
from vx.rustsrc import ExtractError
from . import common

P = ['C06', 'C01']
R = 'src/resources.rs'
T = 'src/textselection.rs'

PRE = r'''
pub assume_specification<T: PartialEq> [<[T]>::contains] (s: &[T], x: &T) -> (r: bool)
    ensures r == s@.contains(*x);

/// R-err
#[verifier::external_body]
pub fn vx_msg() -> String { String::new() }

pub open spec fn push_if_absent<T>(s: Seq<T>, x: T) -> Seq<T> { if s.contains(x) { s } else { s.push(x) } }

/// executable `==` on (usize, TextSelectionHandle) pairs is structural (used by contains)
'''

ENTRY = r'''
/// R-outline: `MAP.entry(KEY).and_modify(C_MODIFY).or_insert_with(C_NEW);` with the two closures lifted.
/// Trusted: the BTreeMap entry API applies the first closure to an existing value, otherwise inserts the
/// value built by the second one.  `side` selects the (begin | end) pair of lifted closures.
#[verifier::external_body]
pub fn vx_entry_begin(map: &mut BTreeMap<usize, PositionIndexItem>, begin: usize, end: usize, handle: TextSelectionHandle, beginbyte: usize, endbyte: usize)
    ensures
        final(map)@.dom() == old(map)@.dom().insert(begin),
        forall|k: usize| k != begin && old(map)@.contains_key(k) ==> #[trigger] final(map)@[k] == old(map)@[k],
        old(map)@.contains_key(begin) ==> c1_post(old(map)@[begin], final(map)@[begin], begin, end, handle),
        !old(map)@.contains_key(begin) ==> c2_post(final(map)@[begin], begin, end, handle, beginbyte),
{ unimplemented!() }

#[verifier::external_body]
pub fn vx_entry_end(map: &mut BTreeMap<usize, PositionIndexItem>, begin: usize, end: usize, handle: TextSelectionHandle, beginbyte: usize, endbyte: usize)
    ensures
        final(map)@.dom() == old(map)@.dom().insert(end),
        forall|k: usize| k != end && old(map)@.contains_key(k) ==> #[trigger] final(map)@[k] == old(map)@[k],
        old(map)@.contains_key(end) ==> c3_post(old(map)@[end], final(map)@[end], begin, end, handle),
        !old(map)@.contains_key(end) ==> c4_post(final(map)@[end], begin, end, handle, endbyte),
{ unimplemented!() }

/// R-outline: `MAP.entry(K).or_insert(V);` on byte2charmap - inserts only when absent (trusted std semantics)
#[verifier::external_body]
pub fn vx_or_insert(map: &mut BTreeMap<usize, usize>, k: usize, v: usize)
    ensures final(map)@ == (if old(map)@.contains_key(k) { old(map)@ } else { old(map)@.insert(k, v) }),
{ unimplemented!() }
'''

POSTS = r'''
// what the four lifted closures must do, from the meaning of the index: begin2end lists the selections that
// begin at a position (with their end), end2begin those that end there (with their begin); nothing twice
pub open spec fn c1_post(o: PositionIndexItem, n: PositionIndexItem, begin: usize, end: usize, handle: TextSelectionHandle) -> bool {
    n.begin2end@ == push_if_absent(o.begin2end@, (end, handle)) && n.end2begin@ == o.end2begin@ && n.bytepos == o.bytepos
}
pub open spec fn c2_post(n: PositionIndexItem, begin: usize, end: usize, handle: TextSelectionHandle, beginbyte: usize) -> bool {
    n.begin2end@ =~= seq![(end, handle)] && n.end2begin@ =~= Seq::<(usize, TextSelectionHandle)>::empty() && n.bytepos == beginbyte
}
pub open spec fn c3_post(o: PositionIndexItem, n: PositionIndexItem, begin: usize, end: usize, handle: TextSelectionHandle) -> bool {
    n.end2begin@ == push_if_absent(o.end2begin@, (begin, handle)) && n.begin2end@ == o.begin2end@ && n.bytepos == o.bytepos
}
pub open spec fn c4_post(n: PositionIndexItem, begin: usize, end: usize, handle: TextSelectionHandle, endbyte: usize) -> bool {
    n.end2begin@ =~= seq![(begin, handle)] && n.begin2end@ =~= Seq::<(usize, TextSelectionHandle)>::empty() && n.bytepos == endbyte
}

pub proof fn lemma_pia<T>(s: Seq<T>, x: T)
    ensures
        push_if_absent(s, x).contains(x),
        forall|y: T| s.contains(y) ==> #[trigger] push_if_absent(s, x).contains(y),
        forall|y: T| #[trigger] push_if_absent(s, x).contains(y) ==> s.contains(y) || y == x,
{
    if !s.contains(x) {
        let p = s.push(x);
        assert(p[s.len() as int] == x);
        assert forall|y: T| s.contains(y) implies p.contains(y) by { let i = choose|i: int| 0 <= i < s.len() && s[i] == y; assert(p[i] == y); }
        assert forall|y: T| p.contains(y) implies s.contains(y) || y == x by { let i = choose|i: int| 0 <= i < p.len() && p[i] == y; if i < s.len() { assert(s[i] == y); } }
    }
}

pub proof fn lemma_single<T>(x: T)
    ensures seq![x].contains(x), forall|y: T| #[trigger] seq![x].contains(y) ==> y == x,
{
    assert(seq![x][0] == x);
}

/// the selection (begin, end, handle) can be found from both of its ends
pub open spec fn indexed(pi: Map<usize, PositionIndexItem>, begin: usize, end: usize, handle: TextSelectionHandle) -> bool {
    pi.contains_key(begin) && pi[begin].begin2end@.contains((end, handle))
    && pi.contains_key(end) && pi[end].end2begin@.contains((begin, handle))
}
'''

STUBS = r'''
impl TextResource {
    /// ghost: byte offset of a codepoint position (C12), None beyond the text
    pub uninterp spec fn cb(&self, pos: usize) -> Option<usize>;

    /// stands for StoreFor<TextSelection>::get(handle) (generic contract proved in u_store)
    #[verifier::external_body]
    pub fn get(&self, handle: TextSelectionHandle) -> (r: Result<&TextSelection, StamError>)
        ensures r is Ok <==> (handle.idx() < self.textselections@.len() && self.textselections@[handle.idx() as int] is Some),
                r is Ok ==> *r->Ok_0 == self.textselections@[handle.idx() as int].unwrap(),
    { unimplemented!() }

    /// stands for Text::utf8byte (contract: u_utf8)
    #[verifier::external_body]
    pub fn utf8byte(&self, abscursor: usize) -> (r: Result<usize, StamError>)
        ensures r is Ok <==> self.cb(abscursor) is Some, r is Ok ==> r->Ok_0 == self.cb(abscursor).unwrap(),
    { unimplemented!() }
}
'''


HINT = '''proof {
            let m0 = old(self).positionindex.0@; let m1 = vx_m1; let m2 = self.positionindex.0@;
            if m0.contains_key(begin) { lemma_pia(m0[begin].begin2end@, (end, handle)); } else { lemma_single((end, handle)); }
            if m1.contains_key(end) { lemma_pia(m1[end].end2begin@, (begin, handle)); } else { lemma_single((begin, handle)); }
            assert forall|b: usize, e: usize, h: TextSelectionHandle| #[trigger] indexed(m0, b, e, h) implies indexed(m2, b, e, h) by {
                assert(indexed(m1, b, e, h));
            }
        }'''


def lift(u, body, file, line0, regex, name, params, ret, contract, pre=''):
    ms = list(re.finditer(regex, body, re.S))
    if len(ms) != 1:
        raise ExtractError(f"{file}: inserted: closure for {name} not found exactly once ({len(ms)})")
    cbody = ms[0].group(1)
    line = line0 + body.count('\n', 0, ms[0].start(1))
    u.rewrite_log.append(dict(rule='R-lambda', at=f"{file}:{line}", what=f"closure lifted into {name}"))
    cbody = cbody.replace('smallvec!', 'vec!')
    u.raw_fn(f'TextResource::inserted::{{closure {name}}}', P, file, line,
             f'pub fn {name}({params}) -> ({ret})', contract, pre + cbody, 'R-lambda lifted closure')


def build():
    u = Unit('u_posidx', serves=['C06', 'C01', 'C12'])
    u.use('use std::collections::BTreeMap;')
    common.target64(u)
    common.handle_trait(u, P)
    common.handle_impl(u, 'TextSelectionHandle', P)
    u.trusted_text(PRE, 'assume_specification [T]::contains; vx_msg')
    u.item('src/error.rs', 'enum', 'StamError', keep_variants=['HandleError', 'CursorOutOfBounds', 'OtherError'], keep_derives=['Debug'],
           rewrites=[('R-field', r'CursorOutOfBounds\(Cursor, &\'static str\)', "CursorOutOfBounds(&'static str)")])
    u.item(T, 'struct', 'TextSelection', keep_derives=['Clone', 'Copy'])
    u.item(T, 'struct', 'PositionIndexItem', keep_derives=[],
           rewrites=[('R-smallvec', r'SmallVec<\[\(usize, TextSelectionHandle\); 1\]>', 'Vec<(usize, TextSelectionHandle)>')])
    u.item(T, 'struct', 'PositionIndex', keep_derives=[])
    u.item('src/store.rs', 'type', 'Store')
    u.item(R, 'struct', 'TextResource', keep_fields=['textselections', 'positionindex', 'byte2charmap'], keep_derives=[],
           rewrites=[('R-vis', r'\b(textselections|positionindex|byte2charmap):', r'pub \1:')])
    u.spec(POSTS, 'contracts/u_posidx.py:POSTS')
    u.trusted_text(ENTRY, 'external_body vx_entry_begin / vx_entry_end / vx_or_insert: BTreeMap entry API semantics (and_modify / or_insert_with / or_insert) over the lifted closures')
    u.trusted_text(STUBS, 'external_body TextResource::{get, utf8byte} stubs (contracts of u_store / u_utf8)')
    u.impl(T, 'impl TextSelection', [
        Fn('begin', props=P, ret='r', ensures=[('begin', 'r == self.begin')]),
        Fn('end', props=P, ret='r', ensures=[('end', 'r == self.end')]),
    ])
    # ---- lift the four closures
    rf = u.rf(R)
    hs, o, c = rf.find_impl('impl private::StoreCallbacks<TextSelection> for TextResource')
    loc = rf.find_fn('inserted', (o, c))
    body = rf.text[loc['body_open']:loc['end']]
    line0 = rf.line_of(loc['body_open'])
    ARGS = 'begin: usize, end: usize, handle: TextSelectionHandle, beginbyte: usize, endbyte: usize'
    CH = r'\s*\.0\s*\.entry\((begin|end)\)\s*'
    lift(u, body, R, line0, r'\.entry\(begin\)\s*\.and_modify\(\|positem\| \{(.*?)\}\)\s*\.or_insert_with', 'vx_inserted_c1',
         'positem: &mut PositionIndexItem, ' + ARGS, '',
         [('begin2end_gets_the_selection', 'ensures', 'c1_post(*old(positem), *final(positem), begin, end, handle)')])
    lift(u, body, R, line0, r'\.entry\(begin\)\s*\.and_modify\(.*?\)\s*\.or_insert_with\(\|\| (PositionIndexItem \{.*?\})\);', 'vx_inserted_c2',
         ARGS, 'r: PositionIndexItem',
         [('new_begin_entry', 'ensures', 'c2_post(r, begin, end, handle, beginbyte)')])
    lift(u, body, R, line0, r'\.entry\(end\)\s*\.and_modify\(\|positem\| \{(.*?)\}\)\s*\.or_insert_with', 'vx_inserted_c3',
         'positem: &mut PositionIndexItem, ' + ARGS, '',
         [('end2begin_gets_the_selection', 'ensures', 'c3_post(*old(positem), *final(positem), begin, end, handle)')])
    lift(u, body, R, line0, r'\.entry\(end\)\s*\.and_modify\(.*?\)\s*\.or_insert_with\(\|\| (PositionIndexItem \{.*?\})\);', 'vx_inserted_c4',
         ARGS, 'r: PositionIndexItem',
         [('new_end_entry', 'ensures', 'c4_post(r, begin, end, handle, endbyte)')])
    # ---- the callback itself with the entry chains outlined
    PI = 'positionindex.0@'
    u.impl(R, 'impl private::StoreCallbacks<TextSelection> for TextResource', [
        Fn('inserted', props=P, ret='r',
           rewrites=[('R-outline', r'self\.positionindex\s*\.0\s*\.entry\(begin\)\s*\.and_modify\(.*?\)\s*\.or_insert_with\(.*?\}\);',
                      'vx_entry_begin(&mut self.positionindex.0, begin, end, handle, beginbyte, endbyte);'),
                     ('R-outline', r'self\.positionindex\s*\.0\s*\.entry\(end\)\s*\.and_modify\(.*?\)\s*\.or_insert_with\(.*?\}\);',
                      'vx_entry_end(&mut self.positionindex.0, begin, end, handle, beginbyte, endbyte);'),
                     ('R-outline', r'self\.byte2charmap\.entry\(beginbyte\)\.or_insert\(begin\);', 'vx_or_insert(&mut self.byte2charmap, beginbyte, begin);'),
                     ('R-outline', r'self\.byte2charmap\.entry\(endbyte\)\.or_insert\(end\);', 'vx_or_insert(&mut self.byte2charmap, endbyte, end);')],
           after=[('vx_entry_begin(&mut self.positionindex.0, begin, end, handle, beginbyte, endbyte);', 'let ghost vx_m1 = self.positionindex.0@;')],
           before=[(r're:(?m)^ *Ok\(\(\)\)\s*\}\s*\Z', HINT, None, 'index')],
           ensures=[
               ('indexed_both_ends', f'''r is Ok ==> indexed(final(self).{PI}, old(self).textselections@[handle.idx() as int].unwrap().begin, old(self).textselections@[handle.idx() as int].unwrap().end, handle)'''),
               ('others_stay_indexed', f'''r is Ok ==> forall|b: usize, e: usize, h: TextSelectionHandle| #[trigger] indexed(old(self).{PI}, b, e, h) ==> indexed(final(self).{PI}, b, e, h)'''),
               ('nothing_else_added', f'''r is Ok ==> forall|p: usize, x: (usize, TextSelectionHandle)| final(self).{PI}.contains_key(p) && #[trigger] final(self).{PI}[p].begin2end@.contains(x) ==>
                        (old(self).{PI}.contains_key(p) && old(self).{PI}[p].begin2end@.contains(x)) || (x.1 == handle && p == old(self).textselections@[handle.idx() as int].unwrap().begin && x.0 == old(self).textselections@[handle.idx() as int].unwrap().end)'''),
               ('nothing_else_added_end', f'''r is Ok ==> forall|p: usize, x: (usize, TextSelectionHandle)| final(self).{PI}.contains_key(p) && #[trigger] final(self).{PI}[p].end2begin@.contains(x) ==>
                        (old(self).{PI}.contains_key(p) && old(self).{PI}[p].end2begin@.contains(x)) || (x.1 == handle && p == old(self).textselections@[handle.idx() as int].unwrap().end && x.0 == old(self).textselections@[handle.idx() as int].unwrap().begin)'''),
               ('bytepos', f'''r is Ok ==> final(self).{PI}[old(self).textselections@[handle.idx() as int].unwrap().begin].bytepos == (if old(self).{PI}.contains_key(old(self).textselections@[handle.idx() as int].unwrap().begin) {{ old(self).{PI}[old(self).textselections@[handle.idx() as int].unwrap().begin].bytepos }} else {{ old(self).cb(old(self).textselections@[handle.idx() as int].unwrap().begin).unwrap() }})'''),
               ('store_frame', 'final(self).textselections@ == old(self).textselections@'),
               ('fails_only_out_of_text', 'r is Err ==> !(handle.idx() < old(self).textselections@.len() && old(self).textselections@[handle.idx() as int] is Some) || old(self).cb(old(self).textselections@[handle.idx() as int].unwrap().begin) is None || old(self).cb(old(self).textselections@[handle.idx() as int].unwrap().end) is None'),
               ('err_frame', f'r is Err ==> final(self).{PI} == old(self).{PI} && final(self).byte2charmap@ == old(self).byte2charmap@'),
           ]),
    ], verus_header='impl TextResource')
    return u

// Included into the stam crate as `mod verif_hooks` when built with `--cfg stam_verif` or under cargo-kani
// (see the end of /repo/src/lib.rs).  Lives in /verif; never compiled in a normal build.

/// Bounded stand-ins (Kani / CBMC) for string leaves that Verus cannot read.  Every harness states its bound;
/// results are reported under coverage.bounded and never counted as proved.
#[cfg(kani)]
mod kani_harnesses {
    use crate::store::resolve_temp_id;
    use crate::types::Cursor;

    /// any byte string of length <= 4 that is valid UTF-8
    fn any_str4(buf: &mut [u8; 4]) -> Option<&str> {
        let len: usize = kani::any();
        kani::assume(len <= 4);
        for i in 0..4 {
            buf[i] = kani::any();
        }
        std::str::from_utf8(&buf[..len]).ok()
    }

    /// BOUND: every valid UTF-8 string of at most 4 bytes (covers a 1..3-byte character after '!').
    /// Claims: resolve_temp_id never panics; Some(n) only for "!" + one uppercase character + decimal digits of n.
    #[kani::proof]
    #[kani::unwind(6)]
    fn k_temp_id() {
        let mut buf = [0u8; 4];
        if let Some(s) = any_str4(&mut buf) {
            let r = resolve_temp_id(s);
            if let Some(n) = r {
                let mut it = s.chars();
                assert!(it.next() == Some('!'));
                let kind = it.next();
                assert!(kind.is_some() && kind.unwrap().is_uppercase());
                let rest = it.as_str();
                assert!(!rest.is_empty());
                // the number is a plain run of ASCII digits (no sign, no blanks) ...
                assert!(rest.bytes().all(|b| b.is_ascii_digit()));
                // ... and at most two digits fit in the bound: value below 100
                assert!(n < 100);
            }
        }
    }

    /// BOUND: every valid UTF-8 string of at most 3 bytes.
    /// Claims: Cursor::try_from(&str) never panics; a leading '-' never yields a begin-aligned cursor and an
    /// end-aligned result is never positive.
    #[kani::proof]
    #[kani::unwind(6)]
    fn k_cursor_str() {
        let mut buf = [0u8; 4];
        if let Some(s) = any_str4(&mut buf) {
            if s.len() <= 3 {
                let r = Cursor::try_from(s);
                match r {
                    Ok(Cursor::EndAligned(v)) => {
                        assert!(v <= 0);
                        assert!(s.as_bytes()[0] == b'-');
                    }
                    Ok(Cursor::BeginAligned(_)) => {
                        assert!(s.as_bytes()[0] != b'-');
                    }
                    Err(e) => std::mem::forget(e),
                }
            }
        }
    }
}

/// Replay / witness search against the real crate (private functions are reachable from here).
#[cfg(all(test, stam_verif))]
mod replay {
    include!(concat!(env!("STAM_VERIF_DIR"), "/replay/finder.rs"));
}

/// Regression replays: the demonstration of every repaired defect that has one (replay/fixed/*.rs, written against the
/// public API), compiled into the crate next to the finders so that the thorough tier can run them per property
/// (`verif_hooks::regress::c07_`).  A replay that fails means the repaired defect is back.
#[cfg(all(test, stam_verif))]
mod regress {
    include!(concat!(env!("STAM_VERIF_DIR"), "/replay/fixed_mods.rs"));
}

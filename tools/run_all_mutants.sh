#!/bin/bash
# applies every seeded mutant in turn, runs the checks of the claimed properties that could see it, restores /repo
# usage: tools/run_all_mutants.sh [props to run for each mutant, default: the mutant's own property]
cd /verif
# witness finders run (they arbitrate proof-step failures); one build directory is reused across the mutants and removed at the end
[ -n "$VX_NO_WITNESS" ] || export VX_TARGET_CACHE=/var/tmp/vx_target_cache
for d in seeded/*/; do
  m=$(basename $d)
  p=$(python3 -c "import json;print(json.load(open('$d/meta.json'))['property'])")
  extra=$(python3 -c "import json;print(' '.join(json.load(open('$d/meta.json')).get('also_check',[])))")
  out=$(tools/try_mutant.sh $m $p $extra 2>&1)
  v=$(echo "$out" | grep -c "^VIOLATION")
  i=$(echo "$out" | grep -c "^INFRA")
  o=$(echo "$out" | grep -c "^OK")
  first=$(echo "$out" | grep "failed obligation" | head -1 | sed 's/  failed obligation: //' | cut -c1-150)
  u=$(echo "$out" | grep -c "^UNDECIDED")
  w=$(echo "$out" | grep "^VIOLATION" | grep -vc "no-failing-input-found")
  echo "$m property=$p checks='$p $extra' violations=$v with_input=$w undecided=$u infra=$i ok=$o :: $first"
done
rm -rf /var/tmp/vx_target_cache

use stam::*;
use std::borrow::Cow;
use std::panic::{catch_unwind, AssertUnwindSafe};

fn base() -> AnnotationStore {
    AnnotationStore::default()
        .with_resource(TextResourceBuilder::new().with_id("r").with_text("Hello brave new world")).unwrap()
        .with_dataset(AnnotationDataSetBuilder::new().with_id("s")).unwrap()
}

#[test]
fn p01_remove_unannotated_resource() {
    let mut store = base();
    let r = catch_unwind(AssertUnwindSafe(|| store.remove_resource("r")));
    println!("PROBE p01 remove_resource unannotated: panicked={}", r.is_err());
}

#[test]
fn p02_temp_id_multibyte() {
    let store = base();
    let r = catch_unwind(AssertUnwindSafe(|| store.annotation("!\u{c9}1").is_some()));
    println!("PROBE p02 lookup '!É1': panicked={}", r.is_err());
    let mut store = base();
    store.annotate(AnnotationBuilder::new().with_target(SelectorBuilder::textselector("r", Offset::simple(0,5))).with_data("s","k","v")).unwrap();
    println!("PROBE p02b lookup '!R0' as annotation -> {:?}", store.annotation("!R0").map(|a| a.handle()));
    println!("PROBE p02c lookup '!A4294967296' as annotation -> {:?}", store.annotation("!A4294967296").map(|a| a.handle()));
}

#[test]
fn p03_inverted_offset() {
    let mut store = base();
    let r = store.annotate(AnnotationBuilder::new().with_id("A").with_target(SelectorBuilder::textselector("r", Offset::simple(8,3))).with_data("s","k","v"));
    println!("PROBE p03 inverted offset accepted={}", r.is_ok());
    let mut store = base();
    let n0 = store.resource("r").unwrap().textselections().count();
    let r = store.annotate(AnnotationBuilder::new().with_id("A").with_target(SelectorBuilder::textselector("r", Offset::simple(5,1000))).with_data("s","k2","v"));
    println!("PROBE p03b out-of-range accepted={} keys_after={} tsel_len_after={}", r.is_ok(), store.dataset("s").unwrap().keys().count(), store.resource("r").unwrap().as_ref().textselections_len());
    let _ = n0;
}

#[test]
fn p04_related_text_second_half() {
    let mut store = base();
    // whole text, and word "world" (16..21) in 2nd half, and "new" (12..15)
    store.annotate(AnnotationBuilder::new().with_id("whole").with_target(SelectorBuilder::textselector("r", Offset::simple(0,21))).with_data("s","k","whole")).unwrap();
    store.annotate(AnnotationBuilder::new().with_id("new").with_target(SelectorBuilder::textselector("r", Offset::simple(12,15))).with_data("s","k","new")).unwrap();
    store.annotate(AnnotationBuilder::new().with_id("neww").with_target(SelectorBuilder::textselector("r", Offset::simple(12,17))).with_data("s","k","neww")).unwrap();
    store.annotate(AnnotationBuilder::new().with_id("ew").with_target(SelectorBuilder::textselector("r", Offset::simple(13,15))).with_data("s","k","ew")).unwrap();
    let a = store.annotation("new").unwrap();
    let emb: Vec<_> = a.related_text(TextSelectionOperator::embedded()).map(|t| (t.begin(), t.end())).collect();
    println!("PROBE p04 embedded-from(12,15) -> {:?} (expect (0,21),(12,17))", emb);
    let a = store.annotation("ew").unwrap();
    let ov: Vec<_> = a.related_text(TextSelectionOperator::overlaps()).map(|t| (t.begin(), t.end())).collect();
    println!("PROBE p04b overlaps-from(13,15) -> {:?} (expect (0,21),(12,15),(12,17))", ov);
    let a = store.annotation("neww").unwrap();
    let ov: Vec<_> = a.related_text(TextSelectionOperator::embeds().toggle_negate()).map(|t| (t.begin(), t.end())).collect();
    println!("PROBE p04c not-embeds-from(12,17) -> {:?} (expect (0,21))", ov);
}

#[test]
fn p05_limit() {
    let v: Vec<i32> = (0..10).collect();
    let r: Vec<i32> = v.clone().into_iter().limit(-3, -1).collect();
    println!("PROBE p05 limit(-3,-1) of 0..10 -> {:?} (expect [7,8])", r);
}

#[test]
fn p06_union() {
    let store = base();
    let h = |v: Vec<usize>| -> Handles<Annotation> { Handles::new(Cow::Owned(v.into_iter().map(|x| AnnotationHandle::new(x)).collect()), true, &store) };
    let mut a = h(vec![1,10]);
    let b = h(vec![5,7,10]);
    a.union(&b);
    println!("PROBE p06 union [1,10]+[5,7,10] -> {:?}", a.iter().map(|x| x.as_usize()).collect::<Vec<_>>());
}

#[test]
fn p07_remove_key_then_other_key() {
    let mut store = base();
    store.annotate(AnnotationBuilder::new().with_id("A1").with_target(SelectorBuilder::textselector("r", Offset::simple(0,5))).with_data("s","k1","v1")).unwrap();
    store.annotate(AnnotationBuilder::new().with_id("A2").with_target(SelectorBuilder::textselector("r", Offset::simple(6,11))).with_data("s","k2","v2")).unwrap();
    store.annotate(AnnotationBuilder::new().with_id("A3").with_target(SelectorBuilder::textselector("r", Offset::simple(12,15))).with_data("s","k3","v3")).unwrap();
    let r = catch_unwind(AssertUnwindSafe(|| store.remove_key("s","k1",true)));
    println!("PROBE p07 remove_key panicked={}", r.is_err());
    let k2: Vec<_> = store.key("s","k2").unwrap().data().map(|d| d.value().to_string()).collect();
    let k3: Vec<_> = store.key("s","k3").unwrap().data().map(|d| d.value().to_string()).collect();
    println!("PROBE p07 after remove k1: data(k2)={:?} data(k3)={:?} (expect [v2] [v3])", k2, k3);
}

#[test]
fn p08_remove_data_nonstrict() {
    let mut store = base();
    store.annotate(AnnotationBuilder::new().with_id("A1").with_target(SelectorBuilder::textselector("r", Offset::simple(0,5)))
        .with_data_with_id("s","k1","v1","D1").with_data_with_id("s","k2","v2","D2").with_data_with_id("s2","k1","v1","E1")).unwrap();
    store.remove_data("s","D1",false).unwrap();
    let a = store.annotation("A1");
    println!("PROBE p08 after non-strict remove D1: annotation alive={} data={:?} (expect D2,E1)", a.is_some(), a.map(|a| a.data().map(|d| d.id().unwrap_or("?").to_string()).collect::<Vec<_>>()));
}

#[test]
fn p09_relative_endaligned() {
    let mut store = base();
    store.annotate(AnnotationBuilder::new().with_id("A1").with_target(SelectorBuilder::textselector("r", Offset::simple(6,15))).with_data("s","k","v")).unwrap();
    store.annotate(AnnotationBuilder::new().with_id("A2").with_target(SelectorBuilder::annotationselector("A1", Some(Offset::new(Cursor::EndAligned(-3), Cursor::EndAligned(0))))).with_data("s","k","w")).unwrap();
    let a2 = store.annotation("A2").unwrap();
    println!("PROBE p09 reported offset for EndEnd(-3,-0): {:?} text={:?}", a2.as_ref().target().offset(&store), a2.text_simple());
}

#[test]
fn p10_precedes_all_whitespace() {
    let store = base();
    let res = store.resource("r").unwrap();
    let a = res.textselection(&Offset::simple(0,5)).unwrap();
    let b = res.textselection(&Offset::simple(6,11)).unwrap();
    let bset: ResultTextSelectionSet = {
        let mut t = TextSelectionSet::new(res.handle()); t.add(b.inner().clone()); t.as_resultset(&store) };
    let op = TextSelectionOperator::precedes().toggle_all();
    let r = catch_unwind(AssertUnwindSafe(|| a.test_set(&op, &bset)));
    println!("PROBE p10 precedes(all,ws) (0,5) vs {{(6,11)}}: {:?}", r.map_err(|_| "PANIC"));
    let r = catch_unwind(AssertUnwindSafe(|| a.test_set(&TextSelectionOperator::samerange(), &bset)));
    println!("PROBE p10b samerange test_set: {:?}", r.map_err(|_| "PANIC"));
}

// ---------------------------------------------------------------------------------------------
// Second batch (C06 range-selection suspects), replayed 2026-09-26 on the unchanged tree.
// Observed output:
//   q1 succeeds(ws) from (4,6): []            (test() says (4,6) succeeds (0,2) = true)
//   q2 precedes(ws), gap of 14 spaces: test() = true, related_text = []
//   q3 after(limit 3) from (10,12): [(8,9)]   misses (2,9) although test() = true
//   q3 before(limit 3) from (2,4): [(6,8)]    misses (7,9) although test() = true
//   q4 embeds from (2,8): []                  misses zero-width (8,8)
//   q4 before from (2,8): [(8,8)]             misses zero-width (10,10) at textlen
//   q4 resource.textselections().count() = 3  (4 known selections; the one at textlen is skipped)
fn base2(text: &str, sels: &[(usize,usize)]) -> AnnotationStore {
    let mut store = AnnotationStore::default()
        .with_resource(TextResourceBuilder::new().with_id("r").with_text(text)).unwrap()
        .with_dataset(AnnotationDataSetBuilder::new().with_id("s")).unwrap();
    for (i,(b,e)) in sels.iter().enumerate() {
        store.annotate(AnnotationBuilder::new().with_id(format!("A{}",i)).with_target(SelectorBuilder::textselector("r", Offset::simple(*b,*e))).with_data("s","k",format!("v{}",i))).unwrap();
    }
    store
}
fn rel2(store: &AnnotationStore, from: &str, op: TextSelectionOperator) -> Vec<(usize,usize)> {
    store.annotation(from).unwrap().related_text(op).map(|t| (t.begin(), t.end())).collect()
}
#[test]
fn q1_succeeds_ws() {
    let store = base2("ab  cd      ef", &[(0,2),(4,6),(12,14)]);
    println!("PROBE q1 succeeds(ws) from (4,6): {:?} (expect [(0,2)])", rel2(&store,"A1",TextSelectionOperator::succeeds()));
}
#[test]
fn q2_precedes_long_gap() {
    let store = base2("ab              cd", &[(0,2),(16,18)]);
    println!("PROBE q2 related precedes(ws) from (0,2): {:?}", rel2(&store,"A0",TextSelectionOperator::precedes()));
}
#[test]
fn q3_limits() {
    let store = base2("0123456789abcdef", &[(10,12),(2,9),(8,9)]);
    println!("PROBE q3 after(limit 3) from (10,12): {:?}", rel2(&store,"A0",TextSelectionOperator::after().with_limit(3)));
    let store = base2("0123456789abcdef", &[(2,4),(7,9),(6,8)]);
    println!("PROBE q3 before(limit 3) from (2,4): {:?}", rel2(&store,"A0",TextSelectionOperator::before().with_limit(3)));
}
#[test]
fn q4_zero_width() {
    let store = base2("0123456789", &[(2,8),(10,10),(8,8),(0,10)]);
    println!("PROBE q4 embeds from (2,8): {:?}", rel2(&store,"A0",TextSelectionOperator::embeds()));
    println!("PROBE q4 before from (2,8): {:?}", rel2(&store,"A0",TextSelectionOperator::before()));
    println!("PROBE q4 textselections count={}", store.resource("r").unwrap().textselections().count());
}

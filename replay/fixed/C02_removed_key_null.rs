// replay of the defect repaired by /repo commit 4a3a0e5 (C02): copy to /repo/tests/ and run it with cargo test; it fails on the parent commit.
// After AnnotationStore::remove_key() the store can no longer be serialised to valid STAM JSON:
// the removed key is written as `null` inside the "keys" array of its dataset, and the
// library's own JSON loader rejects that output.
use stam::*;

fn store() -> Result<AnnotationStore, StamError> {
    AnnotationStore::default()
        .with_id("test")
        .with_resource(
            TextResourceBuilder::new()
                .with_id("r1")
                .with_text("Hello world"),
        )?
        .with_dataset(AnnotationDataSetBuilder::new().with_id("s1"))?
        .with_annotation(
            AnnotationBuilder::new()
                .with_id("A1")
                .with_target(SelectorBuilder::textselector("r1", Offset::simple(0, 5)))
                .with_data("s1", "pos", "interjection")
                .with_data("s1", "lang", "en"),
        )?
        .with_annotation(
            AnnotationBuilder::new()
                .with_id("A2")
                .with_target(SelectorBuilder::textselector("r1", Offset::simple(6, 11)))
                .with_data("s1", "lang", "en"),
        )
}

#[test]
fn store_json_after_remove_key_can_be_loaded_again() -> Result<(), StamError> {
    let mut store = store()?;
    // non-strict: A1 only loses its "pos" data and survives, A2 is untouched
    store.remove_key("s1", "pos", false)?;
    assert!(store.annotation("A1").is_some(), "A1 keeps its 'lang' data and must survive");
    assert!(store.annotation("A2").is_some(), "A2 must survive");
    assert!(store.key("s1", "pos").is_none(), "key 'pos' must be gone");

    let json = store.to_json_string(&Config::default())?;
    let reloaded = AnnotationStore::from_json_str(&json, Config::default());
    assert!(
        reloaded.is_ok(),
        "expected: the JSON serialisation of a store after remove_key() can be loaded again; got {:?}",
        reloaded.err()
    );
    let reloaded = reloaded.unwrap();
    assert!(
        !json.contains("null"),
        "expected: the removed key is simply absent from the serialised dataset; got a null entry in:\n{}",
        json
    );
    assert_eq!(reloaded.annotations().count(), 2, "both annotations survive the round trip");
    let a1 = reloaded.annotation("A1").expect("A1 must exist after round trip");
    assert_eq!(a1.data().count(), 1, "A1 has one data item left");
    assert_eq!(a1.data().next().unwrap().key().as_str(), "lang");
    Ok(())
}

#[test]
fn dataset_json_after_remove_key_strict_can_be_loaded_again() -> Result<(), StamError> {
    let mut store = store()?;
    store.remove_key("s1", "pos", true)?;
    assert!(store.annotation("A1").is_none(), "strict: A1 used the key and must be gone");
    assert!(store.annotation("A2").is_some(), "A2 must survive");
    let set_json = store
        .dataset("s1")
        .expect("set must exist")
        .as_ref()
        .to_json_string()?;
    let reloaded = AnnotationDataSet::from_json_str(&set_json, Config::default());
    assert!(
        reloaded.is_ok(),
        "expected: the JSON serialisation of a dataset after remove_key() can be loaded again; got {:?}\n{}",
        reloaded.err(),
        set_json
    );
    Ok(())
}

// K10 (C08): replay of the known finding - copy to /repo/tests/ and run with cargo test; it fails on the current tree.
// A constraint kind that the query engine does not evaluate in a later position makes the whole query return nothing
// (the error is printed to stderr and swallowed), although the same constraint is answered when it is written first.
use stam::*;

fn store() -> AnnotationStore {
    let mut st = AnnotationStore::default();
    st.add_resource(TextResourceBuilder::new().with_id("note").with_text("some text here")).unwrap();
    st.annotate(AnnotationBuilder::new().with_id("a4").with_target(SelectorBuilder::textselector("note", Offset::simple(0, 4))).with_data("set", "genre", "novel")).unwrap();
    st
}

fn count(st: &AnnotationStore, q: &str) -> usize {
    let query: Query = q.try_into().expect("query must parse");
    st.query(query).expect("query must run").count()
}

#[test]
fn id_constraint_in_a_later_position() {
    let st = store();
    assert_eq!(count(&st, "SELECT ANNOTATION ?x WHERE ID a4;"), 1);
    assert_eq!(count(&st, "SELECT ANNOTATION ?x WHERE DATA set genre = novel;"), 1);
    assert_eq!(count(&st, "SELECT ANNOTATION ?x WHERE DATA set genre = novel; ID a4;"), 1, "both constraints hold for a4, the conjunction must return it");
}

#[test]
fn a_constraint_written_twice_is_the_constraint() {
    let st = store();
    assert_eq!(count(&st, "SELECT DATASET ?x WHERE DATASET set;"), 1);
    assert_eq!(count(&st, "SELECT DATASET ?x WHERE DATASET set; DATASET set;"), 1, "the same constraint written twice must select the same dataset");
    assert_eq!(count(&st, "SELECT RESOURCE ?x WHERE RESOURCE note;"), 1);
    assert_eq!(count(&st, "SELECT RESOURCE ?x WHERE RESOURCE note; RESOURCE note;"), 1);
}

// replay of the defect repaired by /repo commit a34ace8 (C06): copy to /repo/tests/ and run it with cargo test; it fails on the parent commit.
// The equality relation with the 'all' modifier (TextSelectionOperator::Equals { all: true, .. })
// never finds anything, although the relation test itself says the known selection equals the reference.
use stam::*;

fn setup() -> AnnotationStore {
    let mut store = AnnotationStore::default()
        .with_id("test")
        .with_resource(
            TextResourceBuilder::new()
                .with_id("r")
                .with_text("aaaa bbbb cccc"),
        )
        .unwrap()
        .with_dataset(AnnotationDataSetBuilder::new().with_id("d"))
        .unwrap();
    for (id, b, e) in [("w1", 0, 4), ("w2", 5, 9), ("w3", 10, 14)] {
        store
            .annotate(
                AnnotationBuilder::new()
                    .with_id(id)
                    .with_target(SelectorBuilder::textselector("r", Offset::simple(b, e)))
                    .with_data("d", "k", "v"),
            )
            .unwrap();
    }
    store
}

#[test]
fn equals_with_all_modifier_returns_the_equal_selection() {
    let store = setup();
    let resource = store.resource("r").unwrap();
    let reference = resource.textselection(&Offset::simple(5, 9)).unwrap();
    assert!(reference.handle().is_some(), "r[5,9] is a known selection");

    let equals = TextSelectionOperator::equals();
    let equals_all = TextSelectionOperator::equals().toggle_all();
    assert_eq!(
        equals_all,
        TextSelectionOperator::Equals {
            all: true,
            negate: false
        }
    );

    // the relation test is true for r[5,9] under both variants ...
    assert!(reference.test(&equals, &reference));
    assert!(reference.test(&equals_all, &reference));

    // ... and the plain variant finds it
    let plain: Vec<_> = reference
        .related_text(equals)
        .map(|t| (t.begin(), t.end()))
        .collect();
    assert_eq!(plain, vec![(5, 9)]);

    // ... but with 'all' nothing is found
    let with_all: Vec<_> = reference
        .related_text(equals_all)
        .map(|t| (t.begin(), t.end()))
        .collect();
    assert_eq!(
        with_all,
        vec![(5, 9)],
        "expected: the equality relation returns the known selection r[5,9] for which the test is true (it is the one relation that also returns the reference itself), with or without the 'all' modifier"
    );
}

#[test]
fn same_through_the_annotation() {
    let store = setup();
    let w2 = store.annotation("w2").unwrap();
    let with_all: Vec<_> = w2
        .related_text(TextSelectionOperator::equals().toggle_all())
        .map(|t| (t.begin(), t.end()))
        .collect();
    assert_eq!(
        with_all,
        vec![(5, 9)],
        "expected: annotation.related_text(Equals{{all:true}}) returns the annotation's own text r[5,9], like Equals{{all:false}} does"
    );
    // and so the annotations on equal text are found
    let n = w2
        .related_text(TextSelectionOperator::equals().toggle_all())
        .annotations()
        .count();
    assert_eq!(n, 1, "expected: the annotation on the equal text is found");
}

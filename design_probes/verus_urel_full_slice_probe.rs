#![allow(unused)]
use vstd::prelude::*;
use std::slice::Iter;
use std::cmp::Ordering;
verus! {

pub assume_specification [isize::abs] (x: isize) -> (r: isize)
    requires x != isize::MIN,
    ensures r == (if x < 0 { -x } else { x as int });

#[verifier::external_body]
pub struct TextResource { _x: usize }

#[verifier::external_body]
pub fn vx_gap_is_whitespace(resource: &TextResource, a: usize, b: usize) -> bool { unimplemented!() }

#[derive(PartialEq, Eq, Debug, Clone, Copy, Hash, PartialOrd, Ord)]
pub struct TextSelectionHandle(pub u32);
#[derive(Clone, Copy, Debug, PartialEq, Eq, PartialOrd, Ord, Hash)]
pub struct TextResourceHandle(pub u32);

#[derive(PartialEq, Eq, Debug, Clone, Copy)]
pub struct TextSelection {
        pub intid: Option<TextSelectionHandle>,
        pub begin: usize,
        pub end: usize,
}

pub struct TextSelectionSet {
    pub data: Vec<TextSelection>,
    pub resource: TextResourceHandle,
    pub sorted: bool,
}
#[derive(Debug, Clone, Copy, PartialEq)]
pub enum TextSelectionOperator {
    Equals { all: bool, negate: bool },
    Overlaps { all: bool, negate: bool },
    Embeds { all: bool, negate: bool },
    Embedded {
        all: bool,
        negate: bool,
        limit: Option<usize>,
    },
    Before {
        all: bool,
        negate: bool,
        limit: Option<usize>,
    },
    After {
        all: bool,
        negate: bool,
        limit: Option<usize>,
    },
    Precedes {
        all: bool,
        negate: bool,
        allow_whitespace: bool,
    },
    Succeeds {
        all: bool,
        negate: bool,
        allow_whitespace: bool,
    },
    SameBegin { all: bool, negate: bool },
    SameEnd { all: bool, negate: bool },
    InSet { all: bool, negate: bool },
    SameRange { all: bool, negate: bool },
}

pub open spec fn negated(op: TextSelectionOperator) -> bool {
    match op {
        TextSelectionOperator::Equals{negate,..} => negate,
        TextSelectionOperator::Overlaps{negate,..} => negate,
        TextSelectionOperator::Embeds{negate,..} => negate,
        TextSelectionOperator::Embedded{negate,..} => negate,
        TextSelectionOperator::Before{negate,..} => negate,
        TextSelectionOperator::After{negate,..} => negate,
        TextSelectionOperator::Precedes{negate,..} => negate,
        TextSelectionOperator::Succeeds{negate,..} => negate,
        TextSelectionOperator::SameBegin{negate,..} => negate,
        TextSelectionOperator::SameEnd{negate,..} => negate,
        TextSelectionOperator::InSet{negate,..} => negate,
        TextSelectionOperator::SameRange{negate,..} => negate,
    }
}
pub open spec fn wf(t: TextSelection) -> bool { t.begin <= t.end && t.end <= isize::MAX as usize }

impl TextSelectionOperator {
    // Is this operator an All variant?
    pub fn all(&self) -> bool {
        match self {
            Self::Equals { all, .. }
            | Self::Overlaps { all, .. }
            | Self::Embeds { all, .. }
            | Self::Embedded { all, .. }
            | Self::Before { all, .. }
            | Self::After { all, .. }
            | Self::Precedes { all, .. }
            | Self::Succeeds { all, .. }
            | Self::SameBegin { all, .. }
            | Self::SameEnd { all, .. }
            | Self::InSet { all, .. }
            | Self::SameRange { all, .. } => *all,
        }
    }

    pub fn as_str(&self) -> &'static str {
        match self {
            Self::Equals { .. } => "EQUALS",
            Self::Overlaps { .. } => "OVERLAPS",
            Self::Embeds { .. } => "EMBEDS",
            Self::Embedded { .. } => "EMBEDDED",
            Self::Before { .. } => "BEFORE",
            Self::After { .. } => "AFTER",
            Self::Precedes { .. } => "PRECEDES",
            Self::Succeeds { .. } => "SUCCEEDS",
            Self::SameBegin { .. } => "SAMEBEGIN",
            Self::SameEnd { .. } => "SAMEEND",
            Self::SameRange { .. } => "SAMERANGE",
            Self::InSet { .. } => "INSET",
        }
    }

    pub fn equals() -> Self {
        Self::Equals {
            all: false,
            negate: false,
        }
    }

    pub fn overlaps() -> Self {
        Self::Overlaps {
            all: false,
            negate: false,
        }
    }

    pub fn embeds() -> Self {
        Self::Embeds {
            all: false,
            negate: false,
        }
    }

    pub fn embedded() -> Self {
        Self::Embedded {
            all: false,
            negate: false,
            limit: None,
        }
    }

    pub fn before() -> Self {
        Self::Before {
            all: false,
            negate: false,
            limit: None,
        }
    }

    pub fn after() -> Self {
        Self::After {
            all: false,
            negate: false,
            limit: None,
        }
    }

    /// This operator allows whitespace between the two text selections
    pub fn precedes() -> Self {
        Self::Precedes {
            all: false,
            negate: false,
            allow_whitespace: true,
        }
    }

    /// This operator does not allow whitespace between the two text selections
    pub fn precedes_exact() -> Self {
        Self::Precedes {
            all: false,
            negate: false,
            allow_whitespace: false,
        }
    }

    /// This operator allows whitespace between the two text selections
    pub fn succeeds() -> Self {
        Self::Succeeds {
            all: false,
            negate: false,
            allow_whitespace: true,
        }
    }

    /// This operator does not allow whitespace between the two text selections
    pub fn succeeds_exact() -> Self {
        Self::Succeeds {
            all: false,
            negate: false,
            allow_whitespace: false,
        }
    }

    pub fn samebegin() -> Self {
        Self::SameBegin {
            all: false,
            negate: false,
        }
    }

    pub fn sameend() -> Self {
        Self::SameEnd {
            all: false,
            negate: false,
        }
    }

    pub fn samerange() -> Self {
        Self::SameRange {
            all: false,
            negate: false,
        }
    }

    pub fn inset() -> Self {
        Self::InSet {
            all: false,
            negate: false,
        }
    }

    /// Constrains the operator to a limit range (in unicode points)
    pub fn with_limit(self, limit: usize) -> Self {
        match self {
            Self::Embedded { all, negate, .. } => Self::Embedded {
                all,
                negate,
                limit: Some(limit),
            },
            Self::Before { all, negate, .. } => Self::Before {
                all,
                negate,
                limit: Some(limit),
            },
            Self::After { all, negate, .. } => Self::After {
                all,
                negate,
                limit: Some(limit),
            },
            _ => self,
        }
    }

    pub fn toggle_negate(&self) -> (r: Self)
        ensures negated(r) == !negated(*self),
    {
        match self {
            Self::Equals { all, negate } => Self::Equals {
                all: *all,
                negate: !negate,
            },
            Self::Overlaps { all, negate } => Self::Overlaps {
                all: *all,
                negate: !negate,
            },
            Self::Embeds { all, negate } => Self::Embeds {
                all: *all,
                negate: !negate,
            },
            Self::Embedded { all, negate, limit } => Self::Embedded {
                all: *all,
                negate: !negate,
                limit: *limit,
            },
            Self::Before { all, negate, limit } => Self::Before {
                all: *all,
                negate: !negate,
                limit: *limit,
            },
            Self::After { all, negate, limit } => Self::After {
                all: *all,
                negate: !negate,
                limit: *limit,
            },
            Self::Precedes {
                all,
                negate,
                allow_whitespace,
            } => Self::Precedes {
                all: *all,
                negate: !negate,
                allow_whitespace: *allow_whitespace,
            },
            Self::Succeeds {
                all,
                negate,
                allow_whitespace,
            } => Self::Succeeds {
                all: *all,
                negate: !negate,
                allow_whitespace: *allow_whitespace,
            },
            Self::SameBegin { all, negate } => Self::SameBegin {
                all: *all,
                negate: !negate,
            },
            Self::SameEnd { all, negate } => Self::SameEnd {
                all: *all,
                negate: !negate,
            },
            Self::InSet { all, negate } => Self::InSet {
                all: *all,
                negate: !negate,
            },
            Self::SameRange { all, negate } => Self::SameRange {
                all: *all,
                negate: !negate,
            },
        }
    }

    pub fn toggle_all(&self) -> Self {
        match self {
            Self::Equals { all, negate } => Self::Equals {
                all: !all,
                negate: *negate,
            },
            Self::Overlaps { all, negate } => Self::Overlaps {
                all: !all,
                negate: *negate,
            },
            Self::Embeds { all, negate } => Self::Embeds {
                all: !all,
                negate: *negate,
            },
            Self::Embedded { all, negate, limit } => Self::Embedded {
                all: !all,
                negate: *negate,
                limit: *limit,
            },
            Self::Before { all, negate, limit } => Self::Before {
                all: !all,
                negate: *negate,
                limit: *limit,
            },
            Self::After { all, negate, limit } => Self::After {
                all: !all,
                negate: *negate,
                limit: *limit,
            },
            Self::Precedes {
                all,
                negate,
                allow_whitespace,
            } => Self::Precedes {
                all: !all,
                negate: *negate,
                allow_whitespace: *allow_whitespace,
            },
            Self::Succeeds {
                all,
                negate,
                allow_whitespace,
            } => Self::Succeeds {
                all: !all,
                negate: *negate,
                allow_whitespace: *allow_whitespace,
            },
            Self::SameBegin { all, negate } => Self::SameBegin {
                all: !all,
                negate: *negate,
            },
            Self::SameEnd { all, negate } => Self::SameEnd {
                all: !all,
                negate: *negate,
            },
            Self::InSet { all, negate } => Self::InSet {
                all: !all,
                negate: *negate,
            },
            Self::SameRange { all, negate } => Self::SameRange {
                all: !all,
                negate: *negate,
            },
        }
    }
}
impl TextSelection {
    pub fn begin(&self) -> (r: usize) ensures r == self.begin { self.begin }
    pub fn end(&self) -> (r: usize) ensures r == self.end { self.end }
}

impl TextSelectionSet {
    pub fn len(&self) -> usize {
        self.data.len()
    }
    pub fn is_empty(&self) -> bool {
        self.data.is_empty()
    }
    pub fn leftmost(&self) -> Option<&TextSelection> {
        if self.is_empty() {
            None
        } else {
            if self.sorted {
                self.data.get(0)
            } else {
                let mut leftmost: Option<&TextSelection> = None;
                for item in self.data.iter() {
                    if leftmost.is_none() || item.begin < leftmost.unwrap().begin {
                        leftmost = Some(item);
                    }
                }
                leftmost
            }
        }
    }

    /// Returns the right-most TextSelection (the one with the highest end offset) in the set.
    pub fn rightmost(&self) -> Option<&TextSelection> {
        if self.is_empty() {
            None
        } else {
            if self.sorted {
                self.data.get(self.data.len() - 1)
            } else {
                let mut rightmost: Option<&TextSelection> = None;
                for item in self.data.iter() {
                    if rightmost.is_none() || item.end > rightmost.unwrap().end {
                        rightmost = Some(item);
                    }
                }
                rightmost
            }
        }
    }
}

impl TextSelectionSet {
    fn test(
        &self,
        operator: &TextSelectionOperator,
        reftextsel: &TextSelection,
        resource: &TextResource,
    ) -> bool
        decreases (if negated(*operator) { 1int } else { 0int }),
    {
        if self.is_empty() {
            return false;
        }
        match operator {
            TextSelectionOperator::Equals {
                all: false,
                negate: false,
            } => {
                //ALL of the items in this set must match with ANY item in the otherset
                for item in self.data.iter() {
                    if !item.test(operator, reftextsel, resource) {
                        return false;
                    }
                }
                true
            }
            TextSelectionOperator::Overlaps {
                all: false,
                negate: false,
            }
            | TextSelectionOperator::Embeds {
                all: false,
                negate: false,
            }
            | TextSelectionOperator::Embedded {
                all: false,
                negate: false,
                ..
            }
            | TextSelectionOperator::Before {
                all: false,
                negate: false,
                ..
            }
            | TextSelectionOperator::After {
                all: false,
                negate: false,
                ..
            }
            | TextSelectionOperator::Precedes {
                all: false,
                negate: false,
                ..
            }
            | TextSelectionOperator::Succeeds {
                all: false,
                negate: false,
                ..
            }
            | TextSelectionOperator::SameBegin {
                all: false,
                negate: false,
            }
            | TextSelectionOperator::SameEnd {
                all: false,
                negate: false,
            }
            | TextSelectionOperator::InSet {
                all: false,
                negate: false,
            } => {
                // ALL of the items in this set must match with ANY item in the otherset
                // This is a weaker form of Equals (could have also been called SameRange)
                for item in self.data.iter() {
                    if !item.test(operator, reftextsel, resource) {
                        return false;
                    }
                }
                true
            }
            TextSelectionOperator::Overlaps {
                all: true,
                negate: false,
            }
            | TextSelectionOperator::Embeds {
                all: true,
                negate: false,
            }
            | TextSelectionOperator::Embedded {
                all: true,
                negate: false,
                ..
            } => {
                //all of the items in this set must match with all item in the otherset (this code isn't different from the previous one, the different code happens in the delegated test() method
                for item in self.data.iter() {
                    if !item.test(operator, reftextsel, resource) {
                        return false;
                    }
                }
                true
            }
            //we can unrwap leftmost/rightmost safely because we tested at the start whether the set was empty or not
            TextSelectionOperator::Precedes {
                all: true,
                negate: false,
                ..
            }
            | TextSelectionOperator::Before {
                all: true,
                negate: false,
                ..
            }
            | TextSelectionOperator::SameEnd {
                all: true,
                negate: false,
            } => self
                .rightmost()
                .unwrap()
                .test(operator, reftextsel, resource),
            TextSelectionOperator::Succeeds {
                all: true,
                negate: false,
                ..
            }
            | TextSelectionOperator::After {
                all: true,
                negate: false,
                ..
            }
            | TextSelectionOperator::SameBegin {
                all: true,
                negate: false,
            } => self
                .leftmost()
                .unwrap()
                .test(operator, reftextsel, resource),
            TextSelectionOperator::SameRange {
                all: true,
                negate: false,
            } => {
                self.leftmost()
                    .unwrap()
                    .test(operator, reftextsel, resource)
                    && self
                        .rightmost()
                        .unwrap()
                        .test(operator, reftextsel, resource)
            }

            //negations
            TextSelectionOperator::Equals { negate: true, .. }
            | TextSelectionOperator::Overlaps { negate: true, .. }
            | TextSelectionOperator::Embeds { negate: true, .. }
            | TextSelectionOperator::Embedded { negate: true, .. }
            | TextSelectionOperator::Before { negate: true, .. }
            | TextSelectionOperator::After { negate: true, .. }
            | TextSelectionOperator::Precedes { negate: true, .. }
            | TextSelectionOperator::Succeeds { negate: true, .. }
            | TextSelectionOperator::SameBegin { negate: true, .. }
            | TextSelectionOperator::SameEnd { negate: true, .. }
            | TextSelectionOperator::InSet { negate: true, .. } => {
                !self.test(&operator.toggle_negate(), reftextsel, resource)
            }
            _ => unreachable!("unknown operator+modifier combination"),
        }
    }

    /// This method is called to test whether a specific spatial relation (as expressed by the passed operator) holds between two [`TextSelectionSet`]s.
    /// A boolean is returned with the test result.
    fn test_set(
        &self,
        operator: &TextSelectionOperator,
        refset: &TextSelectionSet,
        resource: &TextResource,
    ) -> bool
        decreases (if negated(*operator) { 1int } else { 0int }),
    {
        if self.is_empty() {
            return false;
        }
        match operator {
            TextSelectionOperator::Equals {
                all: false,
                negate: false,
            } => {
                if self.len() != refset.len() {
                    //each item must have a counterpart so the sets must be equal length
                    return false;
                }
                //ALL of the items in this set must match with ANY item in the otherset
                for item in self.data.iter() {
                    if !item.test_set(operator, refset, resource) {
                        return false;
                    }
                }
                true
            }
            TextSelectionOperator::Overlaps {
                all: false,
                negate: false,
            }
            | TextSelectionOperator::Embeds {
                all: false,
                negate: false,
            }
            | TextSelectionOperator::Embedded {
                all: false,
                negate: false,
                ..
            }
            | TextSelectionOperator::Before {
                all: false,
                negate: false,
                ..
            }
            | TextSelectionOperator::After {
                all: false,
                negate: false,
                ..
            }
            | TextSelectionOperator::Precedes {
                all: false,
                negate: false,
                ..
            }
            | TextSelectionOperator::Succeeds {
                all: false,
                negate: false,
                ..
            }
            | TextSelectionOperator::SameBegin {
                all: false,
                negate: false,
            }
            | TextSelectionOperator::SameEnd {
                all: false,
                negate: false,
            }
            | TextSelectionOperator::InSet {
                all: false,
                negate: false,
            } => {
                // ALL of the items in this set must match with ANY item in the otherset
                // This is a weaker form of Equals (could have also been called SameRange)
                for item in self.data.iter() {
                    if !item.test_set(operator, refset, resource) {
                        return false;
                    }
                }
                true
            }
            TextSelectionOperator::Overlaps {
                all: true,
                negate: false,
            }
            | TextSelectionOperator::Embeds {
                all: true,
                negate: false,
            }
            | TextSelectionOperator::Embedded {
                all: true,
                negate: false,
                ..
            } => {
                //all of the items in this set must match with all item in the otherset (this code isn't different from the previous one, the different code happens in the delegated test() method
                for item in self.data.iter() {
                    if !item.test_set(operator, refset, resource) {
                        return false;
                    }
                }
                true
            }
            //we can unrwap leftmost/rightmost safely because we tested at the start whether the set was empty or not
            TextSelectionOperator::Precedes {
                all: true,
                negate: false,
                ..
            }
            | TextSelectionOperator::Before {
                all: true,
                negate: false,
                ..
            }
            | TextSelectionOperator::SameEnd {
                all: true,
                negate: false,
            } => self
                .rightmost()
                .unwrap()
                .test_set(operator, refset, resource),
            TextSelectionOperator::Succeeds {
                all: true,
                negate: false,
                ..
            }
            | TextSelectionOperator::After {
                all: true,
                negate: false,
                ..
            }
            | TextSelectionOperator::SameBegin {
                all: true,
                negate: false,
            } => self
                .leftmost()
                .unwrap()
                .test_set(operator, refset, resource),
            TextSelectionOperator::SameRange {
                all: true,
                negate: false,
            } => {
                self.leftmost()
                    .unwrap()
                    .test_set(operator, refset, resource)
                    && self
                        .rightmost()
                        .unwrap()
                        .test_set(operator, refset, resource)
            }

            //negations
            TextSelectionOperator::Equals { negate: true, .. }
            | TextSelectionOperator::Overlaps { negate: true, .. }
            | TextSelectionOperator::Embeds { negate: true, .. }
            | TextSelectionOperator::Embedded { negate: true, .. }
            | TextSelectionOperator::Before { negate: true, .. }
            | TextSelectionOperator::After { negate: true, .. }
            | TextSelectionOperator::Precedes { negate: true, .. }
            | TextSelectionOperator::Succeeds { negate: true, .. }
            | TextSelectionOperator::SameBegin { negate: true, .. }
            | TextSelectionOperator::SameEnd { negate: true, .. }
            | TextSelectionOperator::InSet { negate: true, .. } => {
                !self.test_set(&operator.toggle_negate(), refset, resource)
            }
            _ => unreachable!("unknown operator+modifier combination"),
        }
    }
}

impl TextSelection {
    fn test(
        &self,
        operator: &TextSelectionOperator,
        reftextsel: &TextSelection,
        resource: &TextResource,
    ) -> bool
        decreases (if negated(*operator) { 1int } else { 0int }),
    {
        //note: at this level we deal with two singletons and there is no different between the *All variants
        match operator {
            TextSelectionOperator::Equals { negate: false, .. }
            | TextSelectionOperator::InSet { negate: false, .. } => self == reftextsel,
            TextSelectionOperator::Overlaps { negate: false, .. } => {
                //item must be equal overlap with any of the items in the other set
                (reftextsel.begin >= self.begin && reftextsel.begin < self.end)
                    || (reftextsel.end > self.begin && reftextsel.end <= self.end)
                    || (reftextsel.begin <= self.begin && reftextsel.end >= self.end)
                    || (self.begin <= reftextsel.begin && self.end >= reftextsel.end)
            }
            TextSelectionOperator::Embeds { negate: false, .. } => {
                // TextSelection embeds reftextsel
                reftextsel.begin >= self.begin && reftextsel.end <= self.end
            }
            TextSelectionOperator::Embedded {
                negate: false,
                limit: Some(limit),
                ..
            } => {
                // TextSelection is embedded reftextsel
                self.begin >= reftextsel.begin
                    && self.end <= reftextsel.end
                    && self.begin - reftextsel.begin <= *limit
                    && reftextsel.end - self.end <= *limit
            }
            TextSelectionOperator::Embedded { negate: false, .. } => {
                // TextSelection is embedded reftextsel
                self.begin >= reftextsel.begin && self.end <= reftextsel.end
            }
            TextSelectionOperator::Before {
                negate: false,
                limit: Some(limit),
                ..
            } => self.end <= reftextsel.begin && reftextsel.begin - self.end <= *limit,
            TextSelectionOperator::Before { negate: false, .. } => self.end <= reftextsel.begin,
            TextSelectionOperator::After {
                negate: false,
                limit: Some(limit),
                ..
            } => self.begin >= reftextsel.end && self.begin - reftextsel.end <= *limit,
            TextSelectionOperator::After { negate: false, .. } => self.begin >= reftextsel.end,
            TextSelectionOperator::Precedes {
                negate: false,
                allow_whitespace,
                ..
            } => {
                if !allow_whitespace {
                    self.end == reftextsel.begin
                } else if reftextsel.begin >= self.end {
                    let l = reftextsel.begin - self.end;
                    if l == 0 {
                        true
                    } else {
                        vx_gap_is_whitespace(resource, self.end, reftextsel.begin)
                    }
                } else {
                    false
                }
            }
            TextSelectionOperator::Succeeds {
                negate: false,
                allow_whitespace,
                ..
            } => {
                if !allow_whitespace {
                    reftextsel.end == self.begin
                } else if self.begin >= reftextsel.end {
                    let l = self.begin - reftextsel.end;
                    if l == 0 {
                        true
                    } else {
                        vx_gap_is_whitespace(resource, reftextsel.end, self.begin)
                    }
                } else {
                    false
                }
            }
            TextSelectionOperator::SameBegin { negate: false, .. } => {
                self.begin == reftextsel.begin
            }
            TextSelectionOperator::SameEnd { negate: false, .. } => self.end == reftextsel.end,
            TextSelectionOperator::SameRange { negate: false, .. } => {
                self.begin == reftextsel.begin && self.end == reftextsel.end
            }

            //negations
            TextSelectionOperator::Equals { negate: true, .. }
            | TextSelectionOperator::Overlaps { negate: true, .. }
            | TextSelectionOperator::Embeds { negate: true, .. }
            | TextSelectionOperator::Embedded { negate: true, .. }
            | TextSelectionOperator::Before { negate: true, .. }
            | TextSelectionOperator::After { negate: true, .. }
            | TextSelectionOperator::Precedes { negate: true, .. }
            | TextSelectionOperator::Succeeds { negate: true, .. }
            | TextSelectionOperator::SameBegin { negate: true, .. }
            | TextSelectionOperator::SameEnd { negate: true, .. }
            | TextSelectionOperator::InSet { negate: true, .. } => {
                !self.test(&operator.toggle_negate(), reftextsel, resource)
            }
            _ => unreachable!("unknown operator+modifier combination"),
        }
    }
    /// This method is called to test whether a specific spatial relation (as expressed by the
    /// passed operator) holds between a [`TextSelection`] and another (or multiple)
    /// ([`TextSelectionSet`]). The operator contains the other part of the equation that is tested
    /// against. A boolean is returned with the test result.
    fn test_set(
        &self,
        operator: &TextSelectionOperator,
        refset: &TextSelectionSet,
        resource: &TextResource,
    ) -> bool
        decreases (if negated(*operator) { 1int } else { 0int }),
    {
        match operator {
            TextSelectionOperator::Equals {
                all: false,
                negate: false,
            }
            | TextSelectionOperator::Overlaps {
                all: false,
                negate: false,
            }
            | TextSelectionOperator::Embeds {
                all: false,
                negate: false,
            }
            | TextSelectionOperator::Embedded {
                all: false,
                negate: false,
                ..
            }
            | TextSelectionOperator::Before {
                all: false,
                negate: false,
                ..
            }
            | TextSelectionOperator::After {
                all: false,
                negate: false,
                ..
            }
            | TextSelectionOperator::Precedes {
                all: false,
                negate: false,
                ..
            }
            | TextSelectionOperator::Succeeds {
                all: false,
                negate: false,
                ..
            }
            | TextSelectionOperator::SameBegin {
                all: false,
                negate: false,
            }
            | TextSelectionOperator::SameEnd {
                all: false,
                negate: false,
            }
            | TextSelectionOperator::InSet {
                all: false,
                negate: false,
            } => {
                for reftextsel in refset.data.iter() {
                    if self.test(operator, reftextsel, resource) {
                        return true;
                    }
                }
                false
            }
            TextSelectionOperator::Overlaps {
                all: true,
                negate: false,
            }
            | TextSelectionOperator::Embeds {
                all: true,
                negate: false,
            }
            | TextSelectionOperator::Embedded {
                all: true,
                negate: false,
                ..
            }
            | TextSelectionOperator::Before {
                all: true,
                negate: false,
                ..
            }
            | TextSelectionOperator::After {
                all: true,
                negate: false,
                ..
            } => {
                if refset.is_empty() {
                    return false;
                }
                for reftextsel in refset.data.iter() {
                    if !self.test(operator, reftextsel, resource) {
                        return false;
                    }
                }
                true
            }
            TextSelectionOperator::Precedes {
                all: true,
                negate: false,
                allow_whitespace,
            } => {
                if refset.is_empty() {
                    return false;
                }
                let mut leftmost = None;
                for other in refset.data.iter() {
                    if leftmost.is_none() || other.begin < leftmost.unwrap() {
                        leftmost = Some(other.begin);
                    }
                }
                if !allow_whitespace {
                    Some(self.end) == leftmost
                } else if let Some(leftmost) = leftmost {
                    let l = self.end - leftmost;
                    if l == 0 {
                        true
                    } else {
                        vx_gap_is_whitespace(resource, self.end, leftmost)
                    }
                } else {
                    false
                }
            }
            TextSelectionOperator::Succeeds {
                all: true,
                negate: false,
                allow_whitespace,
            } => {
                if refset.is_empty() {
                    return false;
                }
                let mut rightmost = None;
                for other in refset.data.iter() {
                    if rightmost.is_none() || other.end > rightmost.unwrap() {
                        rightmost = Some(other.end);
                    }
                }
                if !allow_whitespace {
                    Some(self.begin) == rightmost
                } else if let Some(rightmost) = rightmost {
                    let l = rightmost - self.begin;
                    if l == 0 {
                        true
                    } else {
                        vx_gap_is_whitespace(resource, rightmost, self.begin)
                    }
                } else {
                    false
                }
            }
            TextSelectionOperator::SameBegin {
                all: true,
                negate: false,
            } => {
                if refset.is_empty() {
                    return false;
                }
                self.begin == refset.leftmost().unwrap().begin()
            }
            TextSelectionOperator::SameEnd {
                all: true,
                negate: false,
            } => {
                if refset.is_empty() {
                    return false;
                }
                self.end == refset.rightmost().unwrap().end()
            }
            TextSelectionOperator::SameRange {
                all: true,
                negate: false,
            } => {
                if refset.is_empty() {
                    return false;
                }
                self.begin == refset.leftmost().unwrap().begin()
                    && self.end == refset.rightmost().unwrap().end()
            }

            //negations
            TextSelectionOperator::Equals { negate: true, .. }
            | TextSelectionOperator::Overlaps { negate: true, .. }
            | TextSelectionOperator::Embeds { negate: true, .. }
            | TextSelectionOperator::Embedded { negate: true, .. }
            | TextSelectionOperator::Before { negate: true, .. }
            | TextSelectionOperator::After { negate: true, .. }
            | TextSelectionOperator::Precedes { negate: true, .. }
            | TextSelectionOperator::Succeeds { negate: true, .. }
            | TextSelectionOperator::SameBegin { negate: true, .. }
            | TextSelectionOperator::SameEnd { negate: true, .. }
            | TextSelectionOperator::InSet { negate: true, .. } => {
                !self.test_set(&operator.toggle_negate(), refset, resource)
            }
            _ => unreachable!("unknown operator+modifier combination"),
        }
    }
}

} // verus!
fn main() {}

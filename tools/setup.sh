#!/bin/bash
# setup after a fresh restore: nothing to build (pure Python + installed Verus); verify the tools are there
cd "$(dirname "$0")/.."
mkdir -p build evidence replay/out
command -v verus >/dev/null || { echo "verus not on PATH"; exit 1; }
python3 -c "import vx.gen, vx.run, vx.decide" || exit 1
echo "setup ok"

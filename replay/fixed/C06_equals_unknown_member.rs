// replay of the defect repaired by /repo commit 45f12db (C06): copy to /repo/tests/ and run it with cargo test; before the fix the three orders of the
// same reference set give [(0,5)], [] and [(0,5),(6,11)].
use stam::*;
#[test]
fn equals_with_unknown_member() {
    let mut store = AnnotationStore::default()
        .with_resource(TextResourceBuilder::new().with_id("r").with_text("hello world")).unwrap();
    store.annotate(AnnotationBuilder::new().with_id("A1").with_target(SelectorBuilder::textselector("r", Offset::simple(0, 5)))).unwrap();
    store.annotate(AnnotationBuilder::new().with_id("A2").with_target(SelectorBuilder::textselector("r", Offset::simple(6, 11)))).unwrap();
    let res = store.resource("r").unwrap();
    let k1 = res.textselection(&Offset::simple(0, 5)).unwrap();
    let unknown = res.textselection(&Offset::simple(2, 3)).unwrap();
    let k2 = res.textselection(&Offset::simple(6, 11)).unwrap();
    let mut results = vec![];
    for order in [vec![&k1, &unknown, &k2], vec![&unknown, &k1, &k2], vec![&k1, &k2, &unknown]] {
        let mut set = TextSelectionSet::new(res.handle());
        for t in order.iter() { set.add(t.inner().clone()); }
        let rs = set.as_resultset(&store);
        let got: Vec<(usize, usize)> = rs.related_text(TextSelectionOperator::equals()).map(|t| (t.begin(), t.end())).collect();
        results.push(got);
    }
    println!("{:?}", results);
    assert!(results.iter().all(|r| *r == results[0]), "the result depends on the order of the members: {:?}", results);
    let mut set = TextSelectionSet::new(res.handle());
    set.add(k1.inner().clone()); set.add(k2.inner().clone());
    let got: Vec<(usize, usize)> = set.as_resultset(&store).related_text(TextSelectionOperator::equals()).map(|t| (t.begin(), t.end())).collect();
    assert_eq!(got, vec![(0, 5), (6, 11)]);
}

use vstd::prelude::*;
use vstd::std_specs::iter::IteratorSpec;
verus! {
pub fn f<I: Iterator>(it: &mut I) -> (r: Option<I::Item>)
    requires (*old(it)).obeys_prophetic_iter_laws(),
{
    let ghost rem0 = (*it).remaining();
    let r = it.next();
    proof {
        if r is Some {
            assert(rem0.len() > 0);
            assert(rem0[0] == r.unwrap());
            assert((*it).remaining() == rem0.skip(1));
        } else {
            assert(rem0.len() == 0);
        }
        assert((*it).obeys_prophetic_iter_laws());
    }
    r
}
} // verus!
fn main() {}

// replay of the defect repaired by /repo commit 2fce8e7 (C06): copy to /repo/tests/ and run it with cargo test; it fails on the parent commit.
// Equality search from a reference set in which a text selection occurs more than once returns
// that selection more than once. Every other relation returns each found selection once,
// whatever the reference set looks like; the property demands "each once" for every relation.
use stam::*;

fn store() -> AnnotationStore {
    AnnotationStore::default()
        .with_id("t")
        .with_resource(
            TextResourceBuilder::new()
                .with_id("r")
                .with_text("hello world"),
        )
        .unwrap()
        .with_annotation(
            AnnotationBuilder::new()
                .with_id("a1")
                .with_target(SelectorBuilder::textselector("r", Offset::simple(0, 5)))
                .with_data("s", "k", "v"),
        )
        .unwrap()
        .with_annotation(
            //a second annotation on the same text
            AnnotationBuilder::new()
                .with_id("a2")
                .with_target(SelectorBuilder::textselector("r", Offset::simple(0, 5)))
                .with_data("s", "k", "v2"),
        )
        .unwrap()
        .with_annotation(
            AnnotationBuilder::new()
                .with_id("a3")
                .with_target(SelectorBuilder::textselector("r", Offset::simple(6, 11)))
                .with_data("s", "k", "v"),
        )
        .unwrap()
}

#[test]
fn equals_from_set_returns_each_selection_once() {
    let store = store();
    //the text of three annotations, gathered in one reference set: [0,5) [0,5) [6,11)
    let set: ResultTextSelectionSet = store
        .annotations()
        .flat_map(|a| a.textselections())
        .collect();
    assert_eq!(set.len(), 3);
    let found: Vec<(usize, usize)> = set
        .related_text(TextSelectionOperator::equals())
        .map(|ts| (ts.begin(), ts.end()))
        .collect();
    let mut unique = found.clone();
    unique.sort();
    unique.dedup();
    assert_eq!(
        unique,
        vec![(0, 5), (6, 11)],
        "the equal selections are the two distinct members of the set"
    );
    assert_eq!(
        found.len(),
        unique.len(),
        "each text selection must be returned once, got {:?}",
        found
    );
}

#[test]
fn equals_all_from_set_returns_each_selection_once() {
    let store = store();
    let set: ResultTextSelectionSet = store
        .annotations()
        .flat_map(|a| a.textselections())
        .collect();
    let found: Vec<(usize, usize)> = set
        .related_text(TextSelectionOperator::equals().toggle_all())
        .map(|ts| (ts.begin(), ts.end()))
        .collect();
    assert_eq!(
        found.len(),
        2,
        "each text selection must be returned once, got {:?}",
        found
    );
}

/// for comparison: the other relations do return each selection once for the same reference set
#[test]
fn other_relations_return_each_selection_once() {
    let store = store();
    for op in [
        TextSelectionOperator::overlaps().toggle_negate(),
        TextSelectionOperator::samebegin().toggle_negate(),
        TextSelectionOperator::equals().toggle_negate(),
    ] {
        let set: ResultTextSelectionSet = store
            .annotations()
            .flat_map(|a| a.textselections())
            .collect();
        let found: Vec<(usize, usize)> = set
            .related_text(op)
            .map(|ts| (ts.begin(), ts.end()))
            .collect();
        let mut unique = found.clone();
        unique.sort();
        unique.dedup();
        assert_eq!(found.len(), unique.len(), "{:?}: {:?}", op, found);
    }
}

#!/bin/bash
# usage: validate_mutant.sh <worktree> <mutant dir (patch.diff, demo.rs)> <name>
# confirms: patch applies, existing tests pass with it, demo fails with it, demo passes without it
WT=$1; MD=$2; NAME=$3
cd "$WT" || exit 2
git checkout -q -- src
cp "$MD/demo.rs" tests/vx_demo_$NAME.rs
# drop any other demo files so the existing-suite run is the original one
mkdir -p /tmp/mut/_stash_$NAME; for f in tests/demo_*.rs; do [ -e "$f" ] && mv "$f" /tmp/mut/_stash_$NAME/; done
git apply "$MD/patch.diff" || { echo "RESULT $NAME patch-does-not-apply"; exit 1; }
export CARGO_NET_OFFLINE=true
ex=$(cargo test --offline --lib --test api --test lowlevel --no-fail-fast 2>&1 | grep -E "^test result" | tr '\n' ' ')
dm=$(cargo test --offline --test vx_demo_$NAME 2>&1 | grep -E "^test result" | tr '\n' ' ')
git checkout -q -- src
dc=$(cargo test --offline --test vx_demo_$NAME 2>&1 | grep -E "^test result" | tr '\n' ' ')
rm -f tests/vx_demo_$NAME.rs
echo "RESULT $NAME"
echo "  existing-with-mutant: $ex"
echo "  demo-with-mutant:     $dm"
echo "  demo-clean:           $dc"

"""U-sub: the range-compression loop of AnnotationStore::subselectors (src/annotationstore.rs), cut out as a
region on top of U-off: adjacent selectors are merged into an internal ranged selector only when that
loses nothing - expanding the result gives back the input sequence.  Serves C01 (targets are what the
annotation was built with) and C19 (no arithmetic panic for any handle order)."""
from vx.gen import Unit, Fn
from . import common
from . import u_off

P = ['C01', 'C19']
AS = 'src/annotationstore.rs'

SPEC = r'''
/// the selector SelectorIter::get_internal_ranged_item reconstructs for annotation h of a text-carrying range: the annotation
/// with the text selection its own target carries (whole text), in the default offset mode
pub open spec fn whole_sel(store: &AnnotationStore, h: AnnotationHandle) -> Selector {
    match store.ann(h) {
        Some(a) => match target_text(a.target) {
            Some((r, t)) => Selector::AnnotationSelector(h, Some((r, t, OffsetMode::BeginBegin))),
            None => Selector::AnnotationSelector(h, None),
        },
        None => Selector::AnnotationSelector(h, None),
    }
}

/// the selectors an internal ranged selector stands for
pub open spec fn expand(store: &AnnotationStore, sel: Selector) -> Seq<Selector> {
    match sel {
        Selector::RangedTextSelector { resource, begin, end } =>
            Seq::new((end.0 - begin.0 + 1) as nat, |i: int| Selector::TextSelector(resource, TextSelectionHandle((begin.0 + i) as u32), OffsetMode::BeginBegin)),
        Selector::RangedAnnotationSelector { begin, end, with_text: false } =>
            Seq::new((end.0 - begin.0 + 1) as nat, |i: int| Selector::AnnotationSelector(AnnotationHandle((begin.0 + i) as u32), None)),
        Selector::RangedAnnotationSelector { begin, end, with_text: true } =>
            Seq::new((end.0 - begin.0 + 1) as nat, |i: int| whole_sel(store, AnnotationHandle((begin.0 + i) as u32))),
        _ => seq![sel],
    }
}

pub open spec fn flat(store: &AnnotationStore, s: Seq<Selector>) -> Seq<Selector>
    decreases s.len()
{
    if s.len() == 0 { Seq::empty() } else { flat(store, s.drop_last()) + expand(store, s.last()) }
}

/// what a selector denotes: an annotation selector with text denotes the annotation and a range of text of a resource (which
/// text-selection handle of that range, and which offset mode it is reported in, is not part of the target); everything else
/// denotes itself
pub enum Den { AnnText(AnnotationHandle, TextResourceHandle, int, int), Plain(Selector) }

pub open spec fn den(store: &AnnotationStore, sel: Selector) -> Den {
    match sel {
        Selector::AnnotationSelector(a, Some((r, t, _))) => match store.res(r) {
            Some(res) => match res.sel(t) { Some(ts) => Den::AnnText(a, r, ts.begin as int, ts.end as int), None => Den::Plain(sel) },
            None => Den::Plain(sel),
        },
        _ => Den::Plain(sel),
    }
}
pub open spec fn dens(store: &AnnotationStore, s: Seq<Selector>) -> Seq<Den> { Seq::new(s.len(), |i: int| den(store, s[i])) }

/// an annotation selector with text in the input: its handles are live, its text selection lies on the resource of the
/// annotation it points at, and that annotation's own target carries text and is valid (invariants of a consistent store)
pub open spec fn sub_valid(store: &AnnotationStore, sel: Selector) -> bool {
    match sel {
        Selector::AnnotationSelector(a, Some((res, _, _))) => selector_valid(sel, store) && selector_valid(store.ann(a).unwrap().target, store)
            && (match target_text(store.ann(a).unwrap().target) { Some((pres, _)) => pres == res, None => true }),
        _ => true,
    }
}

/// inputs of the merge loop: simple selectors (the loop never sees ranged ones)
pub open spec fn simple_input(store: &AnnotationStore, s: Seq<Selector>) -> bool {
    forall|i: int| 0 <= i < s.len() ==> match #[trigger] s[i] {
        Selector::RangedTextSelector { .. } => false,
        Selector::RangedAnnotationSelector { .. } => false,
        _ => sub_valid(store, s[i]),
    }
}

/// what the loop builds: every ranged selector is a proper ascending range
pub open spec fn ranges_ok(store: &AnnotationStore, s: Seq<Selector>) -> bool {
    forall|i: int| 0 <= i < s.len() ==> match #[trigger] s[i] {
        Selector::RangedTextSelector { begin, end, .. } => begin.0 < end.0,
        Selector::RangedAnnotationSelector { begin, end, .. } => begin.0 < end.0,
        _ => sub_valid(store, s[i]),
    }
}

pub proof fn lemma_flat_push(store: &AnnotationStore, s: Seq<Selector>, x: Selector)
    ensures flat(store, s.push(x)) =~= flat(store, s) + expand(store, x),
{
    assert(s.push(x).drop_last() =~= s);
    assert(s.push(x).last() == x);
}

pub proof fn lemma_flat_update_last(store: &AnnotationStore, s: Seq<Selector>, y: Selector)
    requires s.len() > 0,
    ensures flat(store, s.update(s.len() - 1, y)) =~= flat(store, s.drop_last()) + expand(store, y),
{
    let u = s.update(s.len() - 1, y);
    assert(u.drop_last() =~= s.drop_last());
    assert(u.last() == y);
}

pub proof fn lemma_dens_concat(store: &AnnotationStore, a: Seq<Selector>, b: Seq<Selector>)
    ensures dens(store, a + b) =~= dens(store, a) + dens(store, b),
{}

/// an annotation selector whose offset within the annotation's text is "everything" denotes what the reconstructed selector denotes
pub proof fn lemma_whole(store: &AnnotationStore, sel: Selector, o: Offset)
    requires
        sub_valid(store, sel),
        sel matches Selector::AnnotationSelector(a, Some((res, tsel, _))) && (match target_text(store.ann(a).unwrap().target) {
            Some((pres, ptsel)) => { let parent = store.res(pres).unwrap().sel(ptsel).unwrap(); let t = store.res(res).unwrap().sel(tsel).unwrap();
                                      embeds_sel(parent, t) && resolve_in(o, parent) == (t.begin as int, t.end as int) },
            None => false }),
        o.begin == Cursor::BeginAligned(0), o.end == Cursor::EndAligned(0),
    ensures
        sel matches Selector::AnnotationSelector(a, _) && den(store, whole_sel(store, a)) == den(store, sel),
{}
'''


MERGE_HINT = '''proof {
                let i = vx_it.index@ as int;
                assert(tmp@.take(i + 1) =~= tmp@.take(i).push(vx_sel));
                assert(dens(self, tmp@.take(i + 1)) =~= dens(self, tmp@.take(i)).push(den(self, vx_sel)));
                if vx_skip {
                    let y = results@.last();
                    assert(results@ =~= vx_r0.update(vx_r0.len() - 1, y));
                    lemma_flat_update_last(self, vx_r0, y);
                    assert(flat(self, vx_r0) =~= flat(self, vx_r0.drop_last()) + expand(self, vx_r0.last()));
                    // the substituted range stands for what the last result stood for, followed by what this selector denotes
                    assert(dens(self, expand(self, y)) =~= dens(self, expand(self, vx_r0.last())).push(den(self, vx_sel)));
                    lemma_dens_concat(self, flat(self, vx_r0.drop_last()), expand(self, y));
                    lemma_dens_concat(self, flat(self, vx_r0.drop_last()), expand(self, vx_r0.last()));
                    assert(dens(self, flat(self, results@)) =~= dens(self, flat(self, vx_r0)).push(den(self, vx_sel)));
                } else {
                    assert(results@ =~= vx_r0.push(vx_sel));
                    lemma_flat_push(self, vx_r0, vx_sel);
                    assert(expand(self, vx_sel) =~= seq![vx_sel]);
                    lemma_dens_concat(self, flat(self, vx_r0), seq![vx_sel]);
                    assert(dens(self, seq![vx_sel]) =~= seq![den(self, vx_sel)]);
                    assert(dens(self, flat(self, results@)) =~= dens(self, flat(self, vx_r0)).push(den(self, vx_sel)));
                }
                assert(dens(self, flat(self, results@)) =~= dens(self, tmp@.take(i + 1)));
            }'''


def build():
    u = u_off.build(name='u_sub', selector_variants=('TextSelector', 'AnnotationSelector', 'ResourceSelector', 'RangedTextSelector', 'RangedAnnotationSelector'))
    u.serves = ['C01', 'C19']
    u.spec(SPEC, 'contracts/u_sub.py:SPEC')
    SIG = 'fn subselectors__merge(&self, tmp: Vec<Selector>) -> Result<Vec<Selector>, StamError>'
    u.impl(AS, 'impl AnnotationStore', [
        Fn('subselectors', emit_name='subselectors__merge', props=P, ret='r',
           region=('let mut results = Vec::with_capacity(tmp.len());', r're:Ok\(results\)\s*\}\s*\Z', SIG, '        Ok(results)'),
           # R-continue: Verus has no `continue` in for-loops: `if C { A; continue; } .. S` becomes a skip flag
           rewrites=[('R-forname', r'for selector in tmp \{', 'for selector in vx_it: tmp { let mut vx_skip = false; let ghost vx_sel = selector; let ghost vx_r0 = results@;'),
                     ('R-continue', r'continue; //prevent reaching the push below', 'vx_skip = true;'),
                     ('R-continue', r'results\.push\(selector\);', 'if !vx_skip { results.push(selector); }')],
           after=[('if !vx_skip { results.push(selector); }', MERGE_HINT, None, 'lossless')],
           requires=[('simple', 'simple_input(self, tmp@)')],
           ensures=[('ok', 'r is Ok'),
                    ('lossless', 'r is Ok ==> dens(self, flat(self, r->Ok_0@)) =~= dens(self, tmp@)'),
                    ('proper_ranges', 'r is Ok ==> ranges_ok(self, r->Ok_0@)')],
           loops={r'vx_it: tmp\b': dict(invariant=[
               ('lossless', 'dens(self, flat(self, results@)) =~= dens(self, tmp@.take(vx_it.index@ as int))'),
               ('ranges', 'ranges_ok(self, results@)'),
               ('input', 'simple_input(self, tmp@)'),
           ])}),
    ])
    return u

// Replay of known finding C14 annotate/atomic: a valid (new) target combined with invalid data.
// Drop into /repo/tests/ and run: cargo test --offline --test C14_annotate_atomic -- --nocapture
use stam::*;
#[test]
fn annotate_valid_target_invalid_data_leaves_a_textselection() {
    let mut store = AnnotationStore::default()
        .with_resource(TextResourceBuilder::new().with_id("r").with_text("Hello world"))
        .unwrap();
    let before = store.resource("r").unwrap().textselections().count();
    // the data item names an id that does not exist and gives no key: insert_data() fails
    let result = store.annotate(
        AnnotationBuilder::new()
            .with_target(SelectorBuilder::textselector("r", Offset::simple(0, 5)))
            .with_existing_data("nonexisting-set", "nonexisting-data"),
    );
    assert!(result.is_err());
    let after = store.resource("r").unwrap().textselections().count();
    println!("KNOWN C14 text selections before={} after={}", before, after);
    // the property demands after == before; on the pinned tree a text selection 0..5 and the dataset stay behind
    assert!(after > before || store.dataset("nonexisting-set").is_some(), "finding no longer reproduces");
}

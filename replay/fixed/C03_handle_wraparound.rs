// replay of the defect repaired by /repo commit 29599a0 (C03): copy to /repo/tests/ and run it with cargo test; it fails on the parent commit.
use stam::*;
// A dataset numbers its keys with a 16-bit handle. The 65537th key must either be refused or be found by its own identifier.
#[test]
fn more_keys_than_the_handle_type_can_number() {
    let mut store = AnnotationStore::default().with_dataset(AnnotationDataSetBuilder::new().with_id("d")).unwrap();
    let h = store.dataset("d").unwrap().handle();
    let set: &mut AnnotationDataSet = store.get_mut(h).unwrap();
    let mut last = Ok(DataKeyHandle::new(0));
    for i in 0..65537usize {
        last = set.insert(DataKey::new(format!("k{}", i)));
        if last.is_err() { break; }
    }
    let set = store.dataset("d").unwrap();
    let k = set.key("k65536");
    assert!(
        last.is_err() || k.map(|k| k.as_str().to_string()) == Some("k65536".to_string()),
        "the identifier k65536 must resolve to the key that carries it, or the insertion must have been refused; it resolves to key k0 (the handle wrapped around)"
    );
    // the keys that were accepted are all found by their own identifier
    assert_eq!(set.key("k0").map(|k| k.as_str().to_string()), Some("k0".to_string()));
    assert_eq!(set.key("k65535").map(|k| k.as_str().to_string()), Some("k65535".to_string()));
}

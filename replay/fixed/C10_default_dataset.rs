// replay of the defect repaired by /repo commit 4ff7eff (C10): copy to /repo/tests/ and run it with cargo test; before the fix the second
// annotate() returns Err(BuildError(DuplicateIdError("default-annotationset", ..))).
use stam::*;

#[test]
fn data_without_a_dataset_is_shared_through_the_default_dataset() {
    let mut store = AnnotationStore::default()
        .with_resource(TextResourceBuilder::new().with_id("r").with_text("hello world"))
        .unwrap();
    let r1 = store.annotate(
        AnnotationBuilder::new()
            .with_id("A1")
            .with_target(SelectorBuilder::textselector("r", Offset::simple(0, 5)))
            .with_data_builder(AnnotationDataBuilder::new().with_key("k".into()).with_value("v".into())),
    );
    let r2 = store.annotate(
        AnnotationBuilder::new()
            .with_id("A2")
            .with_target(SelectorBuilder::textselector("r", Offset::simple(6, 11)))
            .with_data_builder(AnnotationDataBuilder::new().with_key("k".into()).with_value("v".into())),
    );
    assert!(r1.is_ok(), "{:?}", r1);
    assert!(r2.is_ok(), "{:?}", r2);
    assert_eq!(store.datasets().count(), 1);
    let set = store.dataset("default-annotationset").unwrap();
    assert_eq!(set.data().count(), 1, "the same (key, value) without an id is one data item");
    assert_eq!(set.data().next().unwrap().annotations().count(), 2, "both annotations refer to it");
}

// replay of the defect repaired by /repo commit a3d2278 (C07): copy to /repo/tests/ and run it with cargo test; it fails on the parent commit.
// trim_text() / trim_text_with() must return a selection whose text equals str::trim_matches() on the
// plain string, also when every character is trimmed away (the result is then the empty text).
use stam::*;

fn store(text: &str) -> AnnotationStore {
    let mut store = AnnotationStore::default();
    store
        .add_resource(TextResourceBuilder::new().with_id("r").with_text(text))
        .unwrap();
    store
}

#[test]
fn trim_whole_resource_of_only_trimmable_characters() {
    let text = "   ";
    let store = store(text);
    let resource = store.resource("r").unwrap();
    assert_eq!(text.trim_matches(&[' '][..]), "");
    let trimmed = resource.trim_text(&[' ']);
    assert!(
        trimmed.is_ok(),
        "expected trim_text(&[' ']) on \"   \" to succeed with an empty selection (like \"   \".trim_matches(' ') == \"\"), got {:?}",
        trimmed.as_ref().map(|t| (t.begin(), t.end()))
    );
    let trimmed = trimmed.unwrap();
    assert_eq!(trimmed.text(), "", "expected the empty text");
    assert!(trimmed.begin() == trimmed.end() && trimmed.end() <= 3);

    let trimmed = resource.trim_text_with(|c| c.is_whitespace());
    assert!(
        trimmed.is_ok(),
        "expected trim_text_with(is_whitespace) on \"   \" to succeed with an empty selection, got {:?}",
        trimmed.as_ref().map(|t| (t.begin(), t.end()))
    );
    assert_eq!(trimmed.unwrap().text(), "");
}

#[test]
fn trim_single_character() {
    let store = store("x");
    let resource = store.resource("r").unwrap();
    let trimmed = resource.trim_text(&['x']);
    assert!(
        trimmed.is_ok(),
        "expected trim_text(&['x']) on \"x\" to succeed with an empty selection, got {:?}",
        trimmed.as_ref().map(|t| (t.begin(), t.end()))
    );
    assert_eq!(trimmed.unwrap().text(), "");
}

#[test]
fn trim_subselection_of_only_trimmable_characters() {
    // pieces produced by split_text are routinely trimmed afterwards
    let text = "é, \u{3000} ,b";
    let store = store(text);
    let resource = store.resource("r").unwrap();
    let pieces: Vec<_> = resource.split_text(",").collect();
    assert_eq!(pieces.len(), 3);
    assert_eq!(pieces[1].text(), " \u{3000} ");
    let trimmed = pieces[1].trim_text_with(|c| c.is_whitespace());
    assert!(
        trimmed.is_ok(),
        "expected trimming the all-whitespace piece at 2..5 to succeed with an empty selection inside 2..5, got {:?}",
        trimmed.as_ref().map(|t| (t.begin(), t.end()))
    );
    let trimmed = trimmed.unwrap();
    assert_eq!(trimmed.text(), pieces[1].text().trim());
    assert!(trimmed.begin() >= 2 && trimmed.end() <= 5 && trimmed.begin() == trimmed.end());
}

use vstd::prelude::*;
use std::collections::HashMap;
verus! {

#[derive(Debug)]
pub enum StamError {
    AlreadyBound(&'static str),
    DuplicateIdError(String, &'static str),
    HandleError(&'static str),
    IdNotFoundError(String, &'static str),
    NoIdError(&'static str),
    Unbound(&'static str),
}

#[verifier::external_body]
pub fn vx_assert(c: bool) requires c { assert!(c) }

#[verifier::external_body]
pub fn vx_msg() -> String { String::new() }

pub struct Config { pub merge: bool, pub generate_ids: bool }

pub trait Configurable: Sized {
    fn config(&self) -> &Config;
}

pub trait Handle: Copy + PartialEq + Sized + core::fmt::Debug {
    spec fn idx(&self) -> usize;
    fn new(intid: usize) -> (r: Self) ensures r.idx() == intid;
    fn as_usize(&self) -> (r: usize) ensures r == self.idx();
}

pub struct IdMap<HandleType> {
    pub data: HashMap<String, HandleType>,
    pub autoprefix: String,
    pub resolve_temp_ids: bool,
}

pub trait Storable: PartialEq + Sized {
    type HandleType: Handle;
    spec fn spec_handle(&self) -> Option<Self::HandleType>;
    spec fn spec_id(&self) -> Option<Seq<char>>;
    fn handle(&self) -> (r: Option<Self::HandleType>) ensures r == self.spec_handle();
    fn id(&self) -> (r: Option<&str>) ensures r.is_some() == self.spec_id().is_some(), r.is_some() ==> r.unwrap()@ == self.spec_id().unwrap();
    fn carries_id() -> bool;
    fn with_handle(self, handle: Self::HandleType) -> (r: Self)
        ensures r.spec_handle() == Some(handle), r.spec_id() == self.spec_id();
    fn generate_id(self, idmap: Option<&mut IdMap<Self::HandleType>>) -> (r: Self);
    fn merge(&mut self, other: Self) -> Result<(), StamError>;
}

pub trait StoreFor<T: Storable>: Configurable {
    fn store(&self) -> &Vec<Option<T>>;
    fn store_mut(&mut self) -> &mut Vec<Option<T>>;
    fn idmap(&self) -> Option<&IdMap<T::HandleType>>;
    fn idmap_mut(&mut self) -> Option<&mut IdMap<T::HandleType>>;
    fn store_typeinfo() -> &'static str;
    fn preinsert(&self, item: &mut T) -> Result<(), StamError>;
    fn inserted(&mut self, handle: T::HandleType) -> Result<(), StamError>;
    fn has_id(&self, id: &str) -> bool;
    fn get_by_id(&self, id: &str) -> Result<&T, StamError>;
    fn get_mut_by_id(&mut self, id: &str) -> Result<&mut T, StamError>;

    fn next_handle(&self) -> T::HandleType {
        T::HandleType::new(self.store().len()) //this is one of the very few places in the code where we create a handle from scratch
    }

    fn insert(&mut self, mut item: T) -> Result<T::HandleType, StamError> {
        let handle = if let Some(intid) = item.handle() {
            intid
        } else {
            // item has no internal id yet, i.e. it is unbound
            // we generate an id and bind it now
            let intid = self.next_handle();

            // Bind an item to the store *PRIOR* to it being actually added:

            //we already pass the internal id this item will get upon the next insert()
            //so it knows its internal id immediate after construction
            if item.handle().is_some() {
                return Err(StamError::AlreadyBound("bind()"));
            } else {
                item = item.with_handle(self.next_handle());
            }
            intid
        };

        if T::carries_id() {
            //insert a mapping from the public ID to the internal numeric ID in the idmap
            if let Some(id) = item.id() {
                //check if public ID does not already exist
                if self.has_id(id) {
                    //ok. the already ID exists, now is the existing item exactly the same as the item we're about to insert?
                    //in that case we can discard this error and just return the existing handle without actually inserting a new one
                    let existing_item = self.get_by_id(id).unwrap();
                    if *existing_item == item {
                        return Ok(existing_item.handle().unwrap());
                    }

                    if self.config().merge {
                        // is the existing item different but we are in merge mode? Then merge
                        // (note that merge is only supported for some Storables)
                        let existing_item = self.get_mut_by_id(id).unwrap();
                        existing_item.merge(item)?;
                        return Ok(existing_item.handle().unwrap());
                    } else {
                        //in all other cases, we return an error
                        return Err(StamError::DuplicateIdError(
                            vx_msg(),
                            Self::store_typeinfo(),
                        ));
                    }
                }

                self.idmap_mut().map(|idmap| {
                    //                 v-- MAYBE TODO: optimise the id copy away
                    idmap.data.insert(id.to_string(), item.handle().unwrap())
                });
            } else if self.config().generate_ids {
                item = item.generate_id(self.idmap_mut());
            }
        }

        self.preinsert(&mut item)?;

        //add the resource
        self.store_mut().push(Some(item));

        self.inserted(handle)?;

        vx_assert(handle == T::HandleType::new(self.store().len() - 1));

        Ok(handle)
    }
}

} // verus!
fn main() {}

"""U-map: the reverse-index primitives of src/store.rs (RelationMap, RelationBTreeMap,
TripleRelationMap, ExclusiveRelationMap).  Serves C01 (index hygiene), C02 (removal), C03 (reindex)."""
from vx.gen import Unit, Fn
from . import common

P = ['C01', 'C02']

SPEC = r'''
// ---------------------------------------------------------------- views (spec only)
pub open spec fn rows<B>(d: Seq<Vec<B>>) -> Seq<Seq<B>> {
    Seq::new(d.len(), |i: int| d[i]@)
}

/// remove the first occurrence of y from s (identity when absent)
pub open spec fn is_remove_first<B>(old: Seq<B>, new: Seq<B>, y: B) -> bool {
    (!old.contains(y) && new == old)
    || (exists|pos: int| 0 <= pos < old.len() && old[pos] == y && (forall|i: int| 0 <= i < pos ==> old[i] != y) && new == old.remove(pos))
}

/// row x of a two level map, empty beyond the end
pub open spec fn row_or_empty<B>(d: Seq<Vec<B>>, x: int) -> Seq<B> {
    if 0 <= x < d.len() { d[x]@ } else { Seq::empty() }
}

impl<A, B> RelationMap<A, B> {
    pub open spec fn view(&self) -> Seq<Seq<B>> { rows(self.data@) }
}
'''

SPEC3 = r'''
impl<A, B, C> TripleRelationMap<A, B, C> {
    /// row (x, y), empty beyond either end
    pub open spec fn cell(&self, x: int, y: int) -> Seq<C> {
        if 0 <= x < self.data@.len() { row_or_empty(self.data@[x].data@, y) } else { Seq::empty() }
    }
}
'''

SPEC_BT = r'''
/// row x of a BTreeMap based relation map, empty when absent
pub open spec fn brow<A, B>(m: Map<A, Vec<B>>, x: A) -> Seq<B> {
    if m.contains_key(x) { m[x]@ } else { Seq::empty() }
}
'''

SPEC_PUSHED = r'''
// ------------------------------------------------------------------ row views of the three index shapes
pub open spec fn rm_row<A, B>(m: RelationMap<A, B>, x: int) -> Seq<B> { row_or_empty(m.data@, x) }
pub open spec fn bt_row<A: Handle, B: Handle>(m: RelationBTreeMap<A, B>, x: A) -> Seq<B> { brow(m.data@, x) }

// ------------------------------------------------------------------ "these entries were appended, in order"
/// the values entered under key x, in order
pub open spec fn proj2<A: Handle, B>(e: Seq<(A, B)>, x: int) -> Seq<B>
    decreases e.len()
{
    if e.len() == 0 { Seq::empty() }
    else if e.last().0.idx() == x { proj2(e.drop_last(), x).push(e.last().1) }
    else { proj2(e.drop_last(), x) }
}
pub open spec fn projk<A, B>(e: Seq<(A, B)>, x: A) -> Seq<B>
    decreases e.len()
{
    if e.len() == 0 { Seq::empty() }
    else if e.last().0 == x { projk(e.drop_last(), x).push(e.last().1) }
    else { projk(e.drop_last(), x) }
}
pub open spec fn proj3<A: Handle, B: Handle, C>(e: Seq<(A, B, C)>, x: int, y: int) -> Seq<C>
    decreases e.len()
{
    if e.len() == 0 { Seq::empty() }
    else if e.last().0.idx() == x && e.last().1.idx() == y { proj3(e.drop_last(), x, y).push(e.last().2) }
    else { proj3(e.drop_last(), x, y) }
}

/// every row of the index is its old content followed by the entries for that row, in order; all other rows unchanged
pub open spec fn rm_pushed<A: Handle, B>(old: RelationMap<A, B>, new: RelationMap<A, B>, e: Seq<(A, B)>) -> bool {
    forall|x: int| #[trigger] rm_row(new, x) == rm_row(old, x) + proj2(e, x)
}
pub open spec fn bt_pushed<A: Handle, B: Handle>(old: RelationBTreeMap<A, B>, new: RelationBTreeMap<A, B>, e: Seq<(A, B)>) -> bool {
    forall|x: A| #[trigger] bt_row(new, x) == bt_row(old, x) + projk(e, x)
}
pub open spec fn tr_pushed<A: Handle, B: Handle, C>(old: TripleRelationMap<A, B, C>, new: TripleRelationMap<A, B, C>, e: Seq<(A, B, C)>) -> bool {
    forall|x: int, y: int| #[trigger] new.cell(x, y) == old.cell(x, y) + proj3(e, x, y)
}

pub proof fn lemma_proj2_step<A: Handle, B>(e: Seq<(A, B)>, i: int, x: int)
    requires 0 <= i < e.len(),
    ensures proj2(e.take(i + 1), x) == (if e[i].0.idx() == x { proj2(e.take(i), x).push(e[i].1) } else { proj2(e.take(i), x) }),
{
    assert(e.take(i + 1).drop_last() =~= e.take(i));
    assert(e.take(i + 1).last() == e[i]);
}
pub proof fn lemma_projk_step<A, B>(e: Seq<(A, B)>, i: int, x: A)
    requires 0 <= i < e.len(),
    ensures projk(e.take(i + 1), x) == (if e[i].0 == x { projk(e.take(i), x).push(e[i].1) } else { projk(e.take(i), x) }),
{
    assert(e.take(i + 1).drop_last() =~= e.take(i));
    assert(e.take(i + 1).last() == e[i]);
}
pub proof fn lemma_proj3_step<A: Handle, B: Handle, C>(e: Seq<(A, B, C)>, i: int, x: int, y: int)
    requires 0 <= i < e.len(),
    ensures proj3(e.take(i + 1), x, y) == (if e[i].0.idx() == x && e[i].1.idx() == y { proj3(e.take(i), x, y).push(e[i].2) } else { proj3(e.take(i), x, y) }),
{
    assert(e.take(i + 1).drop_last() =~= e.take(i));
    assert(e.take(i + 1).last() == e[i]);
}

pub proof fn lemma_proj2_one<A: Handle, B>(x: A, y: B, k: int)
    ensures proj2(seq![(x, y)], k) == (if x.idx() == k { seq![y] } else { Seq::<B>::empty() }),
{
    let e = seq![(x, y)];
    assert(e.drop_last() =~= Seq::<(A, B)>::empty());
    assert(e.last() == (x, y));
    reveal_with_fuel(proj2, 2);
    assert(Seq::<B>::empty().push(y) =~= seq![y]);
}
pub proof fn lemma_projk_one<A, B>(x: A, y: B, k: A)
    ensures projk(seq![(x, y)], k) == (if x == k { seq![y] } else { Seq::<B>::empty() }),
{
    let e = seq![(x, y)];
    assert(e.drop_last() =~= Seq::<(A, B)>::empty());
    assert(e.last() == (x, y));
    reveal_with_fuel(projk, 2);
    assert(Seq::<B>::empty().push(y) =~= seq![y]);
}
pub proof fn lemma_proj3_one<A: Handle, B: Handle, C>(x: A, y: B, z: C, k: int, l: int)
    ensures proj3(seq![(x, y, z)], k, l) == (if x.idx() == k && y.idx() == l { seq![z] } else { Seq::<C>::empty() }),
{
    let e = seq![(x, y, z)];
    assert(e.drop_last() =~= Seq::<(A, B, C)>::empty());
    assert(e.last() == (x, y, z));
    reveal_with_fuel(proj3, 2);
    assert(Seq::<C>::empty().push(z) =~= seq![z]);
}
'''

VX_POSITION = r'''
/// R-outline: stands for `E.iter().position(|z| *z == y)`; the body is that expression.
/// Trusted: `position` returns the first index whose element equals y (std semantics) and
/// `==` on handle types is structural equality.
#[verifier::external_body]
pub fn vx_position<B: PartialEq>(values: &Vec<B>, y: B) -> (r: Option<usize>)
    ensures
        match r {
            Some(pos) => pos < values@.len() && values@[pos as int] == y && forall|i: int| 0 <= i < pos ==> values@[i] != y,
            None => !values@.contains(y),
        },
{
    values.iter().position(|z| *z == y)
}
'''

RM_PUSHED_HINT = '''proof {
            assert forall|k: int| #[trigger] rm_row(*self, k) == rm_row(*old(self), k) + proj2(seq![(x, y)], k) by {
                lemma_proj2_one(x, y, k);
                if k == x.idx() { assert(rm_row(*old(self), k) + seq![y] =~= rm_row(*old(self), k).push(y)); }
                else { assert(rm_row(*old(self), k) + Seq::<B>::empty() =~= rm_row(*old(self), k)); if 0 <= k < self@.len() { assert(self@[k] == row_or_empty(old(self).data@, k)); } }
            }
        }'''
BT_PUSHED_HINT = '''proof {
            assert forall|k: A| #[trigger] bt_row(*self, k) == bt_row(*old(self), k) + projk(seq![(x, y)], k) by {
                lemma_projk_one(x, y, k);
                if k == x { assert(bt_row(*old(self), k) + seq![y] =~= bt_row(*old(self), k).push(y)); }
                else { assert(bt_row(*old(self), k) + Seq::<B>::empty() =~= bt_row(*old(self), k)); if old(self).data@.contains_key(k) { assert(self.data@[k] == old(self).data@[k]); } }
            }
        }'''
TR_PUSHED_HINT = '''proof {
            assert forall|k: int, l: int| #[trigger] self.cell(k, l) == old(self).cell(k, l) + proj3(seq![(x, y, z)], k, l) by {
                lemma_proj3_one(x, y, z, k, l);
                if k == x.idx() && l == y.idx() { assert(old(self).cell(k, l) + seq![z] =~= old(self).cell(k, l).push(z)); }
                else { assert(old(self).cell(k, l) + Seq::<C>::empty() =~= old(self).cell(k, l)); }
            }
        }'''

POSITION_RW = ('R-outline', r'values\.iter\(\)\.position\(\|z\| \*z == y\)', 'vx_position(values, y)')


def emit_relationmap(u, P, with_canary=True, pushed=False):
    """struct RelationMap + insert/remove/remove_all/get/len under contract (needs vx_position, Handle, std specs)"""
    # ------------------------------------------------------------------ RelationMap
    u.item('src/store.rs', 'struct', 'RelationMap', rewrites=[('R-vis', r'\b_marker:', 'pub _marker:')])
    u.spec(SPEC, 'contracts/u_map.py:SPEC')
    if with_canary:
      u.canary('canary_u_map', '''
/// vacuity guard: false by one token (removing the first y from [y, y] does not give the empty sequence); must FAIL
pub proof fn canary_u_map(y: int)
    ensures is_remove_first(seq![y, y], Seq::<int>::empty(), y),
{
}
''')
    u.impl('src/store.rs', 'impl<A, B> Default for RelationMap<A, B>', [
        Fn('default', props=P, ret='r', ensures=[('empty', 'r.data@.len() == 0')]),
    ])
    u.impl('src/store.rs', 'impl<A, B> RelationMap<A, B>', [
        Fn('new', props=P, ret='r', ensures=[('empty', 'r.data@.len() == 0')]),
        Fn('insert', props=P,
           ensures=[
               ('len', 'final(self)@.len() == (if x.idx() >= old(self)@.len() { x.idx() + 1 } else { old(self)@.len() as int })'),
               ('row', 'final(self)@[x.idx() as int] == row_or_empty(old(self).data@, x.idx() as int).push(y)'),
               ('frame', 'forall|k: int| 0 <= k < final(self)@.len() && k != x.idx() ==> #[trigger] final(self)@[k] == row_or_empty(old(self).data@, k)'),
           ] + ([('pushed', 'rm_pushed(*old(self), *final(self), seq![(x, y)])')] if pushed else []),
           prologue='proof { A::hmax_bound(); }',
           before=[('self.data[x.as_usize()].push(y);', 'let ghost mid = self.data@;')],
           after=[('self.data[x.as_usize()].push(y);',
                   'proof { assert forall|k: int| 0 <= k < self@.len() && k != x.idx() implies #[trigger] self@[k] == row_or_empty(old(self).data@, k) by { assert(self.data@[k] == mid[k]); } }')]
                 + ([('self.data[x.as_usize()].push(y);', RM_PUSHED_HINT, None, 'pushed')] if pushed else [])),
        Fn('remove', props=P, rewrites=[POSITION_RW],
           ensures=[
               ('len', 'final(self)@.len() == old(self)@.len()'),
               ('row', 'x.idx() < old(self)@.len() ==> is_remove_first(old(self)@[x.idx() as int], final(self)@[x.idx() as int], y)'),
               ('frame', 'forall|k: int| 0 <= k < old(self)@.len() && k != x.idx() ==> #[trigger] final(self)@[k] == old(self)@[k]'),
           ]),
        Fn('remove_all', props=P,
           ensures=[
               ('len', 'final(self)@.len() == old(self)@.len()'),
               ('clears', 'x.idx() < old(self)@.len() ==> final(self)@[x.idx() as int].len() == 0'),
               ('frame', 'forall|k: int| 0 <= k < old(self)@.len() && k != x.idx() ==> #[trigger] final(self)@[k] == old(self)@[k]'),
           ]),
        Fn('get', props=P, ret='r',
           ensures=[
               ('some_iff', 'r.is_some() <==> x.idx() < self@.len()'),
               ('row', 'r.is_some() ==> r.unwrap()@ == self@[x.idx() as int]'),
           ]),
        Fn('len', props=P, ret='r', ensures=[('len', 'r == self@.len()')]),
    ])



def emit_other_maps(u, P, pushed=False):
    """RelationBTreeMap, TripleRelationMap, ExclusiveRelationMap under contract"""
    # ------------------------------------------------------------------ RelationBTreeMap
    CMP = ('cmp_laws', 'vstd::laws_cmp::obeys_cmp::<A>()')
    u.item('src/store.rs', 'struct', 'RelationBTreeMap')
    u.spec(SPEC_BT, 'contracts/u_map.py:SPEC_BT')
    u.impl('src/store.rs', 'impl<A, B> Default for RelationBTreeMap<A, B>', [
        Fn('default', props=P, ret='r', ensures=[('empty', 'r.data@ == Map::<A, Vec<B>>::empty()')]),
    ])
    u.impl('src/store.rs', 'impl<A, B> RelationBTreeMap<A, B>', [
        Fn('new', props=P, ret='r', ensures=[('empty', 'r.data@ == Map::<A, Vec<B>>::empty()')]),
        Fn('insert', props=P, requires=[CMP],
           ensures=[
               ('row', 'final(self).data@.contains_key(x) && final(self).data@[x]@ == brow(old(self).data@, x).push(y)'),
               ('frame_dom', 'forall|k: A| k != x ==> (final(self).data@.contains_key(k) <==> old(self).data@.contains_key(k))'),
               ('frame', 'forall|k: A| k != x && old(self).data@.contains_key(k) ==> #[trigger] final(self).data@[k] == old(self).data@[k]'),
           ] + ([('pushed', 'bt_pushed(*old(self), *final(self), seq![(x, y)])')] if pushed else []),
           after=([(r're:self\.data\.insert\(x, vec!\[y\]\);\s*\}', BT_PUSHED_HINT, None, 'pushed')] if pushed else [])),
        Fn('remove', props=P, requires=[CMP], rewrites=[POSITION_RW],
           ensures=[
               ('dom', 'final(self).data@.dom() == old(self).data@.dom()'),
               ('row', 'old(self).data@.contains_key(x) ==> is_remove_first(old(self).data@[x]@, final(self).data@[x]@, y)'),
               ('frame', 'forall|k: A| k != x && old(self).data@.contains_key(k) ==> #[trigger] final(self).data@[k] == old(self).data@[k]'),
           ]),
        Fn('remove_all', props=P, requires=[CMP],
           ensures=[('exact', 'final(self).data@ == old(self).data@.remove(x)')]),
        Fn('get', props=P, ret='r', requires=[CMP],
           ensures=[
               ('some_iff', 'r.is_some() <==> self.data@.contains_key(x)'),
               ('row', 'r.is_some() ==> *r.unwrap() == self.data@[x]'),
           ]),
    ])

    # ------------------------------------------------------------------ TripleRelationMap
    u.item('src/store.rs', 'struct', 'TripleRelationMap', rewrites=[('R-vis', r'\b_marker:', 'pub _marker:')])
    u.spec(SPEC3, 'contracts/u_map.py:SPEC3')
    u.impl('src/store.rs', 'impl<A, B, C> Default for TripleRelationMap<A, B, C>', [
        Fn('default', props=P, ret='r', ensures=[('empty', 'r.data@.len() == 0')]),
    ])
    T_INSERT_HINT = '''
        proof {
            let xi = x.idx() as int;
            assert forall|i: int, j: int| (i != xi || j != y.idx()) implies #[trigger] self.cell(i, j) == old(self).cell(i, j) by {
                if i == xi {
                    if 0 <= j < self.data@[i]@.len() { assert(self.data@[i]@[j] == row_or_empty(mid[i].data@, j)); }
                } else if 0 <= i < self.data@.len() {
                    assert(self.data@[i] == mid[i]);
                }
            }
        }'''
    T_INNER_HINT = '''
        proof {
            let xi = x.idx() as int;
            assert forall|j: int| j != y.idx() implies row_or_empty(INNER.data@, j) == #[trigger] old(self).cell(xi, j) by {
                if 0 <= j < INNER@.len() { assert(INNER@[j] == old(self).data@[xi]@[j]); }
            }
        }'''
    T_FRAME_ROWS = 'forall|k: int| 0 <= k < old(self).data@.len() && k != x.idx() ==> #[trigger] final(self).data@[k] == old(self).data@[k]'
    u.impl('src/store.rs', 'impl<A, B, C> TripleRelationMap<A, B, C>', [
        Fn('new', props=P, ret='r', ensures=[('empty', 'r.data@.len() == 0')]),
        Fn('insert', props=P,
           prologue='proof { A::hmax_bound(); }',
           before=[('self.data[x.as_usize()].insert(y, z);', 'let ghost mid = self.data@;')],
           after=[('self.data[x.as_usize()].insert(y, z);', T_INSERT_HINT)] + ([('self.data[x.as_usize()].insert(y, z);', TR_PUSHED_HINT, None, 'pushed')] if pushed else []),
           ensures=[
               ('len', 'final(self).data@.len() == (if x.idx() >= old(self).data@.len() { x.idx() + 1 } else { old(self).data@.len() as int })'),
               ('cell', 'final(self).cell(x.idx() as int, y.idx() as int) == old(self).cell(x.idx() as int, y.idx() as int).push(z)'),
               ('frame_cells', 'forall|i: int, j: int| (i != x.idx() || j != y.idx()) ==> #[trigger] final(self).cell(i, j) == old(self).cell(i, j)'),
               ('frame_rows', T_FRAME_ROWS),
           ] + ([('pushed', 'tr_pushed(*old(self), *final(self), seq![(x, y, z)])')] if pushed else [])),
        Fn('get', props=P, ret='r',
           ensures=[
               ('some_iff', 'r.is_some() <==> (x.idx() < self.data@.len() && y.idx() < self.data@[x.idx() as int].data@.len())'),
               ('cell', 'r.is_some() ==> r.unwrap()@ == self.cell(x.idx() as int, y.idx() as int)'),
           ]),
        Fn('remove', props=P,
           after=[('map.remove(y, z);', T_INNER_HINT.replace('INNER', 'map'))],
           ensures=[
               ('len', 'final(self).data@.len() == old(self).data@.len()'),
               ('cell', 'is_remove_first(old(self).cell(x.idx() as int, y.idx() as int), final(self).cell(x.idx() as int, y.idx() as int), z)'),
               ('frame_cells', 'forall|i: int, j: int| (i != x.idx() || j != y.idx()) ==> #[trigger] final(self).cell(i, j) == old(self).cell(i, j)'),
               ('frame_rows', T_FRAME_ROWS),
           ]),
        Fn('remove_all', props=P,
           ensures=[
               ('len', 'final(self).data@.len() == old(self).data@.len()'),
               ('clears', 'forall|j: int| #[trigger] final(self).cell(x.idx() as int, j).len() == 0'),
               ('frame_rows', T_FRAME_ROWS),
           ]),
        Fn('remove_second', props=P,
           rewrites=[('R-semi', r'v\.remove_all\(y\)', 'v.remove_all(y);')],
           after=[('v.remove_all(y);', T_INNER_HINT.replace('INNER', 'v'))],
           ensures=[
               ('len', 'final(self).data@.len() == old(self).data@.len()'),
               ('clears', 'final(self).cell(x.idx() as int, y.idx() as int).len() == 0'),
               ('frame_cells', 'forall|i: int, j: int| (i != x.idx() || j != y.idx()) ==> #[trigger] final(self).cell(i, j) == old(self).cell(i, j)'),
               ('frame_rows', T_FRAME_ROWS),
           ]),
        Fn('len', props=P, ret='r', ensures=[('len', 'r == self.data@.len()')]),
    ])

    if pushed:
        u.spec(SPEC_PUSHED, 'contracts/u_map.py:SPEC_PUSHED')
    # ------------------------------------------------------------------ ExclusiveRelationMap
    u.item('src/store.rs', 'struct', 'ExclusiveRelationMap', rewrites=[('R-vis', r'\bdata:', 'pub data:')])
    u.impl('src/store.rs', 'impl<A, B> ExclusiveRelationMap<A, B>', [
        Fn('new', props=P, ret='r', ensures=[('empty', 'r.data@ == Map::<A, B>::empty()')]),
        Fn('insert', props=P, requires=[CMP],
           ensures=[('exact', 'final(self).data@ == old(self).data@.insert(x, y)')]),
        Fn('remove_all', props=P, requires=[CMP],
           ensures=[('exact', 'final(self).data@ == old(self).data@.remove(x)')]),
        Fn('get', props=P, ret='r', requires=[CMP],
           ensures=[('exact', 'r == (if self.data@.contains_key(x) { Some(self.data@[x]) } else { None })')]),
    ])


def build():
    u = Unit('u_map', serves=['C01', 'C02', 'C03'])
    u.use('use std::marker::PhantomData;')
    u.use('use std::collections::BTreeMap;')
    common.target64(u)
    common.std_specs(u)
    common.handle_trait(u, P)
    u.trusted_text(VX_POSITION, 'external_body vx_position: std Iterator::position semantics + structural == on handles (R-outline)')

    emit_relationmap(u, P, pushed=True)
    emit_other_maps(u, P, pushed=True)
    return u

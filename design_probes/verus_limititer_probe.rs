use vstd::prelude::*;
use vstd::std_specs::iter::IteratorSpec;
use std::collections::VecDeque;
verus! {

pub assume_specification [isize::abs] (x: isize) -> (r: isize)
    requires x != isize::MIN,
    ensures r == (if x < 0 { -x } else { x as int });

pub struct LimitIter<I>
where
    I: Iterator,
{
    inner: I,
    cursor: isize,
    begin: isize,
    /// end=0 means until the end, negative numbers are relative to the end. End is non-inclusive.
    end: isize,
    emptybuffer: bool,
    buffer: VecDeque<I::Item>,
}

impl<I> LimitIter<I>
where
    I: Iterator,
{
    fn next(&mut self) -> Option<I::Item>
        requires old(self).inner.obeys_prophetic_iter_laws(),
                 old(self).begin != isize::MIN, old(self).end != isize::MIN,
                 0 <= old(self).cursor, old(self).inner.decrease() is Some,
                 old(self).cursor + old(self).inner.remaining().len() < isize::MAX,
    {
        loop
            invariant self.inner.obeys_prophetic_iter_laws(), self.inner.decrease() is Some,
                 self.begin != isize::MIN, self.end != isize::MIN,
                 0 <= self.cursor,
                 self.cursor + self.inner.remaining().len() < isize::MAX,
            decreases (if self.emptybuffer { 0int } else { 1int }), self.inner.decrease().unwrap(),
        {
            if self.emptybuffer {
                return self.buffer.pop_front();
            } else if let Some(item) = self.inner.next() {
                if self.begin >= 0 && self.cursor >= self.begin {
                    if self.end == 0 || self.cursor < self.end {
                        //this is the simple case
                        self.cursor += 1;
                        return Some(item);
                    } else if self.end > 0 && self.cursor >= self.end {
                        self.cursor += 1;
                        return None;
                    }
                    //else fall back to buffer..
                }

                //else, if all absolute/positive constraints (if any) are respected, add to buffer
                if ((self.begin < 0) || (self.begin >= 0 && self.cursor >= self.begin))
                    && ((self.end <= 0) || (self.cursor < self.end))
                {
                    self.buffer.push_back(item);
                    if self.end == 0 && self.begin < 0 {
                        // we only need to keep part of the buffer in this case
                        if self.buffer.len() > self.begin.abs() as usize {
                            let excess = self.buffer.len() - self.begin.abs() as usize;
                            for _ in 0..excess {
                                self.buffer.pop_front();
                            }
                        }
                    }
                }
                self.cursor += 1;
            } else {
                //we reached the end, no item left in inner iterator
                if self.begin >= 0 && self.end >= 0 {
                    //all done
                    return None;
                } else {
                    //now we can empty the buffer (on next iteration of the main loop)
                    self.emptybuffer = true;
                    // but first we prune unneeded items:
                    if self.end < 0 && self.begin < 0 {
                        //discard items from the begin which we do not want
                        for _ in 0..self.begin.abs() {
                            self.buffer.pop_front();
                        }
                    }
                    if self.end < 0 {
                        //discard some items at the end which we do not want
                        for _ in 0..self.end.abs() {
                            self.buffer.pop_back();
                        }
                    }
                }
            }
        }
    }
}
} // verus!
fn main() {}

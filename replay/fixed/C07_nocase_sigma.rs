// replay of the defect repaired by /repo commit 59de0d4 (C07): copy to /repo/tests/ and run it with cargo test; it fails on the parent commit.
// Case-insensitive search misses text that is literally there: the lowercasing it applies
// (str::to_lowercase) is context dependent for the Greek capital sigma.
use stam::*;

fn store_with(text: &str) -> AnnotationStore {
    let mut store = AnnotationStore::default().with_id("test");
    store
        .insert(TextResource::from_string("r", text, Config::default()))
        .unwrap();
    store
}

fn spans<'a>(iter: impl Iterator<Item = ResultTextSelection<'a>>) -> Vec<(usize, usize)> {
    iter.map(|t| (t.begin(), t.end())).collect()
}

#[test]
fn nocase_finds_what_the_exact_search_finds() {
    // "ΑΑΣ": the needle "Σ" occurs literally at 2..3
    let store = store_with("ΑΑΣ");
    let r = store.resource("r").unwrap();
    let exact = spans(r.find_text("Σ"));
    assert_eq!(exact, vec![(2, 3)]);
    let nocase = spans(r.find_text_nocase("Σ"));
    assert_eq!(
        nocase, exact,
        "find_text_nocase(\"Σ\") on \"ΑΑΣ\" must find the occurrence at 2..3 that find_text(\"Σ\") finds"
    );
}

#[test]
fn nocase_needle_is_found_in_the_middle_of_a_word() {
    // "ΑΣΑ" contains the needle "ΑΣ" literally at 0..2
    let store = store_with("ΑΣΑ");
    let r = store.resource("r").unwrap();
    assert_eq!(spans(r.find_text("ΑΣ")), vec![(0, 2)]);
    assert_eq!(
        spans(r.find_text_nocase("ΑΣ")),
        vec![(0, 2)],
        "find_text_nocase(\"ΑΣ\") on \"ΑΣΑ\" must find the literal occurrence at 0..2"
    );
}

#[test]
fn nocase_in_whole_text_agrees_with_nocase_in_sub_selection() {
    // é (2 bytes) in front so that byte and codepoint offsets differ
    let store = store_with("é ΑΣ ΑΣ");
    let r = store.resource("r").unwrap();
    // searching just the one character finds it ...
    let sub = r.textselection(&Offset::simple(3, 4)).unwrap();
    assert_eq!(sub.text(), "Σ");
    assert_eq!(spans(sub.find_text_nocase("σ")), vec![(3, 4)]);
    // ... so a search in the whole text has to report that occurrence (and the second one) too
    assert_eq!(
        spans(r.find_text_nocase("σ")),
        vec![(3, 4), (6, 7)],
        "find_text_nocase(\"σ\") on the whole text must report the Σ at 3..4 and 6..7, as it does when only that character is searched"
    );
}

#[test]
fn sequence_nocase() {
    let store = store_with("ΑΑΣ ΒΒ");
    let r = store.resource("r").unwrap();
    let exact = r
        .find_text_sequence(&["ΑΑΣ", "ΒΒ"], |c| c == ' ', true)
        .map(|v| spans(v.into_iter()));
    assert_eq!(exact, Some(vec![(0, 3), (4, 6)]));
    let exact = r
        .find_text_sequence(&["Σ", "ΒΒ"], |c| c == ' ' || c == 'Α', true)
        .map(|v| spans(v.into_iter()));
    assert_eq!(exact, Some(vec![(2, 3), (4, 6)]));
    let nocase = r
        .find_text_sequence(&["Σ", "ββ"], |c| c == ' ' || c == 'Α', false)
        .map(|v| spans(v.into_iter()));
    assert_eq!(
        nocase,
        Some(vec![(2, 3), (4, 6)]),
        "case-insensitive find_text_sequence must find the sequence the case-sensitive search finds"
    );
}

// replay of the defect repaired by /repo commit d4be59c (C08): copy to /repo/tests/ and run it with cargo test; before the fix it reports mismatches.
use stam::*;
#[test]
fn probe() {
    let store = AnnotationStore::default();
    let h = |v: &[u32]| Handles::<Annotation>::from_iter(v.iter().map(|x| AnnotationHandle::new(*x as usize)), &store);
    let n = 7u32;
    let mut bad = 0;
    for ma in 0..(1u32 << n) { for mb in 0..(1u32 << n) {
        let va: Vec<u32> = (0..n).filter(|i| ma & (1 << i) != 0).collect();
        let vb: Vec<u32> = (0..n).filter(|i| mb & (1 << i) != 0).collect();
        let mut a = h(&va); let b = h(&vb);
        a.intersection(&b);
        let got: Vec<u32> = a.iter().map(|x| x.as_usize() as u32).collect();
        let want: Vec<u32> = va.iter().copied().filter(|x| vb.contains(x)).collect();
        if got != want { if bad < 3 { println!("{:?} ∩ {:?} = {:?} want {:?}", va, vb, got, want); } bad += 1; }
        let mut a = h(&va); a.union(&b);
        let got: Vec<u32> = a.iter().map(|x| x.as_usize() as u32).collect();
        let mut want: Vec<u32> = va.clone(); for x in &vb { if !want.contains(x) { want.push(*x); } } want.sort();
        if got != want { if bad < 6 { println!("{:?} ∪ {:?} = {:?} want {:?}", va, vb, got, want); } bad += 1; }
    }}
    println!("mismatches: {}", bad);
    assert_eq!(bad, 0);
}

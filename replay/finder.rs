// Witness finders: compiled INTO the real stam crate (cfg(test) + --cfg stam_verif) so that private
// functions are reachable.  Each finder enumerates small inputs through the REAL function and evaluates the
// executable form of a contract clause; the first failing input is printed as a line starting with "WITNESS ".
// A finder never decides a check: it only upgrades a reported violation with a concrete failing input.
//
// run:  STAM_VERIF_DIR=/verif RUSTFLAGS="--cfg stam_verif" cargo test --offline --lib verif_hooks::replay::<name> -- --nocapture

use crate::*;
use crate::textselection::*;

/// keys of the recorded known findings of one finder (read from known_findings.txt, never written): lines of the form
/// `known: property=Cxx clause="<finder>: <key>" :: text`
fn known_keys(finder: &str) -> Vec<String> {
    let dir = std::env::var("STAM_VERIF_RUNTIME_DIR").unwrap_or_else(|_| env!("STAM_VERIF_DIR").to_string());
    let text = std::fs::read_to_string(format!("{}/known_findings.txt", dir)).unwrap_or_default();
    let prefix = format!("clause=\"{}: ", finder);
    text.lines().filter(|l| l.starts_with("known:")).filter_map(|l| l.find(prefix.as_str()).map(|i| { let rest = &l[i + prefix.len()..]; rest[..rest.find('"').unwrap_or(rest.len())].to_string() })).collect()
}

fn ts(b: usize, e: usize) -> TextSelection {
    TextSelection { intid: None, begin: b, end: e }
}

fn all_ops() -> Vec<TextSelectionOperator> {
    let mut v = Vec::new();
    for all in [false, true] {
        for negate in [false, true] {
            v.push(TextSelectionOperator::Equals { all, negate });
            v.push(TextSelectionOperator::Overlaps { all, negate });
            v.push(TextSelectionOperator::Embeds { all, negate });
            v.push(TextSelectionOperator::SameBegin { all, negate });
            v.push(TextSelectionOperator::SameEnd { all, negate });
            v.push(TextSelectionOperator::InSet { all, negate });
            v.push(TextSelectionOperator::SameRange { all, negate });
            for limit in [None, Some(0usize), Some(1), Some(2)] {
                v.push(TextSelectionOperator::Embedded { all, negate, limit });
                v.push(TextSelectionOperator::Before { all, negate, limit });
                v.push(TextSelectionOperator::After { all, negate, limit });
            }
            for allow_whitespace in [false, true] {
                v.push(TextSelectionOperator::Precedes { all, negate, allow_whitespace });
                v.push(TextSelectionOperator::Succeeds { all, negate, allow_whitespace });
            }
        }
    }
    v
}

/// the pairwise relation of DESIGN.md appendix A, executable; `gap` = "text between is whitespace"
fn rel_spec(op: &TextSelectionOperator, a: &TextSelection, b: &TextSelection, gap: &dyn Fn(usize, usize) -> bool) -> bool {
    let embeds = |x: &TextSelection, y: &TextSelection| x.begin <= y.begin && y.end <= x.end;
    let (pos, neg) = match op {
        TextSelectionOperator::Equals { negate, .. } | TextSelectionOperator::InSet { negate, .. } => (a == b, *negate),
        TextSelectionOperator::Overlaps { negate, .. } => ((a.begin < b.end && b.begin < a.end) || embeds(a, b) || embeds(b, a), *negate),
        TextSelectionOperator::Embeds { negate, .. } => (embeds(a, b), *negate),
        TextSelectionOperator::Embedded { negate, limit, .. } => (
            embeds(b, a) && limit.map(|k| a.begin - b.begin <= k && b.end - a.end <= k).unwrap_or(true), *negate),
        TextSelectionOperator::Before { negate, limit, .. } => (a.end <= b.begin && limit.map(|k| b.begin - a.end <= k).unwrap_or(true), *negate),
        TextSelectionOperator::After { negate, limit, .. } => (b.end <= a.begin && limit.map(|k| a.begin - b.end <= k).unwrap_or(true), *negate),
        TextSelectionOperator::Precedes { negate, allow_whitespace, .. } => (
            if !allow_whitespace { a.end == b.begin } else { a.end <= b.begin && (a.end == b.begin || (b.begin - a.end <= 10 && gap(a.end, b.begin))) }, *negate),
        TextSelectionOperator::Succeeds { negate, allow_whitespace, .. } => (
            if !allow_whitespace { b.end == a.begin } else { b.end <= a.begin && (b.end == a.begin || (a.begin - b.end <= 10 && gap(b.end, a.begin))) }, *negate),
        TextSelectionOperator::SameBegin { negate, .. } => (a.begin == b.begin, *negate),
        TextSelectionOperator::SameEnd { negate, .. } => (a.end == b.end, *negate),
        TextSelectionOperator::SameRange { negate, .. } => (a.begin == b.begin && a.end == b.end, *negate),
    };
    pos != neg
}

const TEXT: &str = "ab  cd  e";

fn store_with_text() -> AnnotationStore {
    AnnotationStore::default()
        .with_resource(TextResourceBuilder::new().with_id("r").with_text(TEXT))
        .unwrap()
}

/// clause TextSelection::test/equals_spec  (C13)
#[test]
fn find_rel_pair() {
    let store = store_with_text();
    let resource: &TextResource = store.get("r").unwrap();
    let chars: Vec<char> = TEXT.chars().collect();
    let gap = |x: usize, y: usize| chars[x..y].iter().all(|c| c.is_whitespace());
    let n = chars.len();
    for op in all_ops() {
        for ab in 0..=n { for ae in ab..=n { for bb in 0..=n { for be in bb..=n {
            // (whether a selection carries a handle - is known to the resource - makes no difference to any relation: one in three
            // subjects and one in five references carries one)
            let (mut a, mut b) = (ts(ab, ae), ts(bb, be));
            if (ab + ae) % 3 == 0 { a.intid = Some(TextSelectionHandle::new(ab * 16 + ae)); }
            if (bb + be) % 5 == 0 { b.intid = Some(TextSelectionHandle::new(100 + bb * 16 + be)); }
            let got = std::panic::catch_unwind(std::panic::AssertUnwindSafe(|| a.test(&op, &b, resource)));
            let want = rel_spec(&op, &ts(ab, ae), &ts(bb, be), &gap);
            match got {
                Ok(g) if g == want => {}
                Ok(g) => { println!("WITNESS {{\"clause\":\"TextSelection::test/equals_spec\",\"operator\":\"{:?}\",\"a\":[{},{}],\"b\":[{},{}],\"text\":{:?},\"got\":{},\"spec\":{}}}", op, ab, ae, bb, be, TEXT, g, want); return; }
                Err(_) => { println!("WITNESS {{\"clause\":\"TextSelection::test/safety\",\"operator\":\"{:?}\",\"a\":[{},{}],\"b\":[{},{}],\"text\":{:?},\"got\":\"panic\"}}", op, ab, ae, bb, be, TEXT); return; }
            }
        }}}}
    }
    println!("NO-WITNESS find_rel_pair");
}

/// clauses TextSelectionSet::test / test_set and TextSelection::test_set  (C13): the set semantics of DESIGN.md appendix A
/// (`all` / SameRange make a set act as its bounding range; otherwise every subject member against some / every reference member;
/// set Equals additionally needs equal sizes), executable
#[test]
fn find_rel_sets() {
    let store = store_with_text();
    let resource: &TextResource = store.get("r").unwrap();
    let chars: Vec<char> = TEXT.chars().collect();
    let gap = |x: usize, y: usize| chars[x..y].iter().all(|c| c.is_whitespace());
    let negated = |op: &TextSelectionOperator| -> bool { match op {
        TextSelectionOperator::Equals { negate, .. } | TextSelectionOperator::InSet { negate, .. } | TextSelectionOperator::Overlaps { negate, .. } | TextSelectionOperator::Embeds { negate, .. }
        | TextSelectionOperator::Embedded { negate, .. } | TextSelectionOperator::Before { negate, .. } | TextSelectionOperator::After { negate, .. } | TextSelectionOperator::Precedes { negate, .. }
        | TextSelectionOperator::Succeeds { negate, .. } | TextSelectionOperator::SameBegin { negate, .. } | TextSelectionOperator::SameEnd { negate, .. } | TextSelectionOperator::SameRange { negate, .. } => *negate } };
    let is_all = |op: &TextSelectionOperator| -> bool { match op {
        TextSelectionOperator::Equals { all, .. } | TextSelectionOperator::InSet { all, .. } | TextSelectionOperator::Overlaps { all, .. } | TextSelectionOperator::Embeds { all, .. }
        | TextSelectionOperator::Embedded { all, .. } | TextSelectionOperator::Before { all, .. } | TextSelectionOperator::After { all, .. } | TextSelectionOperator::Precedes { all, .. }
        | TextSelectionOperator::Succeeds { all, .. } | TextSelectionOperator::SameBegin { all, .. } | TextSelectionOperator::SameEnd { all, .. } | TextSelectionOperator::SameRange { all, .. } => *all } };
    let rel_pos = |op: &TextSelectionOperator, a: &TextSelection, b: &TextSelection| rel_spec(op, a, b, &gap) != negated(op);
    let bound = |s: &Vec<TextSelection>| ts(s.iter().map(|t| t.begin).min().unwrap(), s.iter().map(|t| t.end).max().unwrap());
    let subject_by_bound = |op: &TextSelectionOperator| match op { TextSelectionOperator::SameRange { .. } => true,
        TextSelectionOperator::Precedes { all, .. } | TextSelectionOperator::Succeeds { all, .. } | TextSelectionOperator::Before { all, .. } | TextSelectionOperator::After { all, .. }
        | TextSelectionOperator::SameBegin { all, .. } | TextSelectionOperator::SameEnd { all, .. } => *all, _ => false };
    let s1_pos = |op: &TextSelectionOperator, a: &TextSelection, bs: &Vec<TextSelection>| -> bool { match op {
        TextSelectionOperator::Equals { .. } | TextSelectionOperator::InSet { .. } => bs.iter().any(|b| a == b),
        TextSelectionOperator::SameRange { .. } | TextSelectionOperator::Precedes { all: true, .. } | TextSelectionOperator::Succeeds { all: true, .. }
        | TextSelectionOperator::SameBegin { all: true, .. } | TextSelectionOperator::SameEnd { all: true, .. } => !bs.is_empty() && rel_pos(op, a, &bound(bs)),
        _ => if is_all(op) { !bs.is_empty() && bs.iter().all(|b| rel_pos(op, a, b)) } else { bs.iter().any(|b| rel_pos(op, a, b)) } } };
    let t1 = |op: &TextSelectionOperator, xs: &Vec<TextSelection>, b: &TextSelection| -> bool {
        !xs.is_empty() && ((if subject_by_bound(op) { rel_pos(op, &bound(xs), b) } else { xs.iter().all(|x| rel_pos(op, x, b)) }) != negated(op)) };
    let s2 = |op: &TextSelectionOperator, xs: &Vec<TextSelection>, bs: &Vec<TextSelection>| -> bool {
        !xs.is_empty() && ((if subject_by_bound(op) { s1_pos(op, &bound(xs), bs) } else {
            (!matches!(op, TextSelectionOperator::Equals { .. }) || xs.len() == bs.len()) && xs.iter().all(|x| s1_pos(op, x, bs)) }) != negated(op)) };
    let ranges = [(0usize, 2usize), (0, 4), (2, 4), (4, 6), (2, 6), (6, 9), (8, 9), (4, 4)];
    // member lists: every single range, every ordered pair of different ranges (both insertion orders), and one triple
    let mut lists: Vec<Vec<TextSelection>> = vec![];
    for (i, a) in ranges.iter().enumerate() { lists.push(vec![ts(a.0, a.1)]); for (j, b) in ranges.iter().enumerate() { if i != j { lists.push(vec![ts(a.0, a.1), ts(b.0, b.1)]); } } }
    lists.push(vec![ts(0, 2), ts(4, 6), ts(8, 9)]);
    let mk = |l: &Vec<TextSelection>, sorted: bool| { let mut s = TextSelectionSet::new(resource.handle().unwrap()); for t in l { s.add(t.clone()); } if sorted { s.sort(); } s };
    for op in all_ops() {
        for xs in &lists { for sorted in [false, true] {
            let subject = mk(xs, sorted);
            for r in ranges.iter() {
                let b = ts(r.0, r.1);
                let got = std::panic::catch_unwind(std::panic::AssertUnwindSafe(|| subject.test(&op, &b, resource)));
                if got.as_ref().ok() != Some(&t1(&op, xs, &b)) { println!("WITNESS {{\"clause\":\"TextSelectionSet::test/equals_spec\",\"operator\":\"{:?}\",\"subject\":\"{:?}\",\"sorted\":{},\"reference\":[{},{}],\"got\":\"{:?}\",\"spec\":{}}}", op, xs.iter().map(|t| (t.begin, t.end)).collect::<Vec<_>>(), sorted, r.0, r.1, got.ok(), t1(&op, xs, &b)); return; }
            }
            for bs in lists.iter().chain(std::iter::once(&vec![])) {
                // (reference sets in insertion order and sorted)
                for rsorted in [false, true] {
                    let refset = mk(bs, rsorted);
                    let got = std::panic::catch_unwind(std::panic::AssertUnwindSafe(|| subject.test_set(&op, &refset, resource)));
                    if got.as_ref().ok() != Some(&s2(&op, xs, bs)) { println!("WITNESS {{\"clause\":\"TextSelectionSet::test_set/equals_spec\",\"operator\":\"{:?}\",\"subject\":\"{:?}\",\"sorted\":{},\"reference\":\"{:?}\",\"reference_sorted\":{},\"got\":\"{:?}\",\"spec\":{}}}", op, xs.iter().map(|t| (t.begin, t.end)).collect::<Vec<_>>(), sorted, bs.iter().map(|t| (t.begin, t.end)).collect::<Vec<_>>(), rsorted, got.ok(), s2(&op, xs, bs)); return; }
                    if xs.len() == 1 && !sorted {
                        let a = xs[0].clone();
                        let want = s1_pos(&op, &a, bs) != negated(&op);
                        let got = std::panic::catch_unwind(std::panic::AssertUnwindSafe(|| a.test_set(&op, &refset, resource)));
                        if got.as_ref().ok() != Some(&want) { println!("WITNESS {{\"clause\":\"TextSelection::test_set/equals_spec\",\"operator\":\"{:?}\",\"subject\":[{},{}],\"reference\":\"{:?}\",\"reference_sorted\":{},\"got\":\"{:?}\",\"spec\":{}}}", op, a.begin, a.end, bs.iter().map(|t| (t.begin, t.end)).collect::<Vec<_>>(), rsorted, got.ok(), want); return; }
                    }
                }
            }
        }}
    }
    // ---- the laws the property itself states for sets (not taken from the code): converse pairs, symmetry, what equality
    //      implies, negation as complement, and singleton sets behaving as their single member (unmodified operators)
    let known = known_keys("find_rel_sets");
    let plain = |name: &str, negate: bool| -> TextSelectionOperator { match name {
        "EQUALS" => TextSelectionOperator::Equals { all: false, negate }, "OVERLAPS" => TextSelectionOperator::Overlaps { all: false, negate },
        "EMBEDS" => TextSelectionOperator::Embeds { all: false, negate }, "EMBEDDED" => TextSelectionOperator::Embedded { all: false, negate, limit: None },
        "BEFORE" => TextSelectionOperator::Before { all: false, negate, limit: None }, "AFTER" => TextSelectionOperator::After { all: false, negate, limit: None },
        "PRECEDES" => TextSelectionOperator::Precedes { all: false, negate, allow_whitespace: false }, "SUCCEEDS" => TextSelectionOperator::Succeeds { all: false, negate, allow_whitespace: false },
        "SAMEBEGIN" => TextSelectionOperator::SameBegin { all: false, negate }, _ => TextSelectionOperator::SameEnd { all: false, negate } } };
    let show = |l: &Vec<TextSelection>| format!("{:?}", l.iter().map(|t| (t.begin, t.end)).collect::<Vec<_>>());
    let names = ["EQUALS", "OVERLAPS", "EMBEDS", "EMBEDDED", "BEFORE", "AFTER", "PRECEDES", "SUCCEEDS", "SAMEBEGIN", "SAMEEND"];
    let mut problems: Vec<(String, String)> = vec![];
    let mut add = |key: String, what: String| { if !problems.iter().any(|(k, _)| *k == key) { problems.push((key, what)); } };
    for xs in &lists { for bs in &lists {
        let (x, b) = (mk(xs, false), mk(bs, false));
        let t = |n: &str, neg: bool, p: &TextSelectionSet, q: &TextSelectionSet| p.test_set(&plain(n, neg), q, resource);
        for (o, c) in [("EMBEDS", "EMBEDDED"), ("BEFORE", "AFTER"), ("PRECEDES", "SUCCEEDS")] {
            if t(o, false, &x, &b) != t(c, false, &b, &x) { add(format!("on sets {} is not the converse of {}", o, c), format!("A={} B={}: A {} B is {}, B {} A is {}", show(xs), show(bs), o, t(o, false, &x, &b), c, t(c, false, &b, &x))); }
        }
        for o in ["EQUALS", "OVERLAPS"] {
            if t(o, false, &x, &b) != t(o, false, &b, &x) { add(format!("on sets {} is not symmetric", o), format!("A={} B={}: A {} B is {}, B {} A is {}", show(xs), show(bs), o, t(o, false, &x, &b), o, t(o, false, &b, &x))); }
        }
        if t("EQUALS", false, &x, &b) { for o in ["EMBEDS", "EMBEDDED", "SAMEBEGIN", "SAMEEND"] {
            if !t(o, false, &x, &b) { add(format!("on sets EQUALS does not imply {}", o), format!("A={} B={}: A EQUALS B but not A {} B", show(xs), show(bs), o)); }
        }}
        for o in names {
            if t(o, true, &x, &b) == t(o, false, &x, &b) { add(format!("on sets NOT {} is not the complement of {}", o, o), format!("A={} B={}: both are {}", show(xs), show(bs), t(o, false, &x, &b))); }
            if xs.len() == 1 {
                let single = xs[0].test_set(&plain(o, false), &b, resource);
                if single != t(o, false, &x, &b) { add(format!("a single selection and its singleton set disagree under {} against a set", o), format!("a={} B={}: a {} B is {}, {{a}} {} B is {}", show(xs), show(bs), o, single, o, t(o, false, &x, &b))); }
                if bs.len() == 1 && t(o, false, &x, &b) != xs[0].test(&plain(o, false), &bs[0], resource) { add(format!("singleton sets disagree with their members under {}", o), format!("a={} b={}", show(xs), show(bs))); }
            }
            if bs.len() == 1 {
                let single = x.test(&plain(o, false), &bs[0], resource);
                if single != t(o, false, &x, &b) { add(format!("a set against a single selection and against its singleton set disagree under {}", o), format!("A={} b={}: A {} b is {}, A {} {{b}} is {}", show(xs), show(bs), o, single, o, t(o, false, &x, &b))); }
            }
        }
    }}
    // an empty subject set, and a subject that names a range twice
    {
        let empty = mk(&vec![], false);
        let b = mk(&lists[0], false);
        for o in names {
            if empty.test_set(&plain(o, true), &b, resource) == empty.test_set(&plain(o, false), &b, resource) { add("for an empty set a relation and its negation have the same answer".to_string(), format!("{{}} {} {} and {{}} NOT {} {} are both {}", o, show(&lists[0]), o, show(&lists[0]), empty.test_set(&plain(o, false), &b, resource))); }
        }
        let twice = mk(&vec![lists[0][0].clone(), lists[0][0].clone()], false);
        let once = mk(&lists[0], false);
        if !twice.test_set(&plain("EQUALS", false), &once, resource) || !once.test_set(&plain("EQUALS", false), &twice, resource) { add("on sets EQUALS counts entries: a set that names a range twice does not equal the set that names it once".to_string(), format!("{{x, x}} EQUALS {{x}} is {}, {{x}} EQUALS {{x, x}} is {} for x = {}", twice.test_set(&plain("EQUALS", false), &once, resource), once.test_set(&plain("EQUALS", false), &twice, resource), show(&lists[0]))); }
    }
    if std::env::var("VX_LIST_PROBLEMS").is_ok() { for (k, w) in &problems { println!("PROBLEM {} :: {}", k, w); } }
    for (key, what) in problems {
        if known.contains(&key) { println!("KNOWN {}", key); } else { println!("WITNESS {{\"clause\":\"laws of the relation tests on sets\",\"problem\":{:?},\"observed\":{:?}}}", key, what); return; }
    }
    println!("NO-WITNESS find_rel_sets");
}

/// clause TextResource::textselection_by_offset/accept_iff  (C04)
#[test]
fn find_offset_accept() {
    let store = store_with_text();
    let resource: &TextResource = store.get("r").unwrap();
    let len = TEXT.chars().count() as isize;
    let cursors = |v: isize| -> Vec<Cursor> { let mut c = vec![Cursor::EndAligned(v)]; if v >= 0 { c.push(Cursor::BeginAligned(v as usize)); } c };
    let abs = |c: &Cursor| -> Option<isize> { match c { Cursor::BeginAligned(x) => Some(*x as isize), Cursor::EndAligned(x) => if *x <= 0 && -*x <= len { Some(len + *x) } else { None } } };
    for bv in -(len + 2)..=(len + 2) { for ev in -(len + 2)..=(len + 2) {
        for bc in cursors(bv) { for ec in cursors(ev) {
            let off = Offset::new(bc, ec);
            let want = match (abs(&bc), abs(&ec)) { (Some(b), Some(e)) => 0 <= b && b <= e && e <= len, _ => false };
            let got = std::panic::catch_unwind(std::panic::AssertUnwindSafe(|| resource.textselection_by_offset(&off)));
            let bad = match &got { Ok(Ok(t)) => !want || Some(t.begin() as isize) != abs(&bc) || Some(t.end() as isize) != abs(&ec), Ok(Err(_)) => want, Err(_) => true };
            if bad {
                println!("WITNESS {{\"clause\":\"TextResource::textselection_by_offset/accept_iff\",\"offset\":\"{:?}\",\"textlen\":{},\"accepted\":{},\"should_accept\":{}}}", off, len, matches!(got, Ok(Ok(_))), want);
                return;
            }
        }}
    }}
    println!("NO-WITNESS find_offset_accept");
}

/// clause LimitIter::next/{yields_head,advances}  (C08): LIMIT is a slice
#[test]
fn find_limit_slice() {
    for n in 0..=6isize {
        let items: Vec<isize> = (0..n).collect();
        for b in -(n + 2)..=(n + 2) { for e in -(n + 2)..=(n + 2) {
            let lo = if b >= 0 { b } else { n + b }.clamp(0, n);
            let hi = if e == 0 { n } else if e > 0 { e } else { n + e }.clamp(0, n);
            let want: Vec<isize> = if lo < hi { items[lo as usize..hi as usize].to_vec() } else { vec![] };
            let got = std::panic::catch_unwind(|| (0..n).limit(b, e).collect::<Vec<isize>>());
            if got.as_ref().ok() != Some(&want) {
                println!("WITNESS {{\"clause\":\"LimitIter::next/yields_head\",\"items\":{},\"begin\":{},\"end\":{},\"got\":\"{:?}\",\"slice\":\"{:?}\"}}", n, b, e, got.ok(), want);
                return;
            }
        }}
    }
    println!("NO-WITNESS find_limit_slice");
}

/// clauses init_textseliters/{cover,once} + walk  (C06): the search returns exactly the selections for which test() holds
#[test]
fn find_related_text() {
    let mut store = store_with_text();
    let n = TEXT.chars().count();
    let mut known: Vec<(usize, usize)> = Vec::new();
    for b in 0..=n { for e in b..=n { if (b * 7 + e * 3) % 4 != 1 { known.push((b, e)); } } }
    for (i, (b, e)) in known.iter().enumerate() {
        store.annotate(AnnotationBuilder::new().with_id(format!("A{}", i)).with_target(SelectorBuilder::textselector("r", Offset::simple(*b, *e)))).unwrap();
    }
    let resource = store.resource("r").unwrap();
    for (rb, re) in known.iter() {
        let reference = resource.textselection(&Offset::simple(*rb, *re)).unwrap();
        for op in all_ops() {
            if let TextSelectionOperator::Equals { negate: false, .. } = op { continue; }
            let mut got: Vec<(usize, usize)> = match std::panic::catch_unwind(std::panic::AssertUnwindSafe(|| reference.related_text(op).map(|t| (t.begin(), t.end())).collect::<Vec<_>>())) {
                Ok(v) => v,
                Err(_) => { println!("WITNESS {{\"clause\":\"FindTextSelectionsIter/safety\",\"operator\":\"{:?}\",\"reference\":[{},{}],\"got\":\"panic\"}}", op, rb, re); return; }
            };
            let mut want: Vec<(usize, usize)> = known.iter().filter(|(b, e)| (b, e) != (rb, re))
                .filter(|(b, e)| { let cand = resource.textselection(&Offset::simple(*b, *e)).unwrap(); reference.test(&op, &cand) }).cloned().collect();
            got.sort(); want.sort();
            if got != want {
                println!("WITNESS {{\"clause\":\"init_textseliters/cover\",\"operator\":\"{:?}\",\"text\":{:?},\"reference\":[{},{}],\"search_returns\":\"{:?}\",\"test_holds_for\":\"{:?}\"}}", op, TEXT, rb, re, got, want);
                return;
            }
        }
    }
    // from a set of two known selections: exactly the other known selections for which the set-level test holds, each once
    {
        let resource_ref: &TextResource = store.get("r").unwrap();
        let picks: Vec<(usize, usize)> = known.iter().step_by(5).take(7).cloned().collect();
        for i in 0..picks.len() { for j in 0..picks.len() {
            if i == j { continue; }
            let members = [picks[i], picks[j]];
            let mut set = TextSelectionSet::new(resource.handle());
            for (b, e) in members.iter() { set.add(resource.textselection(&Offset::simple(*b, *e)).unwrap().inner().clone()); }
            for op in all_ops() {
                if let TextSelectionOperator::Equals { negate: false, .. } = op { continue; }
                let got: Vec<(usize, usize)> = match std::panic::catch_unwind(std::panic::AssertUnwindSafe(|| set.clone().as_resultset(&store).related_text(op).map(|t| (t.begin(), t.end())).collect::<Vec<_>>())) {
                    Ok(v) => v,
                    Err(_) => { println!("WITNESS {{\"clause\":\"FindTextSelectionsIter/safety\",\"operator\":\"{:?}\",\"reference_set\":\"{:?}\",\"got\":\"panic\"}}", op, members); return; }
                };
                let mut want: Vec<(usize, usize)> = known.iter().filter(|m| !members.contains(m))
                    .filter(|(b, e)| { let cand = resource.textselection(&Offset::simple(*b, *e)).unwrap(); set.test(&op, cand.inner(), resource_ref) }).cloned().collect();
                let mut sorted = got.clone(); sorted.sort(); want.sort();
                if sorted != want {
                    println!("WITNESS {{\"clause\":\"init_textseliters/once\",\"operator\":\"{:?}\",\"text\":{:?},\"reference_set\":\"{:?}\",\"search_returns\":\"{:?}\",\"test_holds_for\":\"{:?}\"}}", op, TEXT, members, got, want);
                    return;
                }
            }
        }}
    }
    // the equality relation: from a known selection it returns that selection itself; from a set all its members when every member
    // is known, and nothing otherwise - whatever the order of the members (the shortcut that does not walk the index)
    let unknown: Vec<(usize, usize)> = { let mut v = vec![]; for b in 0..=n { for e in b..=n { if !known.contains(&(b, e)) { v.push((b, e)); } } } v };
    for eq in [TextSelectionOperator::Equals { all: false, negate: false }, TextSelectionOperator::Equals { all: true, negate: false }] {
    for (b, e) in known.iter().chain(unknown.iter()) {
        let reference = resource.textselection(&Offset::simple(*b, *e)).unwrap();
        let got: Vec<(usize, usize)> = reference.related_text(eq).map(|t| (t.begin(), t.end())).collect();
        let want: Vec<(usize, usize)> = if known.contains(&(*b, *e)) { vec![(*b, *e)] } else { vec![] };
        if got != want { println!("WITNESS {{\"clause\":\"next_textselection/equals\",\"operator\":\"{:?}\",\"reference\":[{},{}],\"search_returns\":\"{:?}\",\"want\":\"{:?}\"}}", eq, b, e, got, want); return; }
    }
    let pool: Vec<(usize, usize)> = known.iter().step_by(7).take(4).cloned().chain(unknown.iter().take(2).cloned()).collect();
    for i in 0..pool.len() { for j in 0..pool.len() { for k in 0..pool.len() {
        if i == j || j == k || i == k { continue; }
        let members = [pool[i], pool[j], pool[k]];
        let mut set = TextSelectionSet::new(resource.handle());
        for (b, e) in members.iter() { set.add(resource.textselection(&Offset::simple(*b, *e)).unwrap().inner().clone()); }
        let mut got: Vec<(usize, usize)> = set.as_resultset(&store).related_text(eq).map(|t| (t.begin(), t.end())).collect();
        let mut want: Vec<(usize, usize)> = if members.iter().all(|m| known.contains(m)) { members.to_vec() } else { vec![] };
        got.sort(); want.sort();
        if got != want { println!("WITNESS {{\"clause\":\"next_textselection/equals\",\"operator\":\"{:?}\",\"reference_set\":\"{:?}\",\"search_returns\":\"{:?}\",\"want\":\"{:?}\"}}", eq, members, got, want); return; }
    }}}
    // a reference set that names a range more than once gets it back once (sets are not deduplicated unless sorted); an empty reference
    // set relates to nothing, whatever the operator
    {
        let kn: Vec<(usize, usize)> = known.iter().step_by(9).take(3).cloned().collect();
        for members in [vec![kn[0], kn[0]], vec![kn[0], kn[1], kn[0]], vec![kn[1], kn[0], kn[0], kn[2], kn[2]]] {
            let mut set = TextSelectionSet::new(resource.handle());
            for (b, e) in members.iter() { set.add(resource.textselection(&Offset::simple(*b, *e)).unwrap().inner().clone()); }
            let mut got: Vec<(usize, usize)> = set.as_resultset(&store).related_text(eq).map(|t| (t.begin(), t.end())).collect();
            let mut want: Vec<(usize, usize)> = members.clone(); want.sort(); want.dedup(); got.sort();
            if got != want { println!("WITNESS {{\"clause\":\"next_textselection/equals\",\"operator\":\"{:?}\",\"reference_set\":\"{:?}\",\"search_returns\":\"{:?}\",\"want\":\"{:?} (each once)\"}}", eq, members, got, want); return; }
        }
        for op in all_ops() {
            let empty = TextSelectionSet::new(resource.handle());
            match std::panic::catch_unwind(std::panic::AssertUnwindSafe(|| empty.as_resultset(&store).related_text(op).count())) {
                Ok(0) => {}
                other => { println!("WITNESS {{\"clause\":\"FindTextSelectionsIter/safety\",\"operator\":\"{:?}\",\"reference_set\":\"[]\",\"got\":\"{}\",\"want\":\"nothing\"}}", op, match other { Ok(n) => format!("{} selections", n), Err(_) => "panic".to_string() }); return; }
            }
        }
    }
    // the same from a store whose selections were created in every order (the lookup walks a list in creation order)
    let trio = [(2usize, 9usize), (2, 5), (2, 7)];
    for perm in [[0usize, 1, 2], [0, 2, 1], [1, 0, 2], [1, 2, 0], [2, 0, 1], [2, 1, 0]] {
        let mut store2 = store_with_text();
        for i in perm { store2.annotate(AnnotationBuilder::new().with_target(SelectorBuilder::textselector("r", Offset::simple(trio[i].0, trio[i].1)))).unwrap(); }
        let resource2 = store2.resource("r").unwrap();
        for (b, e) in trio.iter().chain([(2usize, 6usize), (2, 8)].iter()) {
            let got: Vec<(usize, usize)> = resource2.textselection(&Offset::simple(*b, *e)).unwrap().related_text(eq).map(|t| (t.begin(), t.end())).collect();
            let want: Vec<(usize, usize)> = if trio.contains(&(*b, *e)) { vec![(*b, *e)] } else { vec![] };
            if got != want { println!("WITNESS {{\"clause\":\"known_textselection\",\"created_in_order\":\"{:?}\",\"reference\":[{},{}],\"search_returns\":\"{:?}\",\"want\":\"{:?}\"}}", perm.iter().map(|i| trio[*i]).collect::<Vec<_>>(), b, e, got, want); return; }
        }
    }
    }
    println!("NO-WITNESS find_related_text");
}

/// clauses Handles::{union, intersection, add, contains}  (C08): set semantics of the handle collections, every pair of
/// duplicate-free sequences of length <= 4 over 5 handles (sorted and unsorted)
#[test]
fn find_handles_setops() {
    let store = AnnotationStore::default();
    let h = |v: &[u32]| Handles::<Annotation>::from_iter(v.iter().map(|x| AnnotationHandle::new(*x as usize)), &store);
    let n = 5u32;
    let mut seqs: Vec<Vec<u32>> = vec![vec![]];
    let mut frontier: Vec<Vec<u32>> = vec![vec![]];
    for _ in 0..4 {
        let mut next = vec![];
        for s in &frontier { for x in 0..n { if !s.contains(&x) { let mut t = s.clone(); t.push(x); next.push(t); } } }
        seqs.extend(next.clone());
        frontier = next;
    }
    for va in &seqs { for vb in &seqs {
        let b = h(vb);
        let mut a = h(va);
        a.union(&b);
        let got: Vec<u32> = a.iter().map(|x| x.as_usize() as u32).collect();
        let mut g2 = got.clone(); g2.sort(); g2.dedup();
        let mut want: Vec<u32> = va.clone(); for x in vb { if !want.contains(x) { want.push(*x); } } want.sort();
        let member_ok = (0..n).all(|x| a.contains(&AnnotationHandle::new(x as usize)) == want.contains(&x));
        if g2 != want || g2.len() != got.len() || !member_ok {
            println!("WITNESS {{\"clause\":\"Handles::union\",\"self\":\"{:?}\",\"other\":\"{:?}\",\"result\":\"{:?}\",\"sorted_flag\":{},\"contains_agrees\":{}}}", va, vb, got, a.returns_sorted(), member_ok);
            return;
        }
        let mut a = h(va);
        a.intersection(&b);
        let got: Vec<u32> = a.iter().map(|x| x.as_usize() as u32).collect();
        let mut g2 = got.clone(); g2.sort();
        let mut want: Vec<u32> = va.iter().copied().filter(|x| vb.contains(x)).collect(); want.sort();
        let member_ok = (0..n).all(|x| a.contains(&AnnotationHandle::new(x as usize)) == want.contains(&x));
        if g2 != want || !member_ok {
            println!("WITNESS {{\"clause\":\"Handles::intersection\",\"self\":\"{:?}\",\"other\":\"{:?}\",\"result\":\"{:?}\",\"sorted_flag\":{},\"contains_agrees\":{}}}", va, vb, got, a.returns_sorted(), member_ok);
            return;
        }
    }}
    println!("NO-WITNESS find_handles_setops");
}

/// clauses Handle::reindex / ReindexStore::{gaps,reindex}  (C03): after removing any subset of 6 annotations and compacting,
/// every remaining id resolves to the item that carries it, and that item knows its position
#[test]
fn find_reindex_ids() {
    let n = 6usize;
    for mask in 0u32..(1 << n) {
        let mut store = AnnotationStore::default()
            .with_resource(TextResourceBuilder::new().with_id("r").with_text("hello world")).unwrap()
            .with_dataset(AnnotationDataSetBuilder::new().with_id("d")).unwrap();
        for i in 0..n {
            store.annotate(AnnotationBuilder::new().with_id(format!("A{}", i))
                .with_target(SelectorBuilder::textselector("r", Offset::simple(i, i + 1)))
                .with_data("d", "k", "v")).unwrap();
        }
        for i in 0..n {
            if mask & (1 << i) != 0 {
                let h = store.annotation(format!("A{}", i).as_str()).unwrap().handle();
                store.remove(h).unwrap();
            }
        }
        let store = store.reindex();
        for i in 0..n {
            let id = format!("A{}", i);
            let found = store.annotation(id.as_str());
            let removed = mask & (1 << i) != 0;
            let ok = match &found {
                None => removed,
                Some(a) => !removed && a.id() == Some(id.as_str())
                    && <AnnotationStore as StoreFor<Annotation>>::get(&store, a.handle()).map(|x| x.id() == Some(id.as_str())).unwrap_or(false),
            };
            if !ok {
                println!("WITNESS {{\"clause\":\"reindex keeps ids\",\"annotations\":{},\"removed_mask\":{},\"lookup\":\"{}\",\"found_id\":\"{:?}\",\"found_handle\":\"{:?}\"}}", n, mask, id, found.as_ref().map(|a| a.id().map(|s| s.to_string())), found.as_ref().map(|a| a.handle()));
                return;
            }
        }
    }
    println!("NO-WITNESS find_reindex_ids");
}

/// clauses StoreFor::{resolve_id, get, has} (C03): on stores of 4 annotations / 3 resources / 2 datasets with every single
/// removal, every string of a pool (public ids, ids of removed items, temporary ids of every kind and number, malformed
/// temporary ids, the empty string) looks up exactly the one live item that carries it - or, for a temporary id of the
/// right kind, the live item in that slot - and nothing otherwise; never a panic
#[test]
fn find_id_lookups() {
    let pool: Vec<String> = {
        let mut p: Vec<String> = vec!["".into(), "!".into(), "!A".into(), "!Ax".into(), "!A-1".into(), "!A18446744073709551616".into(), "!A4294967296".into(), "nonexistent".into(), "é!A0".into(), "!a0".into(), "!A+0".into(), "!A+1".into(), "!R+0".into(), "!S+1".into(), "!A 1".into(), "!A1 ".into()];
        for i in 0..4 { p.push(format!("A{}", i)); p.push(format!("R{}", i)); p.push(format!("S{}", i)); }
        for k in ["A", "R", "S", "D", "K", "T", "I", "Z"] { for n in [0usize, 1, 2, 3, 4, 5, 999] { p.push(format!("!{}{}", k, n)); } }
        p
    };
    for removal in 0..13usize {
        let mut store = AnnotationStore::default();
        for i in 0..3 { store = store.with_resource(TextResourceBuilder::new().with_id(format!("R{}", i)).with_text("hello world")).unwrap(); }
        for i in 0..2 { store = store.with_dataset(AnnotationDataSetBuilder::new().with_id(format!("S{}", i))).unwrap(); }
        for i in 0..4usize {
            store.annotate(AnnotationBuilder::new().with_id(format!("A{}", i))
                .with_target(SelectorBuilder::textselector(format!("R{}", i % 3), Offset::simple(i, i + 1)))
                .with_data(format!("S{}", i % 2), "k", "v")).unwrap();
        }
        // model: slot -> Some(id) when live
        let mut ann: Vec<Option<String>> = (0..4).map(|i| Some(format!("A{}", i))).collect();
        let mut res: Vec<Option<String>> = (0..3).map(|i| Some(format!("R{}", i))).collect();
        let mut set: Vec<Option<String>> = (0..2).map(|i| Some(format!("S{}", i))).collect();
        let what = match removal {
            0 => "nothing removed".to_string(),
            1..=4 => { let i = removal - 1; store.remove_annotation(format!("A{}", i).as_str()).unwrap(); ann[i] = None; format!("remove_annotation(A{})", i) }
            5..=7 => { let i = removal - 5; store.remove_resource(format!("R{}", i).as_str()).unwrap(); res[i] = None;
                       for a in 0..4 { if a % 3 == i { ann[a] = None; } } format!("remove_resource(R{})", i) }
            8..=9 => { let i = removal - 8; store.remove_dataset(format!("S{}", i).as_str()).unwrap(); set[i] = None;
                   for a in 0..4 { if a % 2 == i { ann[a] = None; } } format!("remove_dataset(S{})", i) }
            // the same removals requested by temporary identifier: the public identifier of the removed item stops resolving all the same
            10 => { store.remove_annotation("!A2").unwrap(); ann[2] = None; "remove_annotation(!A2)".to_string() }
            11 => { store.remove_resource("!R1").unwrap(); res[1] = None; for a in 0..4 { if a % 3 == 1 { ann[a] = None; } } "remove_resource(!R1)".to_string() }
            _ => { store.remove_dataset("!S0").unwrap(); set[0] = None; for a in 0..4 { if a % 2 == 0 { ann[a] = None; } } "remove_dataset(!S0)".to_string() }
        };
        let want = |slots: &Vec<Option<String>>, letter: &str, s: &str| -> Option<usize> {
            if let Some(rest) = s.strip_prefix(&format!("!{}", letter)) {
                if !rest.is_empty() && rest.bytes().all(|b| b.is_ascii_digit()) { if let Ok(n) = rest.parse::<usize>() { if n < slots.len() && slots[n].is_some() { return Some(n); } } }
            }
            slots.iter().position(|x| x.as_deref() == Some(s))
        };
        for s in &pool {
            let s = s.as_str();
            let got = std::panic::catch_unwind(std::panic::AssertUnwindSafe(|| (
                store.resolve_annotation_id(s).ok().map(|h| h.as_usize()), store.annotation(s).map(|a| a.handle().as_usize()),
                store.resolve_resource_id(s).ok().map(|h| h.as_usize()), store.resource(s).map(|a| a.handle().as_usize()),
                store.resolve_dataset_id(s).ok().map(|h| h.as_usize()), store.dataset(s).map(|a| a.handle().as_usize()))));
            let got = match got { Ok(g) => g, Err(_) => { println!("WITNESS {{\"clause\":\"resolve_id/no_panic\",\"history\":{:?},\"lookup\":{:?},\"got\":\"panic\"}}", what, s); return; } };
            let (wa, wr, ws) = (want(&ann, "A", s), want(&res, "R", s), want(&set, "S", s));
            let report = |api: &str, got: Option<usize>, want: Option<usize>| -> bool {
                if got != want { println!("WITNESS {{\"clause\":\"resolve_id/ok_iff\",\"history\":{:?},\"api\":{:?},\"lookup\":{:?},\"got\":\"{:?}\",\"want\":\"{:?} (the live item that carries the identifier, or the live item in the slot a temporary identifier of this kind names)\"}}", what, api, s, got, want); true } else { false }
            };
            if report("resolve_annotation_id", got.0, wa) || report("annotation", got.1, wa) || report("resolve_resource_id", got.2, wr)
                || report("resource", got.3, wr) || report("resolve_dataset_id", got.4, ws) || report("dataset", got.5, ws) { return; }
        }
    }
    // ---- more items than the 16-bit handle types can number: the item is refused, or found by its own identifier
    {
        let mut store = AnnotationStore::default().with_dataset(AnnotationDataSetBuilder::new().with_id("d")).unwrap();
        let h = store.dataset("d").unwrap().handle();
        let set: &mut AnnotationDataSet = store.get_mut(h).unwrap();
        let mut accepted = 0usize;
        for i in 0..65538usize { if set.insert(DataKey::new(format!("k{}", i))).is_ok() { accepted += 1; } else { break; } }
        let set = store.dataset("d").unwrap();
        for i in [0usize, 1, 65535, 65536, 65537] {
            let id = format!("k{}", i);
            let got = set.key(id.as_str()).map(|k| k.as_str().to_string());
            let want = if i < accepted { Some(id.clone()) } else { None };
            if got != want { println!("WITNESS {{\"clause\":\"insert/full_refused\",\"history\":\"65538 keys inserted into one dataset, {} accepted\",\"lookup\":{:?},\"got\":\"{:?}\",\"want\":\"{:?}\"}}", accepted, id, got, want); return; }
        }
    }
    // ---- a temporary identifier inside a document names an item of that document: merging the document into a store
    //      that already holds items must not redirect it to whatever sits at that position in the receiving store
    let known = known_keys("find_id_lookups");
    let doc = r#"{"@type":"AnnotationStore","resources":[{"@type":"TextResource","@id":"r9","text":"Goodbye moon"}],
        "annotationsets":[{"@type":"AnnotationDataSet","@id":"s9","keys":[{"@type":"DataKey","@id":"k"}],"data":[]}],
        "annotations":[
          {"@type":"Annotation","@id":"!A0","target":{"@type":"TextSelector","resource":"r9","offset":{"@type":"Offset","begin":{"@type":"BeginAlignedCursor","value":8},"end":{"@type":"BeginAlignedCursor","value":12}}},
           "data":[{"@type":"AnnotationData","@id":"x1","set":"s9","key":"k","value":{"@type":"String","value":"v"}}]},
          {"@type":"Annotation","@id":"!A1","target":{"@type":"AnnotationSelector","annotation":"!A0"},
           "data":[{"@type":"AnnotationData","@id":"x2","set":"s9","key":"k","value":{"@type":"String","value":"w"}}]}]}"#;
    let pointed_at = |store: &AnnotationStore| -> Vec<Option<String>> {
        match store.annotationdata("s9", "x2").and_then(|d| d.annotations().next()) {
            Some(a) => a.annotations_in_targets(Default::default()).map(|t| t.text_simple().map(|x| x.to_string())).collect(),
            None => vec![] } };
    let alone = AnnotationStore::from_str(doc, Config::default()).map(|s| pointed_at(&s));
    let mut receiving = AnnotationStore::default()
        .with_resource(TextResourceBuilder::new().with_id("r0").with_text("Hello world")).unwrap()
        .with_dataset(AnnotationDataSetBuilder::new().with_id("s0")).unwrap();
    receiving.annotate(AnnotationBuilder::new().with_id("a0").with_target(SelectorBuilder::textselector("r0", Offset::simple(0, 5))).with_data("s0", "pos", "interj")).unwrap();
    let merged = std::panic::catch_unwind(std::panic::AssertUnwindSafe(|| receiving.merge_json_str(doc).map(|_| pointed_at(&receiving))));
    let problem = match (&alone, &merged) {
        (_, Err(_)) => Some("merge_json_str panicked".to_string()),
        (Ok(a), Ok(Ok(m))) if a != m => Some(format!("loaded alone the annotation with data x2 points at the annotation on {:?}; merged into a store that already has one annotation it points at {:?}", a, m)),
        _ => None,   // same answer, or the merge is refused
    };
    if let Some(p) = problem {
        let key = "temporary ids of a merged document denote positions of the receiving store".to_string();
        if known.contains(&key) { println!("KNOWN {}", key); } else { println!("WITNESS {{\"clause\":\"temporary identifiers are not redirected\",\"problem\":{:?},\"observed\":{:?}}}", key, p); return; }
    }
    println!("NO-WITNESS find_id_lookups");
}

// ------------------------------------------------------------------------------------------------------------------
// strip_annotation_ids / strip_data_ids (C03): afterwards no public id resolves, no stripped item carries an id, every item is
// still found by handle (and by its temporary id), and items of other kinds keep their ids.
#[test]
fn find_strip_ids() {
    for n in 0..5usize {
        for removed in 0..(n + 1) {
            for which in 0..3 {
                let mut store = AnnotationStore::default()
                    .with_resource(TextResourceBuilder::new().with_id("r").with_text("hello world")).unwrap()
                    .with_dataset(AnnotationDataSetBuilder::new().with_id("d")).unwrap();
                for i in 0..n {
                    store.annotate(AnnotationBuilder::new().with_id(format!("A{}", i))
                        .with_target(SelectorBuilder::textselector("r", Offset::simple(i, i + 1)))
                        .with_data_with_id("d", "k", format!("v{}", i), format!("D{}", i))).unwrap();
                }
                if removed < n {
                    let h = store.annotation(format!("A{}", removed).as_str()).unwrap().handle();
                    store.remove(h).unwrap();
                }
                if which == 0 || which == 2 { store.strip_annotation_ids(); }
                if which == 1 || which == 2 { store.strip_data_ids(); }
                let strip_a = which != 1;
                let strip_d = which != 0;
                let mut bad: Option<String> = None;
                for i in 0..n {
                    let aid = format!("A{}", i);
                    let gone = i == removed;
                    let found = store.annotation(aid.as_str());
                    if strip_a || gone {
                        if found.is_some() { bad = Some(format!("annotation id {} still resolves", aid)); }
                    } else if found.map(|a| a.id() != Some(aid.as_str())).unwrap_or(true) { bad = Some(format!("annotation id {} lost although annotation ids were not stripped", aid)); }
                    let slot = <AnnotationStore as StoreFor<Annotation>>::get(&store, AnnotationHandle::new(i));
                    match slot {
                        Ok(a) => {
                            if gone { bad = Some(format!("removed annotation {} is back", i)); }
                            if strip_a && a.id().is_some() { bad = Some(format!("annotation {} still carries id {:?}", i, a.id())); }
                            if a.handle() != Some(AnnotationHandle::new(i)) { bad = Some(format!("annotation {} lost its handle", i)); }
                            let tid = format!("!A{}", i);
                            if store.annotation(tid.as_str()).map(|x| x.handle()) != Some(AnnotationHandle::new(i)) { bad = Some(format!("temporary id {} no longer resolves", tid)); }
                        }
                        Err(_) => if !gone { bad = Some(format!("annotation {} vanished", i)); },
                    }
                    let did = format!("D{}", i);
                    let dfound = store.annotationdata("d", did.as_str());
                    if strip_d {
                        if dfound.is_some() { bad = Some(format!("data id {} still resolves", did)); }
                    } else if dfound.map(|d| d.id() != Some(did.as_str())).unwrap_or(true) { bad = Some(format!("data id {} lost although data ids were not stripped", did)); }
                    let ds: &AnnotationDataSet = store.get("d").unwrap();
                    match <AnnotationDataSet as StoreFor<AnnotationData>>::get(ds, AnnotationDataHandle::new(i)) {
                        Ok(d) => { if strip_d && d.id().is_some() { bad = Some(format!("data {} still carries id {:?}", i, d.id())); }
                                   if d.handle() != Some(AnnotationDataHandle::new(i)) { bad = Some(format!("data {} lost its handle", i)); } }
                        Err(_) => bad = Some(format!("data {} vanished", i)),
                    }
                }
                if store.resource("r").is_none() || store.dataset("d").is_none() || store.key("d", "k").is_none() && n > 0 { bad = Some("resource / dataset / key id lost".to_string()); }
                if let Some(b) = bad {
                    println!("WITNESS {{\"clause\":\"strip ids\",\"annotations\":{},\"removed\":{},\"strip\":\"{}\",\"what\":\"{}\"}}", n, removed, ["annotations", "data", "both"][which], b.replace('"', "'"));
                    return;
                }
            }
        }
    }
    println!("NO-WITNESS find_strip_ids");
}

// ------------------------------------------------------------------------------------------------------------------
// Store-level consistency (C01, C02, C03, C10): the forward references of every live annotation against every reverse
// index, read directly from the private fields, after each step of a set of small histories.

fn count<T: PartialEq>(v: Option<&Vec<T>>, x: &T) -> usize { v.map(|v| v.iter().filter(|y| *y == x).count()).unwrap_or(0) }

/// first inconsistency between forward references and reverse indices, if any
fn store_inconsistency(store: &AnnotationStore) -> Option<String> {
    let cfg = store.config.clone();
    // forward -> reverse
    for (i, slot) in store.annotations.iter().enumerate() {
        let a = match slot { Some(a) => a, None => continue };
        let h = AnnotationHandle::new(i);
        if a.handle() != Some(h) { return Some(format!("annotation at {} carries handle {:?}", i, a.handle())); }
        if let Some(id) = a.id() {
            match <AnnotationStore as StoreFor<Annotation>>::resolve_id(store, id) { Ok(r) if r == h => {}, other => return Some(format!("id {} of annotation {} resolves to {:?}", id, i, other.ok())) }
        }
        for (set, data) in a.raw_data() {
            if count(store.dataset_data_annotation_map.get(*set, *data), &h) != 1 { return Some(format!("annotation {} uses data {:?} but dataset_data_annotation_map lists it {} times", i, (set, data), count(store.dataset_data_annotation_map.get(*set, *data), &h))); }
            let ds: &AnnotationDataSet = match store.get(*set) { Ok(d) => d, Err(_) => return Some(format!("annotation {} uses data of removed dataset {:?}", i, set)) };
            if <AnnotationDataSet as StoreFor<AnnotationData>>::get(ds, *data).is_err() { return Some(format!("annotation {} uses removed data {:?}", i, (set, data))); }
        }
        let all_leafs: Vec<Selector> = a.target().iter(store, false).map(|s| s.into_owned()).collect();
        for sel in a.target().iter(store, false) {
            // a target may name the same thing more than once (a MultiSelector with the same part twice): the index then lists
            // the annotation once per occurrence
            // (two different leafs may also name the same text: a text selector and an annotation selector with that text)
            let cell = |x: &Selector| -> String { match x {
                Selector::TextSelector(r, t, _) => format!("text {:?} {:?}", r, t), Selector::AnnotationSelector(a2, _) => format!("ann {:?}", a2),
                other => format!("{:?}", other) } };
            let text_cell = |x: &Selector| -> Option<String> { match x { Selector::TextSelector(r, t, _) => Some(format!("text {:?} {:?}", r, t)), Selector::AnnotationSelector(_, Some((r, t, _))) => Some(format!("text {:?} {:?}", r, t)), _ => None } };
            let times = if let Selector::TextSelector(..) = sel.as_ref() { all_leafs.iter().filter(|x| text_cell(x) == text_cell(sel.as_ref())).count() } else { all_leafs.iter().filter(|x| cell(x) == cell(sel.as_ref())).count() };
            let (name, n, want) = match sel.as_ref() {
                Selector::TextSelector(r, t, _) => ("textrelationmap", count(store.textrelationmap.get(*r, *t), &h), cfg.textrelationmap),
                Selector::AnnotationSelector(a2, off) => {
                    if let Some((r, t, _)) = off { if cfg.textrelationmap && count(store.textrelationmap.get(*r, *t), &h) != all_leafs.iter().filter(|x| text_cell(x) == text_cell(sel.as_ref())).count() { return Some(format!("annotation {} targets text of annotation {:?} but textrelationmap lists it {} times", i, a2, count(store.textrelationmap.get(*r, *t), &h))); } }
                    if cfg.annotation_annotation_map && <AnnotationStore as StoreFor<Annotation>>::get(store, *a2).is_err() { return Some(format!("annotation {} targets removed annotation {:?}", i, a2)); }
                    ("annotation_annotation_map", count(store.annotation_annotation_map.get(*a2), &h), cfg.annotation_annotation_map)
                }
                Selector::DataKeySelector(s2, k) if store.get(*s2).ok().and_then(|ds: &AnnotationDataSet| <AnnotationDataSet as StoreFor<DataKey>>::get(ds, *k).ok()).is_none() => return Some(format!("annotation {} targets removed key {:?}", i, (s2, k))),
                Selector::AnnotationDataSelector(s2, d) if store.get(*s2).ok().and_then(|ds: &AnnotationDataSet| <AnnotationDataSet as StoreFor<AnnotationData>>::get(ds, *d).ok()).is_none() => return Some(format!("annotation {} targets removed data {:?}", i, (s2, d))),
                Selector::DataSetSelector(s2) if <AnnotationStore as StoreFor<AnnotationDataSet>>::get(store, *s2).is_err() => return Some(format!("annotation {} targets removed dataset {:?}", i, s2)),
                Selector::ResourceSelector(r) if <AnnotationStore as StoreFor<TextResource>>::get(store, *r).is_err() => return Some(format!("annotation {} targets removed resource {:?}", i, r)),
                Selector::TextSelector(r, _, _) if <AnnotationStore as StoreFor<TextResource>>::get(store, *r).is_err() => return Some(format!("annotation {} targets text of removed resource {:?}", i, r)),
                Selector::ResourceSelector(r) => ("resource_annotation_metamap", count(store.resource_annotation_metamap.get(*r), &h), cfg.resource_annotation_metamap),
                Selector::DataSetSelector(s) => ("dataset_annotation_metamap", count(store.dataset_annotation_metamap.get(*s), &h), cfg.dataset_annotation_metamap),
                Selector::DataKeySelector(s, k) => ("key_annotation_metamap", count(store.key_annotation_metamap.get(*s, *k), &h), cfg.key_annotation_metamap),
                Selector::AnnotationDataSelector(s, d) => ("data_annotation_metamap", count(store.data_annotation_metamap.get(*s, *d), &h), cfg.data_annotation_metamap),
                _ => continue,
            };
            if want && n != times { return Some(format!("annotation {} has target {:?} {} time(s) but {} lists it {} times", i, sel.as_ref(), times, name, n)); }
        }
    }
    // reverse -> forward
    let live = |h: &AnnotationHandle| matches!(store.annotations.get(h.as_usize()), Some(Some(_)));
    let leafs = |h: &AnnotationHandle| -> Vec<Selector> { store.annotations[h.as_usize()].as_ref().unwrap().target().iter(store, false).map(|s| s.into_owned()).collect() };
    for (s, inner) in store.dataset_data_annotation_map.data.iter().enumerate() { for (d, hs) in inner.data.iter().enumerate() { for h in hs {
        if !live(h) { return Some(format!("dataset_data_annotation_map[{}][{}] lists removed annotation {:?}", s, d, h)); }
        if !store.annotations[h.as_usize()].as_ref().unwrap().raw_data().iter().any(|(s2, d2)| s2.as_usize() == s && d2.as_usize() == d) { return Some(format!("dataset_data_annotation_map[{}][{}] lists annotation {:?} which does not use that data", s, d, h)); }
    }}}
    for (r, inner) in store.textrelationmap.data.iter().enumerate() { for (t, hs) in inner.data.iter().enumerate() { for h in hs {
        if !live(h) { return Some(format!("textrelationmap[{}][{}] lists removed annotation {:?}", r, t, h)); }
        if !leafs(h).iter().any(|sel| match sel { Selector::TextSelector(r2, t2, _) => r2.as_usize() == r && t2.as_usize() == t, Selector::AnnotationSelector(_, Some((r2, t2, _))) => r2.as_usize() == r && t2.as_usize() == t, _ => false }) { return Some(format!("textrelationmap[{}][{}] lists annotation {:?} which does not target that text", r, t, h)); }
    }}}
    for (r, hs) in store.resource_annotation_metamap.data.iter().enumerate() { for h in hs {
        if !live(h) { return Some(format!("resource_annotation_metamap[{}] lists removed annotation {:?}", r, h)); }
        if !leafs(h).iter().any(|sel| matches!(sel, Selector::ResourceSelector(r2) if r2.as_usize() == r)) { return Some(format!("resource_annotation_metamap[{}] lists annotation {:?} which does not target it", r, h)); }
    }}
    for (s, hs) in store.dataset_annotation_metamap.data.iter().enumerate() { for h in hs {
        if !live(h) { return Some(format!("dataset_annotation_metamap[{}] lists removed annotation {:?}", s, h)); }
        if !leafs(h).iter().any(|sel| matches!(sel, Selector::DataSetSelector(s2) if s2.as_usize() == s)) { return Some(format!("dataset_annotation_metamap[{}] lists annotation {:?} which does not target it", s, h)); }
    }}
    for (a2, hs) in store.annotation_annotation_map.data.iter() { for h in hs {
        if !live(h) { return Some(format!("annotation_annotation_map[{:?}] lists removed annotation {:?}", a2, h)); }
        if !leafs(h).iter().any(|sel| matches!(sel, Selector::AnnotationSelector(x, _) if x == a2)) { return Some(format!("annotation_annotation_map[{:?}] lists annotation {:?} which does not target it", a2, h)); }
    }}
    for (s, inner) in store.key_annotation_metamap.data.iter().enumerate() { for (k, hs) in inner.data.iter().enumerate() { for h in hs {
        if !live(h) { return Some(format!("key_annotation_metamap[{}][{}] lists removed annotation {:?}", s, k, h)); }
        if !leafs(h).iter().any(|sel| matches!(sel, Selector::DataKeySelector(s2, k2) if s2.as_usize() == s && k2.as_usize() == k)) { return Some(format!("key_annotation_metamap[{}][{}] lists annotation {:?} which does not target it", s, k, h)); }
    }}}
    for (s, inner) in store.data_annotation_metamap.data.iter().enumerate() { for (d, hs) in inner.data.iter().enumerate() { for h in hs {
        if !live(h) { return Some(format!("data_annotation_metamap[{}][{}] lists removed annotation {:?}", s, d, h)); }
        if !leafs(h).iter().any(|sel| matches!(sel, Selector::AnnotationDataSelector(s2, d2) if s2.as_usize() == s && d2.as_usize() == d)) { return Some(format!("data_annotation_metamap[{}][{}] lists annotation {:?} which does not target it", s, d, h)); }
    }}}
    // datasets: key -> data exact (through the crate-visible accessors: the fields themselves are private to their module)
    for (si, slot) in store.annotationsets.iter().enumerate() {
        let ds = match slot { Some(d) => d, None => continue };
        let datastore = <AnnotationDataSet as StoreFor<AnnotationData>>::store(ds);
        let keystore = <AnnotationDataSet as StoreFor<DataKey>>::store(ds);
        for (di, dslot) in datastore.iter().enumerate() {
            let d = match dslot { Some(d) => d, None => continue };
            let dh = AnnotationDataHandle::new(di);
            if count(ds.data_by_key(d.key()), &dh) != 1 { return Some(format!("dataset {}: data {} has key {:?} but key_data_map lists it {} times", si, di, d.key(), count(ds.data_by_key(d.key()), &dh))); }
            if <AnnotationDataSet as StoreFor<DataKey>>::get(ds, d.key()).is_err() { return Some(format!("dataset {}: data {} has removed key {:?}", si, di, d.key())); }
        }
        for k in 0..keystore.len() { if let Some(hs) = ds.data_by_key(DataKeyHandle::new(k)) { for dh in hs {
            match datastore.get(dh.as_usize()) { Some(Some(d)) if d.key().as_usize() == k => {}, _ => return Some(format!("dataset {}: key_data_map[{}] lists {:?}, which is not live data of that key", si, k, dh)) }
        }}}
    }
    None
}

fn consistency_base(cfg: Config) -> AnnotationStore {
    let mut store = AnnotationStore::new(cfg)
        .with_resource(TextResourceBuilder::new().with_id("r0").with_text("hello world")).unwrap()
        .with_resource(TextResourceBuilder::new().with_id("r1").with_text("second text")).unwrap()
        .with_dataset(AnnotationDataSetBuilder::new().with_id("d0")).unwrap()
        .with_dataset(AnnotationDataSetBuilder::new().with_id("d1")).unwrap();
    let t = |r: &'static str, b: usize, e: usize| SelectorBuilder::textselector(r, Offset::simple(b, e));
    let steps: Vec<AnnotationBuilder> = vec![
        AnnotationBuilder::new().with_id("A0").with_target(t("r1", 0, 6)).with_data("d1", "k0", "x"),
        AnnotationBuilder::new().with_id("A1").with_target(t("r0", 0, 5)).with_data("d0", "k0", "x").with_data("d0", "k1", 1),
        AnnotationBuilder::new().with_id("A2").with_target(t("r0", 0, 5)).with_data("d0", "k0", "x"),
        AnnotationBuilder::new().with_id("A3").with_target(SelectorBuilder::resourceselector("r0")).with_data("d0", "k1", 2),
        AnnotationBuilder::new().with_id("A4").with_target(SelectorBuilder::datasetselector("d0")).with_data("d1", "k0", "y"),
        AnnotationBuilder::new().with_id("A5").with_target(SelectorBuilder::annotationselector("A1", None)).with_data("d0", "k2", "n"),
        AnnotationBuilder::new().with_id("A6").with_target(SelectorBuilder::annotationselector("A1", Some(Offset::whole()))).with_data("d0", "k2", "o"),
        AnnotationBuilder::new().with_id("A7").with_target(SelectorBuilder::datakeyselector("d0", "k1")).with_data("d1", "k1", "about key"),
        AnnotationBuilder::new().with_id("A8").with_target(SelectorBuilder::multiselector(vec![t("r0", 6, 7), t("r0", 7, 8), t("r0", 8, 9), t("r1", 0, 6)])).with_data("d0", "k0", "m"),
        AnnotationBuilder::new().with_id("A9").with_target(SelectorBuilder::compositeselector(vec![SelectorBuilder::annotationselector("A2", None), SelectorBuilder::annotationselector("A3", None), SelectorBuilder::resourceselector("r1"), SelectorBuilder::datasetselector("d1")])).with_data("d0", "k0", "x"),
        AnnotationBuilder::new().with_id("A10").with_target(SelectorBuilder::directionalselector(vec![SelectorBuilder::datakeyselector("d0", "k0"), SelectorBuilder::datakeyselector("d1", "k0"), t("r0", 0, 5)])).with_data("d1", "k0", "x"),
    ];
    for b in steps { store.annotate(b).unwrap(); }
    let d = store.dataset("d0").unwrap().key("k2").unwrap().data().next().unwrap().handle();
    let s = store.dataset("d0").unwrap().handle();
    store.annotate(AnnotationBuilder::new().with_id("A11").with_target(SelectorBuilder::annotationdataselector(s, d)).with_data("d1", "k1", "about data")).unwrap();
    // an annotation on the annotation about the data item, and one that uses data of both datasets
    store.annotate(AnnotationBuilder::new().with_id("A12").with_target(SelectorBuilder::annotationselector("A11", None)).with_data("d1", "k1", "about about")).unwrap();
    store.annotate(AnnotationBuilder::new().with_id("A13").with_target(SelectorBuilder::textselector("r1", Offset::simple(7, 11))).with_data("d0", "k0", "x").with_data("d1", "k0", "x")).unwrap();
    store
}

/// clauses of u_index / u_cascade / u_map / u_dataset / u_store (C01, C02, C03, C10)
#[test]
fn find_store_consistency() {
    let cfgs: Vec<(&str, Box<dyn Fn() -> Config>)> = vec![
        ("default", Box::new(|| Config::default())),
        ("annotation_annotation_map off", Box::new(|| Config::default().with_annotation_annotation_map(false))),
        ("textrelationmap off", Box::new(|| Config::default().with_textrelationmap(false))),
    ];
    for (cname, mk) in &cfgs {
        let store = consistency_base(mk());
        if let Some(e) = store_inconsistency(&store) { println!("WITNESS {{\"clause\":\"store consistency\",\"config\":\"{}\",\"history\":\"build\",\"inconsistency\":{:?}}}", cname, e); return; }
        // removal histories only where the cascade can work (it finds dependent annotations through annotation_annotation_map)
        if !mk().annotation_annotation_map() { continue; }
        // remove each annotation in turn (fresh store each time), then two in sequence
        let ids = ["A0", "A1", "A2", "A3", "A4", "A5", "A6", "A7", "A8", "A9", "A10", "A11", "A12", "A13"];
        for i in 0..ids.len() { for j in 0..=ids.len() {
            let mut store = consistency_base(mk());
            let mut hist = format!("remove {}", ids[i]);
            if let Some(h) = store.annotation(ids[i]).map(|a| a.handle()) { store.remove_annotation(h).unwrap(); }
            if let Some(e) = store_inconsistency(&store) { println!("WITNESS {{\"clause\":\"store consistency\",\"config\":\"{}\",\"history\":\"{}\",\"inconsistency\":{:?}}}", cname, hist, e); return; }
            if j < ids.len() && j != i {
                hist = format!("{}, remove {}", hist, ids[j]);
                if let Some(h) = store.annotation(ids[j]).map(|a| a.handle()) { store.remove_annotation(h).unwrap(); }
                if let Some(e) = store_inconsistency(&store) { println!("WITNESS {{\"clause\":\"store consistency\",\"config\":\"{}\",\"history\":\"{}\",\"inconsistency\":{:?}}}", cname, hist, e); return; }
            }
        }}
        // remove data (strict and not), remove a key, remove a resource, remove a dataset
        for (hist, op) in [
            ("remove_data d0/k0=x non-strict", 0), ("remove_data d0/k0=x strict", 1), ("remove_key d0/k1 strict", 2), ("remove_resource r0", 3), ("remove_dataset d1", 4), ("remove_resource r1", 5), ("remove_dataset d0", 6),
            ("remove_data d0/k2=n (the target of A11) non-strict", 10), ("remove_data d0/k2=n (the target of A11) strict", 11), ("remove_key d0/k2 non-strict", 12),
            ("protect_text(Text)", 7), ("protect_text(Checksum)", 8), ("protect_text(Both) twice, then remove A1", 9),
            ("protect_text(Text) twice", 13), ("protect_text(Checksum) twice", 14), ("protect_text(Text), then (Both), then (Auto)", 15),
        ] {
            let mut store = consistency_base(mk());
            let res = match op {
                0 | 1 => { let s = store.dataset("d0").unwrap().handle(); let d = store.dataset("d0").unwrap().key("k0").unwrap().data().next().unwrap().handle(); store.remove_data(s, d, op == 1) }
                2 => { let s = store.dataset("d0").unwrap().handle(); let k = store.dataset("d0").unwrap().key("k1").unwrap().handle(); store.remove_key(s, k, true) }
                3 => store.remove_resource("r0"),
                4 => store.remove_dataset("d1"),
                5 => store.remove_resource("r1"),
                6 => store.remove_dataset("d0"),
                10 | 11 => { let s = store.dataset("d0").unwrap().handle(); let d = store.dataset("d0").unwrap().key("k2").unwrap().data().next().unwrap().handle(); store.remove_data(s, d, op == 11) }
                12 => { let s = store.dataset("d0").unwrap().handle(); let k = store.dataset("d0").unwrap().key("k2").unwrap().handle(); store.remove_key(s, k, false) }
                7 => store.protect_text(TextValidationMode::Text),
                8 => store.protect_text(TextValidationMode::Checksum),
                13 => store.protect_text(TextValidationMode::Text).and_then(|_| store.protect_text(TextValidationMode::Text)),
                14 => store.protect_text(TextValidationMode::Checksum).and_then(|_| store.protect_text(TextValidationMode::Checksum)),
                15 => store.protect_text(TextValidationMode::Text).and_then(|_| store.protect_text(TextValidationMode::Both)).and_then(|_| store.protect_text(TextValidationMode::Auto)),
                _ => store.protect_text(TextValidationMode::Both).and_then(|_| store.protect_text(TextValidationMode::Both)).and_then(|_| { let h = store.annotation("A1").unwrap().handle(); store.remove_annotation(h) }),
            };
            if let Err(e) = &res { println!("(history '{}' not applicable: {:?})", hist, e); continue; }
            if let Some(e) = store_inconsistency(&store) { println!("WITNESS {{\"clause\":\"store consistency\",\"config\":\"{}\",\"history\":\"{}\",\"inconsistency\":{:?}}}", cname, hist, e); return; }
        }
    }
    println!("NO-WITNESS find_store_consistency");
}

/// C02 under non-default configurations: each reverse index can be switched off in `Config`; a removal must still take
/// the dependants with it (the survivors are those of the default configuration) and leave no target that does not resolve
#[test]
fn find_removal_without_index() {
    let known = known_keys("find_removal_without_index");
    let cfgs: Vec<(&str, Box<dyn Fn() -> Config>)> = vec![
        ("annotation_annotation_map", Box::new(|| Config::default().with_annotation_annotation_map(false))),
        ("resource_annotation_metamap", Box::new(|| Config::default().with_resource_annotation_map(false))),
        ("textrelationmap", Box::new(|| Config::default().with_textrelationmap(false))),
        ("dataset_annotation_metamap", Box::new(|| Config::default().with_dataset_annotation_map(false))),
        ("key_annotation_metamap", Box::new(|| Config::default().with_key_annotation_metamap(false))),
        ("data_annotation_metamap", Box::new(|| Config::default().with_data_annotation_metamap(false))),
    ];
    let ops: [(&str, usize); 8] = [("remove_annotation A1", 0), ("remove_annotation A3", 1), ("remove_resource r0", 2), ("remove_resource r1", 3), ("remove_dataset d0", 4), ("remove_dataset d1", 5), ("remove_key d0/k1 strict", 6), ("remove_data d0/k2=n strict", 7)];
    let run = |cfg: Config, op: usize| -> Result<(Vec<String>, Option<String>), String> {
        std::panic::catch_unwind(std::panic::AssertUnwindSafe(|| {
            let mut store = consistency_base(cfg);
            let res = match op {
                0 => store.remove_annotation("A1"), 1 => store.remove_annotation("A3"),
                2 => store.remove_resource("r0"), 3 => store.remove_resource("r1"),
                4 => store.remove_dataset("d0"), 5 => store.remove_dataset("d1"),
                6 => { let s = store.dataset("d0").unwrap().handle(); let k = store.dataset("d0").unwrap().key("k1").unwrap().handle(); store.remove_key(s, k, true) }
                _ => { let s = store.dataset("d0").unwrap().handle(); let d = store.dataset("d0").unwrap().key("k2").unwrap().data().next().unwrap().handle(); store.remove_data(s, d, true) }
            };
            if let Err(e) = res { return (vec![format!("removal failed: {:?}", e)], None); }
            let survivors: Vec<String> = store.annotations.iter().flatten().map(|a| a.id().unwrap_or("?").to_string()).collect();
            (survivors, store_inconsistency(&store))
        })).map_err(|_| "panic".to_string())
    };
    let mut problems: Vec<(String, String)> = vec![];
    for (cname, mk) in &cfgs { for (oname, op) in ops {
        let want = run(Config::default(), op).expect("default configuration");
        match run(mk(), op) {
            Err(p) => problems.push((format!("removal does not cascade with {} switched off", cname), format!("{}: {}", oname, p))),
            Ok((survivors, dangling)) => if survivors != want.0 || dangling.is_some() {
                problems.push((format!("removal does not cascade with {} switched off", cname), format!("{}: survivors {:?}, with the default configuration {:?}; {}", oname, survivors, want.0, dangling.unwrap_or_default())));
            }
        }
    }}
    let mut seen: Vec<String> = vec![];
    for (key, what) in problems {
        if known.contains(&key) { if !seen.contains(&key) { println!("KNOWN {}", key); seen.push(key); } }
        else { println!("WITNESS {{\"clause\":\"removal under a non-default configuration\",\"problem\":{:?},\"observed\":{:?}}}", key, what); return; }
    }
    println!("NO-WITNESS find_removal_without_index");
}

/// C02 on deep stores ("iterating, querying and serialising the store cannot fail or panic"; removal "succeeds whenever the item exists"):
/// a chain of annotations on annotations a0 <- a1 <- .. <- aN is built with plain annotate() calls and one of its ends is removed.
/// Every case runs in a child process (this test binary run again with VX_DEPTH_CASE set), because the failure mode is a stack
/// overflow, which aborts the process: the parent reports how the child ended.
#[test]
fn find_removal_depth() {
    // (name, chain length, remove the first (true) or the last (false) of the chain)
    let cases: Vec<(&str, usize, bool)> = vec![
        ("chain of 50, remove the first", 50, true), ("chain of 50, remove the last", 50, false),
        ("chain of 3000, remove the first", 3000, true), ("chain of 30000, remove the last", 30000, false),
    ];
    if let Ok(case) = std::env::var("VX_DEPTH_CASE") {
        let (_, n, first) = cases[case.parse::<usize>().unwrap()];
        let mut store = AnnotationStore::default().with_resource(TextResourceBuilder::new().with_id("r").with_text("hello world")).unwrap();
        store.annotate(AnnotationBuilder::new().with_id("a0").with_target(SelectorBuilder::textselector("r", Offset::simple(0, 5))).with_data("d", "k", "v")).unwrap();
        for i in 1..=n { store.annotate(AnnotationBuilder::new().with_id(format!("a{}", i)).with_target(SelectorBuilder::annotationselector(format!("a{}", i - 1), None)).with_data("d", "k", "v")).unwrap(); }
        let victim = if first { "a0".to_string() } else { format!("a{}", n) };
        let r = std::panic::catch_unwind(std::panic::AssertUnwindSafe(|| store.remove_annotation(victim.as_str())));
        match r { Err(_) => println!("CHILD-PANIC"), Ok(Err(e)) => println!("CHILD-ENDED error: {}", e), Ok(Ok(())) => println!("CHILD-ENDED {} annotations left", store.annotations_len() - store.annotations.iter().filter(|a| a.is_none()).count()) }
        return;
    }
    let known = known_keys("find_removal_depth");
    for (k, (name, n, first)) in cases.iter().enumerate() {
        let mut cmd = std::process::Command::new(std::env::current_exe().unwrap());
        // (a thread of the test harness has a 2 MiB stack, like every spawned thread by default)
        cmd.args(["verif_hooks::replay::find_removal_depth", "--exact", "--nocapture", "--test-threads=1"]).env("VX_DEPTH_CASE", k.to_string());
        let mut child = cmd.stdout(std::process::Stdio::piped()).stderr(std::process::Stdio::piped()).spawn().unwrap();
        let started = std::time::Instant::now();
        let status = loop { match child.try_wait().unwrap() { Some(st) => break Some(st), None => { if started.elapsed().as_secs() > 300 { let _ = child.kill(); break None; } std::thread::sleep(std::time::Duration::from_millis(50)); } } };
        let out = child.wait_with_output().map(|o| format!("{}{}", String::from_utf8_lossy(&o.stdout), String::from_utf8_lossy(&o.stderr))).unwrap_or_default();
        let want_left = if *first { 0 } else { *n };
        let problem = match status {
            None => Some("the removal did not end within 300 s".to_string()),
            Some(st) if out.contains("CHILD-PANIC") => Some(format!("panic ({})", st)),
            Some(_) if out.contains(&format!("CHILD-ENDED {} annotations left", want_left)) => None,
            Some(_) if out.contains("CHILD-ENDED") => Some(format!("unexpected result: {}", out.lines().find(|l| l.contains("CHILD-ENDED")).unwrap_or(""))),
            Some(st) => Some(format!("the process was aborted: {}{}", st, if out.contains("overflowed its stack") { " (stack overflow)" } else { "" })),
        };
        if let Some(p) = problem {
            if known.iter().any(|x| x == name) { println!("KNOWN {}", name); continue; }
            println!("WITNESS {{\"clause\":\"removal in a deep store\",\"case\":{:?},\"problem\":{:?}}}", name, p);
            return;
        }
    }
    println!("NO-WITNESS find_removal_depth");
}

/// the promises of the reverse lookups (C01: "where the API promises chronological or duplicate-free results, that promise holds too"):
/// an annotation is listed once per item however often it names it, and lookups that declare themselves sorted are in chronological order
#[test]
fn find_lookup_promises() {
    let known = known_keys("find_lookup_promises");
    let mut problems: Vec<(String, String)> = vec![];
    {
        let mut store = AnnotationStore::default()
            .with_resource(TextResourceBuilder::new().with_id("r").with_text("Hello wonderful world")).unwrap()
            .with_dataset(AnnotationDataSetBuilder::new().with_id("s")).unwrap();
        store.annotate(AnnotationBuilder::new().with_id("A0").with_target(SelectorBuilder::textselector("r", Offset::simple(0, 5))).with_data("s", "k", "v")).unwrap();
        // B names the same text, the same annotation and the same data twice
        store.annotate(AnnotationBuilder::new().with_id("B").with_target(SelectorBuilder::multiselector(vec![
            SelectorBuilder::textselector("r", Offset::simple(6, 15)), SelectorBuilder::textselector("r", Offset::simple(6, 15)),
            SelectorBuilder::annotationselector("A0", None), SelectorBuilder::annotationselector("A0", None)]))
            .with_data("s", "k2", "x").with_data("s", "k2", "x")).unwrap();
        let ts = store.resource("r").unwrap().textselection(&Offset::simple(6, 15)).unwrap();
        let n_text = ts.annotations().filter(|a| a.id() == Some("B")).count();
        let n_ann = store.annotation("A0").unwrap().annotations().filter(|a| a.id() == Some("B")).count();
        let n_data = store.key("s", "k2").unwrap().data().next().unwrap().annotations().filter(|a| a.id() == Some("B")).count();
        if n_text != 1 || n_ann != 1 || n_data != 1 {
            problems.push(("an annotation that names the same item twice is listed twice".to_string(), format!("B is listed {} times for its text, {} times for the annotation it targets (documented: without duplicates), {} times for its data", n_text, n_ann, n_data)));
        }
        let sets: Vec<String> = store.annotation("B").unwrap().datasets().map(|d| d.id().unwrap_or("?").to_string()).collect();
        let _ = sets;
    }
    {
        let tv = "https://w3id.org/stam/extensions/stam-textvalidation/";
        let mut store = AnnotationStore::default()
            .with_resource(TextResourceBuilder::new().with_id("r").with_text("Hello wonderful world")).unwrap()
            .with_dataset(AnnotationDataSetBuilder::new().with_id("s")).unwrap();
        store.annotate(AnnotationBuilder::new().with_id("A0").with_target(SelectorBuilder::textselector("r", Offset::simple(0, 5))).with_data("s", "k", "v")).unwrap();
        store.annotate(AnnotationBuilder::new().with_id("A1").with_target(SelectorBuilder::textselector("r", Offset::simple(0, 5))).with_data(tv, "text", "Hello")).unwrap();
        store.protect_text(TextValidationMode::Text).unwrap();
        let key = store.key(tv, "text").unwrap();
        for data in key.data() {
            let it = data.annotations();
            let sorted = it.returns_sorted();
            let got: Vec<AnnotationHandle> = it.map(|a| a.handle()).collect();
            let mut want = got.clone(); want.sort();
            if sorted && got != want { problems.push(("protect_text appends to the data index out of chronological order".to_string(), format!("data.annotations() declares itself sorted and yields {:?}", got))); }
        }
    }
    for (key, what) in problems {
        if known.contains(&key) { println!("KNOWN {}", key); } else { println!("WITNESS {{\"clause\":\"promises of the reverse lookups\",\"problem\":{:?},\"observed\":{:?}}}", key, what); return; }
    }
    println!("NO-WITNESS find_lookup_promises");
}

/// clauses SegmentationIter::next  (C07): segments partition the text and cut exactly at the begins and ends of known selections
#[test]
fn find_segmentation() {
    let text = "abcdefghij";
    let n = text.chars().count();
    // every set of up to 3 selections over a 10-character text taken from a fixed pool
    let pool: Vec<(usize, usize)> = vec![(0, 3), (2, 5), (3, 3), (5, 10), (4, 6), (9, 10), (0, 10), (7, 7)];
    for interval in [0usize, 2, 3] { for mask in 0u32..(1 << pool.len()) {
        if mask.count_ones() > 3 { continue; }
        let mut store = AnnotationStore::new(Config::default().with_milestone_interval(interval))
            .with_resource(TextResourceBuilder::new().with_id("r").with_text(text)).unwrap()
            .with_dataset(AnnotationDataSetBuilder::new().with_id("d")).unwrap();
        let mut cuts = std::collections::BTreeSet::new();
        cuts.insert(0); cuts.insert(n);
        for (i, (b, e)) in pool.iter().enumerate() { if mask & (1 << i) != 0 {
            store.annotate(AnnotationBuilder::new().with_target(SelectorBuilder::textselector("r", Offset::simple(*b, *e))).with_data("d", "k", "v")).unwrap();
            cuts.insert(*b); cuts.insert(*e);
        }}
        let cuts: Vec<usize> = cuts.into_iter().collect();
        let want: Vec<(usize, usize)> = cuts.windows(2).map(|w| (w[0], w[1])).collect();
        let got: Vec<(usize, usize)> = store.resource("r").unwrap().segmentation().map(|s| (s.begin(), s.end())).collect();
        if got != want {
            println!("WITNESS {{\"clause\":\"SegmentationIter::next\",\"milestone_interval\":{},\"selections_mask\":{},\"got\":\"{:?}\",\"want\":\"{:?}\"}}", interval, mask, got, want);
            return;
        }
        // a range of the text: the pieces partition [b, e) and are cut at every begin and end of a known selection inside it
        // (also ranges that reach beyond the text - clipped to it - and ranges that end before they begin - empty)
        for (b0, e0) in [(0usize, n), (1, 9), (2, 6), (3, 4), (4, 10), (0, 3), (0, n + 1), (7, n + 5), (n + 2, n + 4), (5, 2), (n, n)] {
            let (e, b) = (std::cmp::min(e0, n), std::cmp::min(b0, std::cmp::min(e0, n)));
            let mut inner: Vec<usize> = cuts.iter().copied().filter(|c| *c > b && *c < e).collect();
            inner.insert(0, b); inner.push(e);
            let want: Vec<(usize, usize)> = if b < e { inner.windows(2).map(|w| (w[0], w[1])).collect() } else { vec![] };
            let got: Vec<(usize, usize)> = match std::panic::catch_unwind(std::panic::AssertUnwindSafe(|| store.resource("r").unwrap().segmentation_in_range(b0, e0).map(|s| (s.begin(), s.end())).collect::<Vec<_>>())) {
                Ok(v) => v, Err(_) => { println!("WITNESS {{\"clause\":\"segmentation_in_range\",\"milestone_interval\":{},\"selections_mask\":{},\"range\":[{},{}],\"got\":\"panic\"}}", interval, mask, b0, e0); return; } };
            let (b, e) = (b0, e0);
            if got != want {
                println!("WITNESS {{\"clause\":\"segmentation_in_range\",\"milestone_interval\":{},\"selections_mask\":{},\"range\":[{},{}],\"got\":\"{:?}\",\"want\":\"{:?}\"}}", interval, mask, b, e, got, want);
                return;
            }
        }
    }}
    println!("NO-WITNESS find_segmentation");
}

/// clauses TextResource::{utf8byte, utf8byte_to_charpos} and the ResultTextSelection variants  (C12): conversions agree with
/// char_indices for every position of texts mixing 1-4 byte codepoints, with milestone intervals 1, 2, 3 and none
#[test]
fn find_utf8() {
    let texts = ["", "a", "aé", "é€𝄞a", "ab€cd𝄞𝄞ef", "𝄞", "€€€€€€€€€€€€", "xyzäöü€𝄞xyzäöü€𝄞"];
    for text in texts { for interval in [0usize, 1, 2, 3, 100] {
        let store = AnnotationStore::new(Config::default().with_milestone_interval(interval))
            .with_resource(TextResourceBuilder::new().with_id("r").with_text(text)).unwrap();
        let res = store.resource("r").unwrap();
        let bytes: Vec<usize> = text.char_indices().map(|(b, _)| b).chain(std::iter::once(text.len())).collect();
        for (c, b) in bytes.iter().enumerate() {
            let got = res.utf8byte(c);
            if got.as_ref().ok() != Some(b) { println!("WITNESS {{\"clause\":\"utf8byte\",\"text\":{:?},\"milestone_interval\":{},\"charpos\":{},\"got\":\"{:?}\",\"want\":{}}}", text, interval, c, got.ok(), b); return; }
        }
        if res.utf8byte(bytes.len()).is_ok() { println!("WITNESS {{\"clause\":\"utf8byte/ok_iff\",\"text\":{:?},\"milestone_interval\":{},\"charpos\":{},\"got\":\"Ok\"}}", text, interval, bytes.len()); return; }
        for b in 0..=text.len() + 1 {
            let want = bytes.iter().position(|x| *x == b);
            let got = res.utf8byte_to_charpos(b).ok();
            if got != want { println!("WITNESS {{\"clause\":\"utf8byte_to_charpos\",\"text\":{:?},\"milestone_interval\":{},\"bytepos\":{},\"got\":\"{:?}\",\"want\":\"{:?}\"}}", text, interval, b, got, want); return; }
        }
        // relative conversions inside every sub-selection
        let n = bytes.len() - 1;
        for sb in 0..=n { for se in sb..=n {
            let ts = match res.textselection(&Offset::simple(sb, se)) { Ok(t) => t, Err(_) => continue };
            for c in 0..=(se - sb) {
                let want = bytes[sb + c] - bytes[sb];
                let got = ts.utf8byte(c).ok();
                if got != Some(want) { println!("WITNESS {{\"clause\":\"ResultTextSelection::utf8byte\",\"text\":{:?},\"selection\":\"{}..{}\",\"charpos\":{},\"got\":\"{:?}\",\"want\":{}}}", text, sb, se, c, got, want); return; }
                let back = ts.utf8byte_to_charpos(want).ok();
                if back != Some(c) { println!("WITNESS {{\"clause\":\"ResultTextSelection::utf8byte_to_charpos\",\"text\":{:?},\"selection\":\"{}..{}\",\"bytepos\":{},\"got\":\"{:?}\",\"want\":{}}}", text, sb, se, want, back, c); return; }
            }
        }}
    }}
    // C12 second sentence: no answer changes with the milestone interval - the known selections, the positions where
    // selections begin or end, and a resource copied (with its selections) into a second store
    let text = "aé€𝄞aé€𝄞aé€𝄞";
    let pool: [(usize, usize); 5] = [(2, 6), (1, 3), (4, 8), (5, 6), (1, 5)];
    let mut reference: Option<String> = None;
    for interval in [0usize, 1, 2, 3, 7, 100] {
        let mut store = AnnotationStore::new(Config::default().with_milestone_interval(interval))
            .with_resource(TextResourceBuilder::new().with_id("r").with_text(text)).unwrap();
        for (b, e) in pool { store.annotate(AnnotationBuilder::new().with_target(SelectorBuilder::textselector("r", Offset::simple(b, e))).with_data("d", "k", "v")).unwrap(); }
        let original: &TextResource = store.get("r").unwrap();
        let copy = original.clone().unbind();
        let mut store2 = AnnotationStore::new(Config::default().with_milestone_interval(interval));
        store2.insert(copy).unwrap();
        let copied: &TextResource = store2.get("r").unwrap();
        let mut answers: Vec<String> = Vec::new();
        for (name, r) in [("built", original), ("copied", copied)] {
            let fwd: Vec<(usize, usize)> = r.iter().map(|t| (t.begin(), t.end())).collect();
            let bwd: Vec<(usize, usize)> = r.iter().rev().map(|t| (t.begin(), t.end())).collect();
            let known: Vec<bool> = pool.iter().map(|(b, e)| matches!(r.known_textselection(&Offset::simple(*b, *e)), Ok(Some(_)))).collect();
            let both: Vec<usize> = r.positions(PositionMode::Both).copied().collect();
            let begins: Vec<usize> = r.positions(PositionMode::Begin).copied().collect();
            let ends: Vec<usize> = r.positions(PositionMode::End).copied().collect();
            let inrange: Vec<usize> = r.positions_in_range(PositionMode::Both, 2, 9).copied().collect();
            answers.push(format!("{}: iter={:?} rev={:?} known={:?} both={:?} begin={:?} end={:?} in2..9={:?}", name, fwd, bwd, known, both, begins, ends, inrange));
        }
        // the copy answers as the original (same selections), and every interval answers as interval 0
        let a = answers[0].trim_start_matches("built: ").to_string();
        let b = answers[1].trim_start_matches("copied: ").to_string();
        if a != b { println!("WITNESS {{\"clause\":\"create_milestones/existing_entries_untouched\",\"text\":{:?},\"milestone_interval\":{},\"original\":{:?},\"after_insertion_into_a_second_store\":{:?}}}", text, interval, a, b); return; }
        match &reference { None => reference = Some(a), Some(r0) => if *r0 != a { println!("WITNESS {{\"clause\":\"milestone_interval changes an answer\",\"text\":{:?},\"milestone_interval\":{},\"with_interval_0\":{:?},\"got\":{:?}}}", text, interval, r0, a); return; } }
    }
    println!("NO-WITNESS find_utf8");
}

/// clauses TextSelectionIter::{next, next_back}  (C06): a range walk yields exactly the known selections that begin (forward) /
/// end (backward) inside the range, each once, in order
#[test]
fn find_index_walk() {
    let mut store = store_with_text().with_dataset(AnnotationDataSetBuilder::new().with_id("d")).unwrap();
    let pool: Vec<(usize, usize)> = vec![(0, 2), (0, 9), (2, 4), (4, 6), (4, 4), (3, 7), (8, 9), (9, 9), (0, 0), (6, 8), (2, 9)];
    for (b, e) in &pool { store.annotate(AnnotationBuilder::new().with_target(SelectorBuilder::textselector("r", Offset::simple(*b, *e))).with_data("d", "k", "v")).unwrap(); }
    let resource: &TextResource = store.get("r").unwrap();
    let all: Vec<TextSelection> = pool.iter().map(|(b, e)| ts(*b, *e)).collect();
    let n = TEXT.chars().count();
    for b in 0..=n + 1 { for e in 0..=n + 2 {
        // (a range that ends before it begins holds nothing)
        if std::panic::catch_unwind(std::panic::AssertUnwindSafe(|| resource.range(b, e).count())).is_err() { println!("WITNESS {{\"clause\":\"TextResource::range\",\"range\":\"{}..{}\",\"got\":\"panic\"}}", b, e); return; }
        let mut want: Vec<(usize, usize)> = all.iter().filter(|t| b <= t.begin() && t.begin() < e).map(|t| (t.begin(), t.end())).collect();
        want.sort(); want.dedup();
        let got: Vec<(usize, usize)> = resource.range(b, e).map(|t| (t.begin(), t.end())).collect();
        let mut gs = got.clone(); gs.sort();
        if gs != want || got.windows(2).any(|w| w[0].0 > w[1].0) { println!("WITNESS {{\"clause\":\"TextSelectionIter::next\",\"range\":\"{}..{}\",\"got\":\"{:?}\",\"want\":\"{:?}\"}}", b, e, got, want); return; }
        let mut want: Vec<(usize, usize)> = all.iter().filter(|t| b <= t.end() && t.end() < e).map(|t| (t.begin(), t.end())).collect();
        want.sort(); want.dedup();
        let got: Vec<(usize, usize)> = resource.range(b, e).rev().map(|t| (t.begin(), t.end())).collect();
        let mut gs = got.clone(); gs.sort();
        if gs != want || got.windows(2).any(|w| w[0].1 < w[1].1) { println!("WITNESS {{\"clause\":\"TextSelectionIter::next_back\",\"range\":\"{}..{}\",\"got\":\"{:?}\",\"want\":\"{:?}\"}}", b, e, got, want); return; }
    }}
    println!("NO-WITNESS find_index_walk");
}

/// clauses TextSelection::{relative_offset, relative_begin/end(_endaligned), textselection_by_offset, absolute_offset}  (C04):
/// for every selection inside every container over a 9-position text and all four offset modes, the reported relative
/// offset re-resolves (inside the container) to the same absolute range; selections not inside are rejected
#[test]
fn find_relative_offsets() {
    let n = 9usize;
    for cb in 0..=n { for ce in cb..=n { for b in 0..=n { for e in b..=n {
        let container = ts(cb, ce);
        let sel = ts(b, e);
        let inside = cb <= b && e <= ce;
        // the cursor helpers: a cursor only for a selection that lies inside the container ("None if they are not embedded")
        let (rb, re) = (sel.relative_begin(&container), sel.relative_end(&container));
        let (wb, we) = if inside { (Some(b - cb), Some(e - cb)) } else { (None, None) };
        if rb != wb || re != we {
            println!("WITNESS {{\"clause\":\"TextSelection::relative_begin/relative_end\",\"selection\":\"{}..{}\",\"container\":\"{}..{}\",\"relative_begin\":\"{:?}\",\"relative_end\":\"{:?}\",\"want\":\"{:?} {:?}\"}}", b, e, cb, ce, rb, re, wb, we);
            return;
        }
        for mode in [OffsetMode::BeginBegin, OffsetMode::BeginEnd, OffsetMode::EndEnd, OffsetMode::EndBegin] {
            let got = std::panic::catch_unwind(|| sel.relative_offset(&container, mode));
            let bad = match &got {
                Err(_) => Some("panic".to_string()),
                Ok(None) => if inside { Some("None for an embedded selection".to_string()) } else { None },
                Ok(Some(off)) => {
                    if !inside { Some(format!("{:?} for a selection that is not embedded", off)) } else {
                        match container.textselection_by_offset(off) {
                            Ok(t) if t.begin() == b && t.end() == e => None,
                            other => Some(format!("{:?} re-resolves to {:?}", off, other.map(|t| (t.begin(), t.end())).ok())),
                        }
                    }
                }
            };
            if let Some(msg) = bad {
                println!("WITNESS {{\"clause\":\"TextSelection::relative_offset\",\"selection\":\"{}..{}\",\"container\":\"{}..{}\",\"mode\":\"{:?}\",\"problem\":{:?}}}", b, e, cb, ce, mode, msg);
                return;
            }
        }
    }}}}
    // acceptance: an offset is accepted by a selection exactly when it denotes a range inside that selection
    for cb in 0..=n { for ce in cb..=n {
        let container = ts(cb, ce);
        let len = (ce - cb) as isize;
        let cursors = |v: isize| -> Vec<Cursor> { let mut c = vec![Cursor::EndAligned(v)]; if v >= 0 { c.push(Cursor::BeginAligned(v as usize)); } c };
        let rel = |c: &Cursor| -> Option<isize> { match c { Cursor::BeginAligned(x) => Some(*x as isize), Cursor::EndAligned(x) => if *x <= 0 && -*x <= len { Some(len + *x) } else { None } } };
        for bv in -(len + 2)..=(len + 2) { for ev in -(len + 2)..=(len + 2) { for bc in cursors(bv) { for ec in cursors(ev) {
            let off = Offset::new(bc, ec);
            let want = match (rel(&bc), rel(&ec)) { (Some(b), Some(e)) => 0 <= b && b <= e && e <= len, _ => false };
            let got = std::panic::catch_unwind(|| container.textselection_by_offset(&off));
            let bad = match &got { Ok(Ok(t)) => !want || Some((t.begin() - cb) as isize) != rel(&bc) || Some((t.end() - cb) as isize) != rel(&ec), Ok(Err(_)) => want, Err(_) => true };
            if bad {
                println!("WITNESS {{\"clause\":\"TextSelection::textselection_by_offset/accept_iff\",\"container\":\"{}..{}\",\"offset\":\"{:?}\",\"accepted\":{},\"should_accept\":{}}}", cb, ce, off, matches!(got, Ok(Ok(_))), want);
                return;
            }
            // absolute_offset: the same acceptance, the result is the same range in absolute coordinates
            let got = std::panic::catch_unwind(|| container.absolute_offset(&off));
            let bad = match &got { Ok(Ok(a)) => !want || a.begin != Cursor::BeginAligned((cb as isize + rel(&bc).unwrap()) as usize) || a.end != Cursor::BeginAligned((cb as isize + rel(&ec).unwrap()) as usize), Ok(Err(_)) => want, Err(_) => true };
            if bad {
                println!("WITNESS {{\"clause\":\"TextSelection::absolute_offset/accept_iff\",\"container\":\"{}..{}\",\"offset\":\"{:?}\",\"result\":\"{:?}\",\"should_accept\":{}}}", cb, ce, off, got.map_err(|_| "panic"), want);
                return;
            }
        }}}}
    }}
    // the same acceptance through the high-level API: textselection(&offset) on a text selection of a resource (bound to an
    // annotation or not) - what OFFSET in a query and relative targets of ADD go through
    let mut store = store_with_text();
    for (i, (b, e)) in [(2usize, 5usize), (0, 9), (4, 4)].iter().enumerate() { store.annotate(AnnotationBuilder::new().with_id(format!("A{}", i)).with_target(SelectorBuilder::textselector("r", Offset::simple(*b, *e)))).unwrap(); }
    let resource = store.resource("r").unwrap();
    for (cb, ce) in [(2usize, 5usize), (0, 9), (4, 4), (3, 7), (9, 9), (0, 0)] {
        let container = resource.textselection(&Offset::simple(cb, ce)).unwrap();
        let len = (ce - cb) as isize;
        let cursors = |v: isize| -> Vec<Cursor> { let mut c = vec![Cursor::EndAligned(v)]; if v >= 0 { c.push(Cursor::BeginAligned(v as usize)); } c };
        let rel = |c: &Cursor| -> Option<isize> { match c { Cursor::BeginAligned(x) => if *x <= isize::MAX as usize { Some(*x as isize) } else { None }, Cursor::EndAligned(x) => if *x <= 0 && *x >= -len { Some(len + *x) } else { None } } };
        let mut offsets: Vec<Offset> = vec![Offset::new(Cursor::BeginAligned(usize::MAX), Cursor::BeginAligned(usize::MAX)), Offset::new(Cursor::BeginAligned(0), Cursor::BeginAligned(usize::MAX)), Offset::new(Cursor::EndAligned(isize::MIN), Cursor::EndAligned(0))];
        for bv in -(len + 3)..=(len + 6) { for ev in -(len + 3)..=(len + 6) { for bc in cursors(bv) { for ec in cursors(ev) { offsets.push(Offset::new(bc, ec)); } } } }
        for off in offsets {
            let want = match (rel(&off.begin), rel(&off.end)) { (Some(b), Some(e)) => 0 <= b && b <= e && e <= len, _ => false };
            let got = std::panic::catch_unwind(std::panic::AssertUnwindSafe(|| container.textselection(&off).map(|t| (t.begin(), t.end()))));
            let bad = match &got { Ok(Ok((tb, te))) => !want || Some(*tb as isize - cb as isize) != rel(&off.begin) || Some(*te as isize - cb as isize) != rel(&off.end), Ok(Err(_)) => want, Err(_) => true };
            let got2 = std::panic::catch_unwind(std::panic::AssertUnwindSafe(|| container.absolute_offset(&off)));
            let bad2 = match &got2 { Ok(Ok(a)) => !want || a.begin != Cursor::BeginAligned((cb as isize + rel(&off.begin).unwrap()) as usize) || a.end != Cursor::BeginAligned((cb as isize + rel(&off.end).unwrap()) as usize), Ok(Err(_)) => want, Err(_) => true };
            if bad2 {
                println!("WITNESS {{\"clause\":\"ResultTextSelection::absolute_offset/accept_iff\",\"container\":\"{}..{}\",\"offset\":\"{:?}\",\"result\":\"{:?}\",\"should_accept\":{}}}", cb, ce, off, got2.map_err(|_| "panic"), want);
                return;
            }
            if std::panic::catch_unwind(|| off.len()).is_err() {
                println!("WITNESS {{\"clause\":\"Offset::len/value\",\"offset\":\"{:?}\",\"result\":\"panic\"}}", off);
                return;
            }
            if bad {
                println!("WITNESS {{\"clause\":\"FindText::textselection on a text selection/accept_iff\",\"container\":\"{}..{}\",\"offset\":\"{:?}\",\"result\":\"{:?}\",\"should_accept\":{}}}", cb, ce, off, got.map_err(|_| "panic"), want);
                return;
            }
        }
    }
    // the resource itself (default method of the Text trait): accepted exactly when the offset denotes a range of the text
    {
        let len = TEXT.chars().count() as isize;
        let cursors = |v: isize| -> Vec<Cursor> { let mut c = vec![Cursor::EndAligned(v)]; if v >= 0 { c.push(Cursor::BeginAligned(v as usize)); } c };
        let rel = |c: &Cursor| -> Option<isize> { match c { Cursor::BeginAligned(x) => if *x <= isize::MAX as usize { Some(*x as isize) } else { None }, Cursor::EndAligned(x) => if *x <= 0 && *x >= -len { Some(len + *x) } else { None } } };
        let mut offsets: Vec<Offset> = vec![Offset::new(Cursor::BeginAligned(usize::MAX), Cursor::BeginAligned(usize::MAX)), Offset::new(Cursor::BeginAligned(0), Cursor::BeginAligned(usize::MAX)), Offset::new(Cursor::EndAligned(isize::MIN), Cursor::EndAligned(0))];
        for bv in -(len + 3)..=(len + 6) { for ev in -(len + 3)..=(len + 6) { for bc in cursors(bv) { for ec in cursors(ev) { offsets.push(Offset::new(bc, ec)); } } } }
        for off in offsets {
            let want = match (rel(&off.begin), rel(&off.end)) { (Some(b), Some(e)) => 0 <= b && b <= e && e <= len, _ => false };
            let got = std::panic::catch_unwind(std::panic::AssertUnwindSafe(|| resource.absolute_offset(&off)));
            let bad = match &got { Ok(Ok(a)) => !want || a.begin != Cursor::BeginAligned(rel(&off.begin).unwrap() as usize) || a.end != Cursor::BeginAligned(rel(&off.end).unwrap() as usize), Ok(Err(_)) => want, Err(_) => true };
            if bad {
                println!("WITNESS {{\"clause\":\"Text::absolute_offset/accept_iff\",\"text_length\":{},\"offset\":\"{:?}\",\"result\":\"{:?}\",\"should_accept\":{}}}", len, off, got.map_err(|_| "panic"), want);
                return;
            }
        }
    }
    println!("NO-WITNESS find_relative_offsets");
}

/// clauses subselectors__merge / subselectors__resolve  (C01, C19): a complex selector over any sequence of up to 3 of 16 simple
/// targets (text selections of two resources created in a scrambled order, annotations with and without text, resources, a
/// dataset, a key, a data item) is accepted without a panic and indexed consistently; text and annotation parts come back exactly
#[test]
fn find_subselectors() {
    // (resource, begin, end) for text targets; annotation index for annotation targets
    #[derive(Clone, Copy, PartialEq, Debug)]
    enum T { Text(usize, usize, usize), Ann(usize), AnnText(usize), AnnSub(usize), Res(usize), Set, Key, Data }
    let texts: Vec<(usize, usize, usize)> = vec![(0, 4, 5), (0, 0, 1), (0, 1, 2), (1, 0, 1), (1, 1, 2), (1, 2, 3), (0, 2, 3)];
    let pool: Vec<T> = texts.iter().map(|(r, b, e)| T::Text(*r, *b, *e)).chain((0..3).map(T::Ann)).chain([T::AnnText(1), T::AnnText(2), T::AnnText(3), T::AnnSub(3), T::AnnSub(4), T::Res(0), T::Res(1), T::Set, T::Key, T::Data]).collect();
    let mut seqs: Vec<Vec<usize>> = vec![];
    let mut frontier: Vec<Vec<usize>> = vec![vec![]];
    for _ in 0..3 { let mut next = vec![]; for s in &frontier { for x in 0..pool.len() { if !s.contains(&x) { let mut t = s.clone(); t.push(x); next.push(t); } } } seqs.extend(next.clone()); frontier = next; }
    let rid = ["r0", "r1"];
    for kind in 0..3 { for seq in &seqs {
        if seq.len() < 2 { continue; }
        let mut store = AnnotationStore::default()
            .with_resource(TextResourceBuilder::new().with_id("r0").with_text("abcdefghij")).unwrap()
            .with_resource(TextResourceBuilder::new().with_id("r1").with_text("klmnopqrst")).unwrap()
            .with_dataset(AnnotationDataSetBuilder::new().with_id("d")).unwrap();
        // create the text selections first (annotations T0..T6 on them), so that their handles are fixed and not in text order
        for (k, (r, b, e)) in texts.iter().enumerate() { store.annotate(AnnotationBuilder::new().with_id(format!("T{}", k)).with_target(SelectorBuilder::textselector(rid[*r], Offset::simple(*b, *e))).with_data_with_id("d", "k", "v", "D0")).unwrap(); }
        let sb = |t: &T| match t { T::Text(r, b, e) => SelectorBuilder::textselector(rid[*r], Offset::simple(*b, *e)), T::Ann(i) => SelectorBuilder::annotationselector(format!("T{}", 2 * i), None),
            T::AnnText(i) => SelectorBuilder::annotationselector(format!("T{}", i), Some(Offset::whole())),
            // a sub-part (the zero-width begin) of the annotation's one-character text
            T::AnnSub(i) => SelectorBuilder::annotationselector(format!("T{}", i), Some(Offset::simple(0, 0))), T::Res(r) => SelectorBuilder::resourceselector(rid[*r]), T::Set => SelectorBuilder::datasetselector("d"),
            T::Key => SelectorBuilder::datakeyselector("d", "k"), T::Data => SelectorBuilder::annotationdataselector("d", "D0") };
        let subs: Vec<SelectorBuilder> = seq.iter().map(|i| sb(&pool[*i])).collect();
        let target = match kind { 0 => SelectorBuilder::multiselector(subs), 1 => SelectorBuilder::compositeselector(subs), _ => SelectorBuilder::directionalselector(subs) };
        let r = std::panic::catch_unwind(std::panic::AssertUnwindSafe(|| store.annotate(AnnotationBuilder::new().with_id("X").with_target(target).with_data("d", "k", "w"))));
        let problem = match r {
            Err(_) => Some("panic".to_string()),
            Ok(Err(e)) => Some(format!("rejected: {}", e)),
            Ok(Ok(_)) => {
                let x = store.annotation("X").unwrap();
                let mut got: Vec<String> = x.textselections().map(|t| format!("{}:{}-{}", t.resource().id().unwrap(), t.begin(), t.end())).collect();
                got.extend(x.annotations_in_targets(AnnotationDepth::One).map(|a| a.id().unwrap().to_string()));
                let mut want: Vec<String> = seq.iter().filter_map(|i| match pool[*i] { T::Text(r, b, e) => Some(format!("{}:{}-{}", rid[r], b, e)),
                    T::AnnText(i) => Some(format!("{}:{}-{}", rid[texts[i].0], texts[i].1, texts[i].2)), T::AnnSub(i) => Some(format!("{}:{}-{}", rid[texts[i].0], texts[i].1, texts[i].1)), _ => None }).collect();
                want.extend(seq.iter().filter_map(|i| match pool[*i] { T::Ann(i) => Some(format!("T{}", 2 * i)), T::AnnText(i) | T::AnnSub(i) => Some(format!("T{}", i)), _ => None }));
                got.sort(); want.sort(); got.dedup(); want.dedup();
                let plain = seq.iter().all(|i| matches!(pool[*i], T::Text(..) | T::Ann(_) | T::AnnText(_) | T::AnnSub(_)));
                // recursive lookups do not depend on whether the targeted annotations have consecutive handles (internal range compression):
                // the resources of X are those of its text parts and, through its annotation parts, of the annotations it targets
                let mut res_got: Vec<String> = x.resources().map(|r| r.id().unwrap().to_string()).collect();
                let mut res_want: Vec<String> = seq.iter().filter_map(|i| match pool[*i] { T::Text(r, _, _) => Some(rid[r].to_string()), T::Ann(i) => Some(rid[texts[2 * i].0].to_string()), T::AnnText(i) | T::AnnSub(i) => Some(rid[texts[i].0].to_string()), _ => None }).collect();
                res_got.sort(); res_got.dedup(); res_want.sort(); res_want.dedup();
                let mut deep_got: Vec<String> = x.annotations_in_targets(AnnotationDepth::Max).map(|a| a.id().unwrap().to_string()).collect();
                let mut deep_want: Vec<String> = seq.iter().filter_map(|i| match pool[*i] { T::Ann(i) => Some(format!("T{}", 2 * i)), T::AnnText(i) | T::AnnSub(i) => Some(format!("T{}", i)), _ => None }).collect();
                deep_got.sort(); deep_got.dedup(); deep_want.sort(); deep_want.dedup();
                if plain && (res_got != res_want || deep_got != deep_want) { Some(format!("recursive lookups: resources() {:?} (built with {:?}), annotations_in_targets(Max) {:?} (built with {:?})", res_got, res_want, deep_got, deep_want)) } else
                if plain && got != want { Some(format!("targets {:?}, built with {:?}", got, want)) } else { store_inconsistency(&store) }
            }
        };
        if let Some(msg) = problem {
            println!("WITNESS {{\"clause\":\"subselectors\",\"kind\":{},\"targets\":\"{:?}\",\"problem\":{:?}}}", kind, seq.iter().map(|i| pool[*i]).collect::<Vec<_>>(), msg);
            return;
        }
    }}
    println!("NO-WITNESS find_subselectors");
}

/// bounded stand-in for the string-search part of C07 (find_text, find_text_nocase, split_text, trim_text - functions whose
/// meaning is std's string search, outside the verifier's reach): on every sub-range of 6 short texts over 1-4 byte
/// codepoints, with 7 needles / delimiters, the result equals the plain string operation on that substring, at the
/// absolute codepoint offsets where the text occurs, in order and inside the range
#[test]
fn find_text_ops() {
    let texts = ["a b c d", "abab", "é €€ 𝄞 é", "xXxX", "  ab  ", "", "\u{130}\u{130}xab", "\u{212A}x b", "ΑΑΣ σας", "\u{130}\u{130}i ab"];
    let needles = ["a", "ab", " ", "€", "é", "X", "b c", "i", "k", "Σ", "ας", "\u{130}i"];
    for text in texts {
        let store = AnnotationStore::default().with_resource(TextResourceBuilder::new().with_id("r").with_text(text)).unwrap();
        let res = store.resource("r").unwrap();
        let chars: Vec<char> = text.chars().collect();
        let n = chars.len();
        for b in 0..=n { for e in b..=n {
            let sub: String = chars[b..e].iter().collect();
            let whole = b == 0 && e == n;
            let sel = if whole { None } else { match res.textselection(&Offset::simple(b, e)) { Ok(s) => Some(s), Err(_) => continue } };
            let charpos = |byte: usize| b + sub[..byte].chars().count();
            for needle in needles {
                // find_text: non-overlapping occurrences, left to right (str::match_indices)
                let want: Vec<(usize, usize)> = sub.match_indices(needle).map(|(i, m)| (charpos(i), charpos(i + m.len()))).collect();
                let got: Vec<(usize, usize)> = match &sel { None => res.find_text(needle).map(|t| (t.begin(), t.end())).collect(), Some(s) => s.find_text(needle).map(|t| (t.begin(), t.end())).collect() };
                if got != want { println!("WITNESS {{\"clause\":\"find_text\",\"text\":{:?},\"range\":\"{}..{}\",\"needle\":{:?},\"got\":\"{:?}\",\"want\":\"{:?}\"}}", text, b, e, needle, got, want); return; }
                // find_text_nocase: the occurrences of the lowercased needle in the lowercased text that begin and end on the boundary of an
                // original character (lower-casing may turn one character into several, or change its byte length), left to right, not overlapping
                {
                    let schars: Vec<char> = sub.chars().collect();
                    let mut low: Vec<(char, usize, bool)> = vec![];   // (lowercased char, index of the original char, first of its expansion)
                    // (character by character, independent of context: every form of the Greek sigma compares equal)
                    let fold = |c: char| -> Vec<char> { c.to_lowercase().map(|x| if x == 'ς' { 'σ' } else { x }).collect() };
                    for (i, c) in schars.iter().enumerate() { for (k, l) in fold(*c).into_iter().enumerate() { low.push((l, i, k == 0)); } }
                    let lneedle: Vec<char> = needle.chars().flat_map(|c| fold(c)).collect();
                    let mut want: Vec<(usize, usize)> = vec![];
                    let mut p = 0usize;
                    while !lneedle.is_empty() && p + lneedle.len() <= low.len() {
                        let hit = (0..lneedle.len()).all(|k| low[p + k].0 == lneedle[k]);
                        let q = p + lneedle.len();
                        if hit && low[p].2 && (q == low.len() || low[q].2) { want.push((b + low[p].1, b + if q == low.len() { schars.len() } else { low[q].1 })); p = q; } else { p += 1; }
                    }
                    let got = std::panic::catch_unwind(std::panic::AssertUnwindSafe(|| -> Vec<(usize, usize)> { match &sel { None => res.find_text_nocase(needle).map(|t| (t.begin(), t.end())).collect(), Some(s) => s.find_text_nocase(needle).map(|t| (t.begin(), t.end())).collect() } }));
                    if got.as_ref().ok() != Some(&want) { println!("WITNESS {{\"clause\":\"find_text_nocase\",\"text\":{:?},\"range\":\"{}..{}\",\"needle\":{:?},\"got\":\"{:?}\",\"want\":\"{:?}\"}}", text, b, e, needle, got.ok(), want); return; }
                }
                // split_text: consecutive pieces that, with the delimiters, cover the range
                let mut want = vec![]; let mut pos = b;
                for piece in sub.split(needle) { let l = piece.chars().count(); want.push((pos, pos + l)); pos += l + needle.chars().count(); }
                let got: Vec<(usize, usize)> = match &sel { None => res.split_text(needle).map(|t| (t.begin(), t.end())).collect(), Some(s) => s.split_text(needle).map(|t| (t.begin(), t.end())).collect() };
                if got != want { println!("WITNESS {{\"clause\":\"split_text\",\"text\":{:?},\"range\":\"{}..{}\",\"delimiter\":{:?},\"got\":\"{:?}\",\"want\":\"{:?}\"}}", text, b, e, needle, got, want); return; }
            }
            // find_text_regex with a literal pattern: the matches of the regex in the searched text, at absolute codepoint offsets
            for needle in needles {
                let re = regex::Regex::new(&regex::escape(needle)).unwrap();
                let want: Vec<(usize, usize)> = re.find_iter(&sub).map(|m| (charpos(m.start()), charpos(m.end()))).collect();
                let exprs = [re.clone()];
                let got = std::panic::catch_unwind(std::panic::AssertUnwindSafe(|| -> Vec<(usize, usize)> { match &sel {
                    None => res.find_text_regex(&exprs, None, true).unwrap().flat_map(|m| m.textselections().iter().map(|t| (t.begin(), t.end())).collect::<Vec<_>>()).collect(),
                    Some(s) => s.find_text_regex(&exprs, None, true).unwrap().flat_map(|m| m.textselections().iter().map(|t| (t.begin(), t.end())).collect::<Vec<_>>()).collect() } }));
                if got.as_ref().ok() != Some(&want) { println!("WITNESS {{\"clause\":\"find_text_regex\",\"text\":{:?},\"range\":\"{}..{}\",\"pattern\":{:?},\"got\":\"{:?}\",\"want\":\"{:?}\"}}", text, b, e, needle, got.ok(), want); return; }
            }
            // a pattern whose only capture group is optional: the group when it takes part in the match, the whole match otherwise
            {
                let re = regex::Regex::new("(a)?b").unwrap();
                let want: Vec<(usize, usize)> = re.captures_iter(&sub).map(|c| { let m = c.get(1).unwrap_or_else(|| c.get(0).unwrap()); (charpos(m.start()), charpos(m.end())) }).collect();
                let exprs = [re.clone()];
                let got = std::panic::catch_unwind(std::panic::AssertUnwindSafe(|| -> Vec<Vec<(usize, usize)>> { match &sel {
                    None => res.find_text_regex(&exprs, None, true).unwrap().map(|m| m.textselections().iter().map(|t| (t.begin(), t.end())).collect::<Vec<_>>()).collect(),
                    Some(s) => s.find_text_regex(&exprs, None, true).unwrap().map(|m| m.textselections().iter().map(|t| (t.begin(), t.end())).collect::<Vec<_>>()).collect() } }));
                let wantv: Vec<Vec<(usize, usize)>> = want.iter().map(|x| vec![*x]).collect();
                if got.as_ref().ok() != Some(&wantv) { println!("WITNESS {{\"clause\":\"find_text_regex\",\"text\":{:?},\"range\":\"{}..{}\",\"pattern\":\"(a)?b\",\"got\":\"{:?}\",\"want\":\"{:?}\"}}", text, b, e, got.ok(), wantv); return; }
            }
            // find_text_sequence: the fragments in order, from the beginning of the searched text, only skippable characters (spaces) in between
            for frags in [vec!["a", "b"], vec!["b", "c"], vec!["a", "b", "c"], vec!["b", "b"], vec!["€", "𝄞"], vec!["a"], vec!["x", "X"], vec!["a", "b", "a", "b"], vec!["a", "b", "c", "d"], vec!["x", "X", "x"]] {
                let mut pos = 0usize; let mut want: Option<Vec<(usize, usize)>> = Some(vec![]);
                for f in frags.iter() {
                    match sub[pos..].find(f) {
                        Some(i) if sub[pos..pos + i].chars().all(|c| c == ' ') => { want.as_mut().unwrap().push((charpos(pos + i), charpos(pos + i + f.len()))); pos = pos + i + f.len(); }
                        _ => { want = None; break; }
                    }
                }
                let got = std::panic::catch_unwind(std::panic::AssertUnwindSafe(|| match &sel { None => res.find_text_sequence(&frags, |c| c == ' ', true), Some(s) => s.find_text_sequence(&frags, |c| c == ' ', true) }.map(|v| v.iter().map(|t| (t.begin(), t.end())).collect::<Vec<_>>())));
                if got.as_ref().ok() != Some(&want) { println!("WITNESS {{\"clause\":\"find_text_sequence\",\"text\":{:?},\"range\":\"{}..{}\",\"fragments\":\"{:?}\",\"got\":\"{:?}\",\"want\":\"{:?}\"}}", text, b, e, frags, got.ok(), want); return; }
            }
            // trim_text
            for set in [vec![' '], vec!['a', ' '], vec!['é', 'x', 'X']] {
                let trimmed = sub.trim_matches(|c| set.contains(&c));
                let lead = sub.len() - sub.trim_start_matches(|c| set.contains(&c)).len();
                // (a text of trimmable characters only trims to an empty selection, as the plain string operation gives "")
                let want = if trimmed.is_empty() { None } else { Some((charpos(lead), charpos(lead) + trimmed.chars().count())) };
                let got = match &sel { None => res.trim_text(&set).ok().map(|t| (t.begin(), t.end())), Some(s) => s.trim_text(&set).ok().map(|t| (t.begin(), t.end())) };
                let ok = match (got, want) { (Some(g), Some(w)) => g == w, (Some((x, y)), None) => x == y && b <= x && y <= e, (None, _) => false };
                if !ok { println!("WITNESS {{\"clause\":\"trim_text\",\"text\":{:?},\"range\":\"{}..{}\",\"chars\":\"{:?}\",\"got\":\"{:?}\",\"want\":\"{:?}\"}}", text, b, e, set, got, want); return; }
            }
        }}
    }
    // AnnotationStore::find_text: every resource is searched from its beginning, in the order of the resources
    for order in [[0usize, 1, 2], [2, 1, 0], [1, 2, 0]] {
        let rtexts = ["To be or not to be", "so be it", "b"];
        let mut store = AnnotationStore::default();
        for i in order { store.add_resource(TextResourceBuilder::new().with_id(format!("r{}", i)).with_text(rtexts[i])).unwrap(); }
        for needle in ["be", "b", "it", "o"] {
            let mut want: Vec<(String, usize, usize)> = vec![];
            for i in order { for (p, m) in rtexts[i].match_indices(needle) { want.push((format!("r{}", i), p, p + m.len())); } }
            let got: Vec<(String, usize, usize)> = store.find_text(needle).map(|t| (t.resource().id().unwrap().to_string(), t.begin(), t.end())).collect();
            if got != want { println!("WITNESS {{\"clause\":\"AnnotationStore::find_text\",\"resources\":\"{:?}\",\"needle\":{:?},\"got\":\"{:?}\",\"want\":\"{:?}\"}}", order.iter().map(|i| rtexts[*i]).collect::<Vec<_>>(), needle, got, want); return; }
        }
    }
    println!("NO-WITNESS find_text_ops");
}

/// bounded stand-in for the query engine part of C08 (QueryIter: boxed iterator plumbing outside the verifier's reach): over the
/// 12-annotation store, for 9 constraints: a query with two constraints returns the intersection of the two single-constraint
/// results whichever is written first; a disjunction returns the union without duplicates; LIMIT n returns the first n
#[test]
fn find_query_semantics() {
    let store = consistency_base(Config::default());
    let known = known_keys("find_query_semantics");
    let constraints = [
        "DATA \"d0\" \"k0\" = \"x\"", "DATA \"d0\" \"k0\"", "DATA \"d1\" \"k0\" = \"x\"", "DATA \"d0\" \"k1\"", "RESOURCE \"r0\"", "RESOURCE \"r1\"",
        "TEXT \"hello\"", "DATASET \"d0\"", "DATA \"d0\" \"k2\" = \"n\"",
    ];
    let run = |q: &str| -> Result<Vec<String>, String> {
        let query: Query = q.try_into().map_err(|e: StamError| format!("parse: {}", e))?;
        let iter = store.query(query).map_err(|e| format!("query: {}", e))?;
        let mut out = vec![];
        for results in iter { for r in results.iter() { if let QueryResultItem::Annotation(a) = r { out.push(a.id().unwrap_or("?").to_string()); } } }
        Ok(out)
    };
    let mut single: Vec<Option<Vec<String>>> = vec![];
    for c in constraints {
        let r = std::panic::catch_unwind(std::panic::AssertUnwindSafe(|| run(&format!("SELECT ANNOTATION ?a WHERE {};", c))));
        match r {
            Err(_) => { println!("WITNESS {{\"clause\":\"query\",\"query\":{:?},\"problem\":\"panic\"}}", c); return; }
            Ok(Err(_)) => single.push(None),
            Ok(Ok(v)) => { let mut s = v.clone(); s.sort(); s.dedup(); if s.len() != v.len() { println!("WITNESS {{\"clause\":\"query returns an item twice\",\"query\":{:?},\"got\":\"{:?}\"}}", c, v); return; } single.push(Some(s)); }
        }
    }
    for i in 0..constraints.len() { for j in 0..constraints.len() {
        if i == j { continue; }
        let (a, b) = match (&single[i], &single[j]) { (Some(a), Some(b)) => (a, b), _ => continue };
        let q = format!("SELECT ANNOTATION ?a WHERE {}; {};", constraints[i], constraints[j]);
        let want: Vec<String> = a.iter().filter(|x| b.contains(x)).cloned().collect();
        match std::panic::catch_unwind(std::panic::AssertUnwindSafe(|| run(&q))) {
            Err(_) => { println!("WITNESS {{\"clause\":\"query\",\"query\":{:?},\"problem\":\"panic\"}}", q); return; }
            Ok(Err(e)) => { println!("WITNESS {{\"clause\":\"query\",\"query\":{:?},\"problem\":{:?}}}", q, e); return; }
            Ok(Ok(mut got)) => { let n = got.len(); got.sort(); got.dedup(); if got != want || n != got.len() {
                // (K2 is identified by its call site: a RESOURCE constraint in a later position is a filter on Annotation::resources() and accepts
                // annotations that RESOURCE as the first constraint does not return; the key names the constraint and the extra annotations)
                let extras: Vec<&String> = got.iter().filter(|x| !want.contains(x)).collect();
                let key = if constraints[j].starts_with("RESOURCE") && want.iter().all(|x| got.contains(x)) { format!("{} as a later constraint also accepts {:?}", constraints[j], extras).replace('"', "'") } else { q.replace('"', "'") };
                if known.contains(&key) { println!("KNOWN {}", key); } else { println!("WITNESS {{\"clause\":\"conjunction = intersection, in either order\",\"query\":{:?},\"got\":\"{:?}\",\"want\":\"{:?}\"}}", q, got, want); return; }
            } }
        }
        if i < j {
            let q = format!("SELECT ANNOTATION ?a WHERE [ {} OR {} ];", constraints[i], constraints[j]);
            let mut want: Vec<String> = a.iter().chain(b.iter()).cloned().collect(); want.sort(); want.dedup();
            match std::panic::catch_unwind(std::panic::AssertUnwindSafe(|| run(&q))) {
                Err(_) => { println!("WITNESS {{\"clause\":\"query\",\"query\":{:?},\"problem\":\"panic\"}}", q); return; }
                Ok(Err(_)) => {}
                Ok(Ok(mut got)) => { let n = got.len(); got.sort(); got.dedup(); if got != want || n != got.len() { println!("WITNESS {{\"clause\":\"disjunction = union without duplicates\",\"query\":{:?},\"got\":\"{:?}\",\"want\":\"{:?}\",\"returned\":{}}}", q, got, want, n); return; } }
            }
        }
    }}
    for (i, c) in constraints.iter().enumerate() {
        let full = match run(&format!("SELECT ANNOTATION ?a WHERE {};", c)) { Ok(v) => v, Err(_) => continue };
        let _ = i;
        for n in 1..=3usize {
            let q = format!("SELECT ANNOTATION ?a WHERE {}; LIMIT {};", c, n);
            if let Ok(got) = run(&q) { let want: Vec<String> = full.iter().take(n).cloned().collect(); if got != want { println!("WITNESS {{\"clause\":\"LIMIT = prefix of the unlimited results\",\"query\":{:?},\"got\":\"{:?}\",\"want\":\"{:?}\"}}", q, got, want); return; } }
        }
    }
    // sub-queries behave as nested iteration over the outer results: for every outer constraint and every inner constraint, the rows are
    // (outer item, inner item) for the inner items that hold for that outer item; an OPTIONAL sub-query that yields nothing for an outer item
    // still returns that outer item (once, without the inner variable)
    let rows = |q: &str| -> Result<Vec<Vec<String>>, String> {
        let query: Query = q.try_into().map_err(|e: StamError| format!("parse: {}", e))?;
        let iter = store.query(query).map_err(|e| format!("query: {}", e))?;
        let mut out = vec![];
        for results in iter { let mut row = vec![]; for r in results.iter() { if let QueryResultItem::Annotation(a) = r { row.push(a.id().unwrap_or("?").to_string()); } } out.push(row); }
        Ok(out)
    };
    for outer in ["DATA \"d0\" \"k0\"", "DATASET \"d0\"", "RESOURCE \"r0\""] {
        let outer_items = match run(&format!("SELECT ANNOTATION ?a WHERE {};", outer)) { Ok(v) => v, Err(_) => continue };
        for (inner, optional) in [("DATA \"d0\" \"k0\" = \"no-such-value\"", true), ("DATA \"d0\" \"k0\" = \"no-such-value\"", false)] {
            let q = format!("SELECT ANNOTATION ?a WHERE {}; {{ SELECT {}ANNOTATION ?b WHERE ANNOTATION ?a; {}; }}", outer, if optional { "OPTIONAL " } else { "" }, inner);
            let want: Vec<Vec<String>> = if optional { outer_items.iter().map(|x| vec![x.clone()]).collect() } else { vec![] };
            match std::panic::catch_unwind(std::panic::AssertUnwindSafe(|| rows(&q))) {
                Err(_) => { println!("WITNESS {{\"clause\":\"query\",\"query\":{:?},\"problem\":\"panic\"}}", q); return; }
                Ok(Err(_)) => {}
                Ok(Ok(got)) => if got != want {
                    // (K4 is identified by its call site: after an OPTIONAL sub-query came up empty the outer iteration is dropped)
                    let key = if optional && !got.is_empty() && got.len() < want.len() && got[..] == want[..got.len()] { "an OPTIONAL sub-query without results ends the outer iteration".to_string() } else { q.replace('"', "'") };
                    if known.contains(&key) { println!("KNOWN {}", key); } else { println!("WITNESS {{\"clause\":\"sub-queries are nested iteration; OPTIONAL keeps every outer row\",\"query\":{:?},\"got\":\"{:?}\",\"want\":\"{:?}\"}}", q, got, want); return; }
                },
            }
        }
    }
    // ---- "the same query given as STAMQL text, built programmatically, or expressed through the iterator API gives the same answer":
    //      value tests with typed literals against a scan with the corresponding DataOperator, over two datasets whose keys and data
    //      share handle numbers; SELECT KEY / SELECT DATA across datasets; ADD stores what the direct call stores
    {
        let mut st = AnnotationStore::default().with_resource(TextResourceBuilder::new().with_id("r").with_text("Hello wonderful world")).unwrap();
        let vals: Vec<DataValue> = vec![DataValue::Int(5), DataValue::Float(0.75), DataValue::String("true".into()), DataValue::Bool(true), DataValue::String("any".into()), DataValue::String("x".into()), DataValue::Float(5.5), DataValue::Int(0), DataValue::String("null".into()), DataValue::Null];
        for (i, v) in vals.iter().enumerate() {
            st.annotate(AnnotationBuilder::new().with_id(format!("V{}", i)).with_target(SelectorBuilder::textselector("r", Offset::simple(i, i + 1))).with_data("A", "n", v.clone())).unwrap();
        }
        st.annotate(AnnotationBuilder::new().with_id("W0").with_target(SelectorBuilder::textselector("r", Offset::simple(0, 5))).with_data("B", "m", "y").with_data("A", "n", 5)).unwrap();
        let ids = |q: &str| -> Result<Vec<String>, String> {
            let query: Query = q.try_into().map_err(|e: StamError| format!("parse: {}", e))?;
            let iter = st.query(query).map_err(|e| format!("query: {}", e))?;
            let mut out = vec![];
            for results in iter { for r in results.iter() { match r {
                QueryResultItem::Annotation(a) => out.push(a.id().unwrap_or("?").to_string()),
                QueryResultItem::DataKey(k) => out.push(format!("{}/{}", k.set().id().unwrap_or("?"), k.as_str())),
                QueryResultItem::AnnotationData(d) => out.push(format!("{}/{}={}", d.set().id().unwrap_or("?"), d.key().as_str(), d.value())),
                _ => {} } } }
            out.sort();
            Ok(out)
        };
        let scan = |op: DataOperator| -> Vec<String> { let mut v: Vec<String> = st.annotations().filter(|a| a.data().any(|d| d.set().id() == Some("A") && d.key().as_str() == "n" && d.value().test(&op))).map(|a| a.id().unwrap().to_string()).collect(); v.sort(); v };
        let cases: Vec<(&str, DataOperator)> = vec![
            ("= 5", DataOperator::EqualsInt(5)), ("> 0.5", DataOperator::GreaterThanFloat(0.5)), ("< 0.8", DataOperator::LessThanFloat(0.8)), (">= 5.5", DataOperator::GreaterThanOrEqualFloat(5.5)),
            ("= 0.75", DataOperator::EqualsFloat(0.75)), ("> 3", DataOperator::GreaterThan(3)), ("= \"true\"", DataOperator::Equals("true".into())), ("= \"any\"", DataOperator::Equals("any".into())),
            ("= \"null\"", DataOperator::Equals("null".into())), ("= \"x\"", DataOperator::Equals("x".into())), ("= \"5\"", DataOperator::Equals("5".into())),
        ];
        for (lit, op) in cases {
            let q = format!("SELECT ANNOTATION ?a WHERE DATA \"A\" \"n\" {};", lit);
            let want = scan(op.clone());
            match std::panic::catch_unwind(std::panic::AssertUnwindSafe(|| ids(&q))) {
                Err(_) => { println!("WITNESS {{\"clause\":\"query\",\"query\":{:?},\"problem\":\"panic\"}}", q); return; }
                Ok(got) => if got.as_ref().ok() != Some(&want) { println!("WITNESS {{\"clause\":\"STAMQL text = the programmatic value test\",\"query\":{:?},\"got\":\"{:?}\",\"scan_with\":\"{:?}\",\"want\":\"{:?}\"}}", q, got, op, want); return; }
            }
        }
        let all_keys: Vec<String> = { let mut v: Vec<String> = st.datasets().flat_map(|s| s.keys().map(|k| format!("{}/{}", k.set().id().unwrap(), k.as_str())).collect::<Vec<_>>()).collect(); v.sort(); v };
        let got = std::panic::catch_unwind(std::panic::AssertUnwindSafe(|| ids("SELECT KEY ?k")));
        if got.as_ref().ok().and_then(|r| r.as_ref().ok()) != Some(&all_keys) { println!("WITNESS {{\"clause\":\"SELECT KEY returns the keys of every dataset\",\"got\":\"{:?}\",\"want\":\"{:?}\"}}", got.ok(), all_keys); return; }
        let mut api_keys: Vec<String> = st.keys().map(|k| format!("{}/{}", k.set().id().unwrap(), k.as_str())).collect(); api_keys.sort();
        if api_keys != all_keys { println!("WITNESS {{\"clause\":\"AnnotationStore::keys returns the keys of every dataset\",\"got\":\"{:?}\",\"want\":\"{:?}\"}}", api_keys, all_keys); return; }
        let mut w0: Vec<String> = st.annotation("W0").unwrap().keys().map(|k| format!("{}/{}", k.set().id().unwrap(), k.as_str())).collect(); w0.sort();
        if w0 != vec!["A/n".to_string(), "B/m".to_string()] { println!("WITNESS {{\"clause\":\"annotation.keys() lists the keys of all its data\",\"got\":\"{:?}\",\"want\":\"[A/n, B/m]\"}}", w0); return; }
        // the two orders of a DATA and an ANNOTATION constraint in SELECT DATA
        let q1 = "SELECT ANNOTATION ?a WHERE ID \"W0\"; { SELECT DATA ?d WHERE ANNOTATION ?a; DATA \"A\" \"n\" > 0; }";
        let q2 = "SELECT ANNOTATION ?a WHERE ID \"W0\"; { SELECT DATA ?d WHERE DATA \"A\" \"n\" > 0; ANNOTATION ?a; }";
        let (r1, r2) = (std::panic::catch_unwind(std::panic::AssertUnwindSafe(|| ids(q1))), std::panic::catch_unwind(std::panic::AssertUnwindSafe(|| ids(q2))));
        match (&r1, &r2) {
            (Ok(Ok(a)), Ok(Ok(b))) if a == b && a.contains(&"A/n=5".to_string()) => {}
            _ => { println!("WITNESS {{\"clause\":\"conjunction = intersection, in either order (SELECT DATA)\",\"query\":{:?},\"first_order\":\"{:?}\",\"second_order\":\"{:?}\"}}", q2, r1.map_err(|_| "panic"), r2.map_err(|_| "panic")); return; }
        }
        // ADD stores what the direct call stores
        for (lit, want) in [("7", DataValue::Int(7)), ("7.5", DataValue::Float(7.5)), ("\"seven\"", DataValue::String("seven".into())), ("null", DataValue::Null), ("\"a|b\"", DataValue::String("a|b".into()))] {
            let mut st2 = AnnotationStore::default().with_resource(TextResourceBuilder::new().with_id("r").with_text("Hello world")).unwrap();
            let qs = format!("ADD ANNOTATION ?a WITH DATA \"A\" \"k\" {}; TARGET ?t; {{ SELECT TEXT ?t WHERE RESOURCE \"r\" OFFSET 0 5; }}", lit);
            let got = std::panic::catch_unwind(std::panic::AssertUnwindSafe(|| -> Result<Option<DataValue>, String> {
                let query: Query = qs.as_str().try_into().map_err(|e: StamError| format!("parse: {}", e))?;
                let mut value = None;
                for results in st2.query_mut(query).map_err(|e| format!("query: {}", e))? { if let Ok(QueryResultItem::Annotation(a)) = results.get_by_name("a") { value = a.data().next().map(|d| d.value().clone()); } }
                Ok(value) }));
            if got.as_ref().ok() != Some(&Ok(Some(want.clone()))) { println!("WITNESS {{\"clause\":\"ADD stores what the direct call stores\",\"query\":{:?},\"stored\":\"{:?}\",\"want\":\"{:?}\"}}", qs, got.map_err(|_| "panic"), want); return; }
        }
    }
    // ---- SELECT RESOURCE: data on the text of a resource and data on the resource itself (AS METADATA) are different constraints;
    //      a conjunction is the intersection of its parts in either order, and a constraint written twice is the constraint
    {
        let mut st = AnnotationStore::default();
        for r in ["book", "memo", "note"] { st.add_resource(TextResourceBuilder::new().with_id(r).with_text("some text here")).unwrap(); }
        // book: genre on the resource itself; memo: genre on its text; note: both; lang likewise the other way round
        st.annotate(AnnotationBuilder::new().with_target(SelectorBuilder::resourceselector("book")).with_data("set", "genre", "novel")).unwrap();
        st.annotate(AnnotationBuilder::new().with_target(SelectorBuilder::textselector("memo", Offset::simple(0, 4))).with_data("set", "genre", "novel")).unwrap();
        st.annotate(AnnotationBuilder::new().with_target(SelectorBuilder::resourceselector("note")).with_data("set", "genre", "novel")).unwrap();
        st.annotate(AnnotationBuilder::new().with_target(SelectorBuilder::textselector("note", Offset::simple(0, 4))).with_data("set", "genre", "novel")).unwrap();
        st.annotate(AnnotationBuilder::new().with_target(SelectorBuilder::textselector("book", Offset::simple(5, 9))).with_data("set", "lang", "en")).unwrap();
        st.annotate(AnnotationBuilder::new().with_target(SelectorBuilder::resourceselector("memo")).with_data("set", "lang", "en")).unwrap();
        let resources = |q: &str| -> Result<Vec<String>, String> {
            let query: Query = q.try_into().map_err(|e: StamError| format!("parse: {}", e))?;
            let iter = st.query(query).map_err(|e| format!("query: {}", e))?;
            let mut out = vec![];
            for results in iter { for r in results.iter() { if let QueryResultItem::TextResource(x) = r { out.push(x.id().unwrap_or("?").to_string()); } } }
            out.sort(); out.dedup();
            Ok(out)
        };
        let cs = ["DATA AS METADATA set genre = novel", "DATA set genre = novel", "DATA AS METADATA set lang = en", "DATA set lang = en"];
        let singles: Vec<Option<Vec<String>>> = cs.iter().map(|c| std::panic::catch_unwind(std::panic::AssertUnwindSafe(|| resources(&format!("SELECT RESOURCE ?r WHERE {};", c)))).ok().and_then(|r| r.ok())).collect();
        // the scan: which resources carry the data on themselves / on their text
        let scan = |key: &str, val: &str, meta: bool| -> Vec<String> { let mut v: Vec<String> = st.resources().filter(|r| { let anns: Vec<_> = if meta { r.annotations_as_metadata().collect() } else { r.annotations().collect() }; anns.iter().any(|a| a.data().any(|d| d.key().as_str() == key && d.value().to_string() == val)) }).map(|r| r.id().unwrap().to_string()).collect(); v.sort(); v };
        let wants = [scan("genre", "novel", true), scan("genre", "novel", false), scan("lang", "en", true), scan("lang", "en", false)];
        for i in 0..cs.len() {
            if singles[i].as_ref() != Some(&wants[i]) { println!("WITNESS {{\"clause\":\"SELECT RESOURCE = a scan\",\"query\":{:?},\"got\":\"{:?}\",\"want\":\"{:?}\"}}", cs[i], singles[i], wants[i]); return; }
        }
        for i in 0..cs.len() { for j in 0..cs.len() {
            let q = format!("SELECT RESOURCE ?r WHERE {}; {};", cs[i], cs[j]);
            let want: Vec<String> = wants[i].iter().filter(|x| wants[j].contains(x)).cloned().collect();
            match std::panic::catch_unwind(std::panic::AssertUnwindSafe(|| resources(&q))) {
                Ok(Ok(got)) if got == want => {}
                other => { println!("WITNESS {{\"clause\":\"conjunction = intersection, in either order (SELECT RESOURCE)\",\"query\":{:?},\"got\":\"{:?}\",\"want\":\"{:?}\"}}", q, other.map_err(|_| "panic"), want); return; }
            }
        }}
    }
    // ---- every result type x every kind of constraint in a LATER position: when the constraint on its own is answered, and the
    //      intersection with the first constraint is not empty, the conjunction must not come back empty (a constraint kind that is
    //      not evaluated in a later position makes the whole query return nothing: the error is printed and swallowed)
    {
        let mut st = AnnotationStore::default();
        for r in ["book", "memo", "note"] { st.add_resource(TextResourceBuilder::new().with_id(r).with_text("some text here")).unwrap(); }
        st.annotate(AnnotationBuilder::new().with_id("a1").with_target(SelectorBuilder::resourceselector("book")).with_data("set", "genre", "novel")).unwrap();
        st.annotate(AnnotationBuilder::new().with_id("a2").with_target(SelectorBuilder::textselector("memo", Offset::simple(0, 4))).with_data("set", "genre", "novel")).unwrap();
        st.annotate(AnnotationBuilder::new().with_id("a3").with_target(SelectorBuilder::resourceselector("note")).with_data("set", "genre", "novel")).unwrap();
        st.annotate(AnnotationBuilder::new().with_id("a4").with_target(SelectorBuilder::textselector("note", Offset::simple(0, 4))).with_data("set", "genre", "novel").with_data("set2", "n", 5)).unwrap();
        st.annotate(AnnotationBuilder::new().with_id("a5").with_target(SelectorBuilder::textselector("book", Offset::simple(5, 9))).with_data("set", "lang", "en")).unwrap();
        st.annotate(AnnotationBuilder::new().with_id("a6").with_target(SelectorBuilder::annotationselector("a4", None)).with_data("set", "lang", "en")).unwrap();
        st.annotate(AnnotationBuilder::new().with_id("a7").with_target(SelectorBuilder::datasetselector("set")).with_data("set2", "n", 6)).unwrap();
        let items = |q: &str| -> Result<Vec<String>, String> {
            match std::panic::catch_unwind(std::panic::AssertUnwindSafe(|| -> Result<Vec<String>, String> {
                let query: Query = q.try_into().map_err(|e: StamError| format!("parse: {}", e))?;
                let mut out = vec![];
                for results in st.query(query).map_err(|e| format!("query: {}", e))? { for r in results.iter() { out.push(match r {
                    QueryResultItem::TextResource(x) => x.id().unwrap_or("?").to_string(), QueryResultItem::Annotation(x) => x.id().unwrap_or("?").to_string(),
                    QueryResultItem::AnnotationData(d) => format!("{}/{}={}", d.set().id().unwrap_or("?"), d.key().as_str(), d.value()), QueryResultItem::DataKey(k) => format!("{}/{}", k.set().id().unwrap_or("?"), k.as_str()),
                    QueryResultItem::AnnotationDataSet(x) => x.id().unwrap_or("?").to_string(), QueryResultItem::TextSelection(t) => format!("{}:{}-{}", t.resource().id().unwrap_or("?"), t.begin(), t.end()), _ => "?".to_string() }); } }
                out.sort(); out.dedup(); Ok(out) })) { Ok(x) => x, Err(_) => Err("PANIC".to_string()) } };
        let cs: [(&str, &str); 10] = [("DATA set genre = novel", "DATA key = value"), ("DATA AS METADATA set genre = novel", "DATA AS METADATA key = value"), ("DATA set2 n > 4", "DATA key = value"), ("DATA set genre", "DATA key"),
            ("RESOURCE note", "RESOURCE"), ("DATASET set", "DATASET"), ("DATASET set2", "DATASET"), ("ID a4", "ID"), ("TEXT \"some\"", "TEXT"), ("ANNOTATION a4", "ANNOTATION")];
        let mut problems: Vec<(String, String)> = vec![];
        for t in ["ANNOTATION", "TEXT", "RESOURCE", "DATA", "KEY", "DATASET"] {
            let singles: Vec<Result<Vec<String>, String>> = cs.iter().map(|(c, _)| items(&format!("SELECT {} ?x WHERE {};", t, c))).collect();
            for (i, (c, _)) in cs.iter().enumerate() { for (j, (d, kind)) in cs.iter().enumerate() {
                let (a, b) = match (&singles[i], &singles[j]) { (Ok(a), Ok(b)) => (a, b), (Err(e), _) | (_, Err(e)) => { if e == "PANIC" { println!("WITNESS {{\"clause\":\"query\",\"query\":\"SELECT {} .. {} / {}\",\"problem\":\"panic\"}}", t, c, d); return; } continue } };
                let want: Vec<String> = a.iter().filter(|x| b.contains(x)).cloned().collect();
                if want.is_empty() { continue; }
                let q = format!("SELECT {} ?x WHERE {}; {};", t, c, d);
                match items(&q) {
                    Err(e) if e == "PANIC" => { println!("WITNESS {{\"clause\":\"query\",\"query\":{:?},\"problem\":\"panic\"}}", q); return; }
                    Ok(got) if !got.is_empty() => {}
                    other => { let key = format!("SELECT {}: a {} constraint in a later position returns nothing", t, kind); if !problems.iter().any(|(k, _)| *k == key) { problems.push((key, format!("{} -> {:?}, the two constraints on their own share {:?}", q, other, want))); } }
                }
            }}
        }
        if std::env::var("VX_LIST_PROBLEMS").is_ok() { for (k, w) in &problems { println!("PROBLEM {} :: {}", k, w); } }
        for (key, what) in problems {
            if known.contains(&key) { println!("KNOWN {}", key); } else { println!("WITNESS {{\"clause\":\"conjunction = intersection, whatever the position of a constraint\",\"problem\":{:?},\"observed\":{:?}}}", key, what); return; }
        }
    }
    println!("NO-WITNESS find_query_semantics");
}

/// bounded stand-in for the data-search part of C10 (DataValue::test and find_data: string parsing, floats and boxed iterators are
/// outside the verifier's reach): 13 values of five types under two keys, 19 operators: test() agrees with the documented
/// comparison semantics (written out independently below) and find_data by key, by value and by both returns exactly the items
/// a full scan selects
#[test]
fn find_data_search() {
    let mk_values = || -> Vec<DataValue> { vec![DataValue::Null, DataValue::Bool(true), DataValue::Bool(false), DataValue::Int(-1), DataValue::Int(0), DataValue::Int(5),
        DataValue::Float(0.5), DataValue::Float(5.0), DataValue::String("5".into()), DataValue::String("x".into()), DataValue::String("true".into()), DataValue::String("".into()), DataValue::String("5.0".into())] };
    let mk_ops = || -> Vec<(&'static str, DataOperator<'static>)> { vec![
        ("Any", DataOperator::Any), ("Null", DataOperator::Null), ("True", DataOperator::True), ("False", DataOperator::False),
        ("Equals 5", DataOperator::Equals("5".into())), ("Equals x", DataOperator::Equals("x".into())), ("Equals true", DataOperator::Equals("true".into())), ("Equals 5.0", DataOperator::Equals("5.0".into())), ("Equals on", DataOperator::Equals("on".into())), ("Equals YES", DataOperator::Equals("YES".into())), ("Equals off", DataOperator::Equals("off".into())),
        ("EqualsInt 5", DataOperator::EqualsInt(5)), ("GreaterThan 0", DataOperator::GreaterThan(0)), ("GreaterThanOrEqual 5", DataOperator::GreaterThanOrEqual(5)), ("LessThan 5", DataOperator::LessThan(5)), ("LessThanOrEqual 0", DataOperator::LessThanOrEqual(0)),
        ("EqualsFloat 5.0", DataOperator::EqualsFloat(5.0)), ("GreaterThanFloat 0.4", DataOperator::GreaterThanFloat(0.4)), ("LessThanFloat 5.0", DataOperator::LessThanFloat(5.0)),
        ("Not EqualsInt 5", DataOperator::Not(Box::new(DataOperator::EqualsInt(5)))),
        ("And GreaterThan -2, LessThan 5", DataOperator::And(vec![DataOperator::GreaterThan(-2), DataOperator::LessThan(5)])),
        ("Or EqualsInt 0, Equals x", DataOperator::Or(vec![DataOperator::EqualsInt(0), DataOperator::Equals("x".into())])),
    ] };
    // the documented semantics, written out independently of DataValue::test
    fn oracle(v: &DataValue, name: &str) -> bool {
        let int = |v: &DataValue| if let DataValue::Int(n) = v { Some(*n) } else { None };
        let flt = |v: &DataValue| if let DataValue::Float(n) = v { Some(*n) } else { None };
        // the ordering operators are documented for any numeric value ("the datavalue must be numeric and greater than ..")
        let num = |v: &DataValue| match v { DataValue::Int(n) => Some(*n as f64), DataValue::Float(n) => Some(*n), _ => None };
        let eq_str = |v: &DataValue, s: &str| match v {
            DataValue::String(x) => x == s,
            DataValue::Int(n) => s.parse::<isize>().map(|m| m == *n).unwrap_or(false),
            DataValue::Float(f) => s.parse::<f64>().map(|m| m == *f).unwrap_or(false),
            DataValue::Bool(b) => ["yes", "1", "enable", "enabled", "on", "true"].contains(&s.to_lowercase().as_str()) == *b,
            _ => false };
        match name {
            "Any" => true, "Null" => matches!(v, DataValue::Null), "True" => matches!(v, DataValue::Bool(true)), "False" => matches!(v, DataValue::Bool(false)),
            "Equals 5" => eq_str(v, "5"), "Equals x" => eq_str(v, "x"), "Equals true" => eq_str(v, "true"), "Equals 5.0" => eq_str(v, "5.0"), "Equals on" => eq_str(v, "on"), "Equals YES" => eq_str(v, "YES"), "Equals off" => eq_str(v, "off"),
            "EqualsInt 5" => int(v) == Some(5), "GreaterThan 0" => num(v).map(|n| n > 0.0).unwrap_or(false), "GreaterThanOrEqual 5" => num(v).map(|n| n >= 5.0).unwrap_or(false),
            "LessThan 5" => num(v).map(|n| n < 5.0).unwrap_or(false), "LessThanOrEqual 0" => num(v).map(|n| n <= 0.0).unwrap_or(false),
            "EqualsFloat 5.0" => flt(v) == Some(5.0), "GreaterThanFloat 0.4" => num(v).map(|n| n > 0.4).unwrap_or(false), "LessThanFloat 5.0" => num(v).map(|n| n < 5.0).unwrap_or(false),
            "Not EqualsInt 5" => int(v) != Some(5),
            "And GreaterThan -2, LessThan 5" => num(v).map(|n| n > -2.0 && n < 5.0).unwrap_or(false),
            "Or EqualsInt 0, Equals x" => int(v) == Some(0) || eq_str(v, "x"),
            _ => unreachable!() }
    }
    let mut store = AnnotationStore::default().with_dataset(AnnotationDataSetBuilder::new().with_id("d")).unwrap();
    {
        let ds: &mut AnnotationDataSet = store.get_mut("d").unwrap();
        for key in ["k0", "k1"] { for v in mk_values() { ds.insert_data(BuildItem::None, key, v, true).unwrap(); } }
        // the vocabulary is deduplicated by exact value: the 13 values are pairwise different (5, 5.0, "5" and "5.0" are four values),
        // and adding each once more without an id reuses the item
        let n = mk_values().len();
        if ds.data().count() != 2 * n { println!("WITNESS {{\"clause\":\"insert_data deduplicates by exact value\",\"values\":{},\"keys\":2,\"data_items\":{}}}", n, ds.data().count()); return; }
        for key in ["k0", "k1"] { for v in mk_values() { let before = ds.data().count(); let h = ds.insert_data(BuildItem::None, key, v.clone(), true).unwrap();
            let item: &AnnotationData = ds.get(h).unwrap();
            if ds.data().count() != before || item.value() != &v { println!("WITNESS {{\"clause\":\"insert_data deduplicates by exact value\",\"key\":{:?},\"value\":\"{:?}\",\"returned_item_has\":\"{:?}\",\"items_before\":{},\"items_after\":{}}}", key, v, item.value(), before, ds.data().count()); return; } } }
    }
    let values = mk_values();
    for (name, op) in mk_ops() {
        for v in &values {
            if v.test(&op) != oracle(v, name) { println!("WITNESS {{\"clause\":\"DataValue::test\",\"value\":\"{:?}\",\"operator\":{:?},\"test\":{},\"documented\":{}}}", v, name, v.test(&op), oracle(v, name)); return; }
        }
    }
    let dataset = store.dataset("d").unwrap();
    // (a key that does not exist selects nothing)
    for key in ["k0", "k1", "no-such-key"] { for (name, op) in mk_ops() {
        let want: Vec<String> = dataset.data().filter(|d| d.key().as_str() == key && oracle(d.value(), name)).map(|d| format!("{:?}", d.handle())).collect();
        let got: Vec<String> = dataset.find_data(key, op.clone()).map(|d| format!("{:?}", d.handle())).collect();
        let mut g = got.clone(); g.sort(); let mut w = want.clone(); w.sort();
        if g != w || got.len() != { let mut x = got.clone(); x.sort(); x.dedup(); x.len() } { println!("WITNESS {{\"clause\":\"find_data(key, operator) = scan\",\"key\":{:?},\"operator\":{:?},\"got\":\"{:?}\",\"want\":\"{:?}\"}}", key, name, got, want); return; }
        let got2: Vec<String> = store.find_data("d", key, op).map(|d| format!("{:?}", d.handle())).collect();
        let mut g2 = got2.clone(); g2.sort();
        if g2 != w { println!("WITNESS {{\"clause\":\"AnnotationStore::find_data = scan\",\"key\":{:?},\"operator\":{:?},\"got\":\"{:?}\",\"want\":\"{:?}\"}}", key, name, got2, want); return; }
    }}
    for (name, op) in mk_ops() {
        let mut want: Vec<String> = dataset.data().filter(|d| oracle(d.value(), name)).map(|d| format!("{:?}", d.handle())).collect(); want.sort();
        let mut got: Vec<String> = dataset.find_data(false, op).map(|d| format!("{:?}", d.handle())).collect(); got.sort();
        if got != want { println!("WITNESS {{\"clause\":\"find_data(any key, operator) = scan\",\"operator\":{:?},\"got\":\"{:?}\",\"want\":\"{:?}\"}}", name, got, want); return; }
    }
    // ---- keys and data of different datasets stay distinct although every dataset numbers them from 0
    {
        let mut st = AnnotationStore::default().with_resource(TextResourceBuilder::new().with_id("r").with_text("Hello world")).unwrap();
        st.annotate(AnnotationBuilder::new().with_id("a").with_target(SelectorBuilder::textselector("r", Offset::simple(0, 5))).with_data("A", "pos", "noun").with_data("B", "lemma", "world")).unwrap();
        st.annotate(AnnotationBuilder::new().with_id("b").with_target(SelectorBuilder::textselector("r", Offset::simple(6, 11))).with_data("B", "lemma", "world").with_data("A", "pos", "verb")).unwrap();
        let scan_keys: Vec<String> = { let mut v: Vec<String> = st.datasets().flat_map(|s| s.keys().map(|k| format!("{}/{}", k.set().id().unwrap(), k.as_str())).collect::<Vec<_>>()).collect(); v.sort(); v };
        let scan_data: Vec<String> = { let mut v: Vec<String> = st.datasets().flat_map(|s| s.data().map(|d| format!("{}/{}={}", d.set().id().unwrap(), d.key().as_str(), d.value())).collect::<Vec<_>>()).collect(); v.sort(); v };
        let sorted = |mut v: Vec<String>| { v.sort(); v };
        let lookups: Vec<(&str, Vec<String>, &Vec<String>)> = vec![
            ("AnnotationStore::keys()", sorted(st.keys().map(|k| format!("{}/{}", k.set().id().unwrap(), k.as_str())).collect()), &scan_keys),
            ("annotations().keys()", sorted(st.annotations().keys().map(|k| format!("{}/{}", k.set().id().unwrap(), k.as_str())).collect()), &scan_keys),
            ("annotations().data()", sorted(st.annotations().data().map(|d| format!("{}/{}={}", d.set().id().unwrap(), d.key().as_str(), d.value())).collect()), &scan_data),
            ("data().keys()", sorted(st.data().keys().map(|k| format!("{}/{}", k.set().id().unwrap(), k.as_str())).collect()), &scan_keys),
        ];
        for (name, got, want) in lookups {
            if got != **want { println!("WITNESS {{\"clause\":\"lookups across datasets equal a scan\",\"lookup\":{:?},\"got\":\"{:?}\",\"scan\":\"{:?}\"}}", name, got, want); return; }
        }
        {
            // an item of dataset A used as the request in dataset B names nothing there
            let ka = st.key("A", "pos").unwrap();
            let got = st.dataset("B").unwrap().key(&ka).map(|k| k.as_str().to_string());
            let found: Vec<String> = st.find_data("B", &ka, DataOperator::Any).map(|d| format!("{}={}", d.key().as_str(), d.value())).collect();
            if got.is_some() || !found.is_empty() { println!("WITNESS {{\"clause\":\"lookups across datasets equal a scan\",\"lookup\":\"dataset B asked for key pos of dataset A\",\"got\":\"key {:?}, data {:?}\",\"scan\":\"nothing: dataset B has no such key\"}}", got, found); return; }
        }
        if st.key("A", "pos") == st.key("B", "lemma") { println!("WITNESS {{\"clause\":\"lookups across datasets equal a scan\",\"lookup\":\"key(A,pos) == key(B,lemma)\",\"got\":\"true\",\"scan\":\"two different keys\"}}"); return; }
    }
    println!("NO-WITNESS find_data_search");
}

/// clauses of u_annotate / StoreFor::insert  (C14): a failing annotate() leaves the store observably unchanged.  13 failing calls on
/// a small store; the observable state is the number of annotations, text selections, datasets, keys and data items plus every
/// id.  The combinations recorded as known finding K1 (a valid NEW target with data or an id that is rejected afterwards) are
/// read from known_findings.txt and reported as KNOWN.
#[test]
fn find_annotate_failures() {
    let known = known_keys("find_annotate_failures");
    let build = || -> AnnotationStore {
        let mut store = AnnotationStore::default()
            .with_resource(TextResourceBuilder::new().with_id("r").with_text("Hello world")).unwrap()
            .with_dataset(AnnotationDataSetBuilder::new().with_id("d")).unwrap();
        store.annotate(AnnotationBuilder::new().with_id("A1").with_target(SelectorBuilder::textselector("r", Offset::simple(0, 5))).with_data_with_id("d", "k", "v", "D1")).unwrap();
        store
    };
    let snapshot = |s: &AnnotationStore| -> String {
        let mut keys = 0; let mut data = 0;
        for ds in s.datasets() { keys += ds.keys().count(); data += ds.data().count(); }
        format!("annotations={} textselections={} datasets={} keys={} data={} ids={:?}", s.annotations().count(), s.resources().map(|r| r.textselections().count()).sum::<usize>(), s.datasets().count(), keys, data,
                s.annotations().map(|a| a.id().map(|x| x.to_string())).collect::<Vec<_>>())
    };
    let existing = || SelectorBuilder::textselector("r", Offset::simple(0, 5));
    let fresh = || SelectorBuilder::textselector("r", Offset::simple(6, 11));
    let cases: Vec<(&str, Box<dyn Fn() -> AnnotationBuilder<'static>>)> = vec![
        ("no target", Box::new(|| AnnotationBuilder::new().with_data("d", "k", "w"))),
        ("unknown resource", Box::new(|| AnnotationBuilder::new().with_target(SelectorBuilder::textselector("nope", Offset::simple(0, 1))).with_data("d", "k", "w"))),
        ("offset beyond the text", Box::new(|| AnnotationBuilder::new().with_target(SelectorBuilder::textselector("r", Offset::simple(5, 1000))).with_data("d", "k", "w"))),
        ("offset end before begin", Box::new(|| AnnotationBuilder::new().with_target(SelectorBuilder::textselector("r", Offset::simple(8, 3))).with_data("d", "k", "w"))),
        ("unknown target annotation", Box::new(|| AnnotationBuilder::new().with_target(SelectorBuilder::annotationselector("nope", None)).with_data("d", "k", "w"))),
        ("unknown dataset selector", Box::new(|| AnnotationBuilder::new().with_target(SelectorBuilder::datasetselector("nope")).with_data("d", "k", "w"))),
        ("nested complex selector after a new first part", Box::new(move || AnnotationBuilder::new().with_target(SelectorBuilder::multiselector(vec![SelectorBuilder::textselector("r", Offset::simple(6, 11)), SelectorBuilder::compositeselector(vec![SelectorBuilder::textselector("r", Offset::simple(0, 5)), SelectorBuilder::resourceselector("r")])])).with_data("d", "k", "w"))),
        ("complex selector, second part unknown, first part existing", Box::new(|| AnnotationBuilder::new().with_target(SelectorBuilder::multiselector(vec![SelectorBuilder::textselector("r", Offset::simple(0, 5)), SelectorBuilder::textselector("nope", Offset::simple(0, 1))])).with_data("d", "k", "w"))),
        ("existing target, unknown data reference", Box::new(move || AnnotationBuilder::new().with_target(existing()).with_existing_data("d", "nope"))),
        ("existing target, duplicate annotation id, existing data", Box::new(|| AnnotationBuilder::new().with_id("A1").with_target(SelectorBuilder::textselector("r", Offset::simple(0, 5))).with_existing_data("d", "D1"))),
        ("new target, unknown data reference", Box::new(move || AnnotationBuilder::new().with_target(fresh()).with_existing_data("d", "nope"))),
        ("new target, duplicate annotation id", Box::new(|| AnnotationBuilder::new().with_id("A1").with_target(SelectorBuilder::textselector("r", Offset::simple(6, 11))).with_existing_data("d", "D1"))),
        ("existing target, new data, duplicate annotation id", Box::new(|| AnnotationBuilder::new().with_id("A1").with_target(SelectorBuilder::textselector("r", Offset::simple(0, 5))).with_data("d", "k2", "new"))),
    ];
    for (name, mk) in &cases {
        let mut store = build();
        let before = snapshot(&store);
        let r = std::panic::catch_unwind(std::panic::AssertUnwindSafe(|| store.annotate(mk())));
        let problem = match r {
            Err(_) => Some("panic".to_string()),
            Ok(Ok(_)) => None,   // not a failing call on this tree: nothing to check
            Ok(Err(_)) => { let after = snapshot(&store); if after != before { Some(format!("before: {} / after: {}", before, after)) } else { None } }
        };
        if let Some(p) = problem {
            if known.iter().any(|k| k == name) { println!("KNOWN {}", name); }
            else { println!("WITNESS {{\"clause\":\"a failing annotate() leaves the store unchanged\",\"call\":{:?},\"problem\":{:?}}}", name, p); return; }
        }
    }
    // ---- additions other than annotate(): merging documents and sub stores (C14: "or while loading annotations from a file")
    let bad_store = r#"{"@type":"AnnotationStore","annotations":[
        {"@type":"Annotation","@id":"M1","target":{"@type":"TextSelector","resource":"r","offset":{"begin":{"@type":"BeginAlignedCursor","value":6},"end":{"@type":"BeginAlignedCursor","value":11}}},"data":[{"@type":"AnnotationData","set":"d","key":"k","value":{"@type":"String","value":"merged"}}]},
        {"@type":"Annotation","@id":"M2","target":{"@type":"ResourceSelector","resource":"nonexistent"},"data":[]}]}"#;
    let only_bad = r#"{"@type":"AnnotationStore","annotations":[{"@type":"Annotation","@id":"M2","target":{"@type":"ResourceSelector","resource":"nonexistent"},"data":[]}]}"#;
    let bad_set = r#"{"@type":"AnnotationDataSet","keys":[{"@type":"DataKey","@id":"k9"}],"data":[{"@type":"AnnotationData","@id":"d9","key":"k9","value":{"@type":"String","value":"x"}},{"@type":"AnnotationData","@id":"d10"}]}"#;
    let cases2: Vec<(&str, Box<dyn Fn(&mut AnnotationStore) -> Result<(), StamError>>)> = vec![
        ("merge_json_str whose only annotation is broken", Box::new(move |s: &mut AnnotationStore| s.merge_json_str(only_bad))),
        ("merge_json_str failing at the second annotation keeps the first", Box::new(move |s: &mut AnnotationStore| s.merge_json_str(bad_store))),
        ("dataset merge_json_str failing at the second data item keeps the first", Box::new(move |s: &mut AnnotationStore| { let h = s.dataset("d").unwrap().handle(); let ds: &mut AnnotationDataSet = s.get_mut(h).unwrap(); ds.merge_json_str(bad_set) })),
        ("annotate_from_iter failing at the second annotation keeps the first", Box::new(|s: &mut AnnotationStore| s.annotate_from_iter(vec![
            AnnotationBuilder::new().with_id("B1").with_target(SelectorBuilder::textselector("r", Offset::simple(0, 5))).with_existing_data("d", "D1"),
            AnnotationBuilder::new().with_id("B2").with_target(SelectorBuilder::textselector("nope", Offset::simple(0, 5))).with_existing_data("d", "D1")]).map(|_| ()))),
        ("insert_data for a dataset that does not exist yet, without a key", Box::new(|s: &mut AnnotationStore| s.insert_data(AnnotationDataBuilder::new().with_dataset("newset".into()).with_id("DX".into())).map(|_| ()))),
        ("insert_data for a dataset handle that does not exist", Box::new(|s: &mut AnnotationStore| s.insert_data(AnnotationDataBuilder::new().with_dataset(AnnotationDataSetHandle::new(99).into()).with_key("k".into()).with_value("v".into())).map(|_| ()))),
        ("add_substore of a missing file", Box::new(|s: &mut AnnotationStore| s.add_substore("/nonexistent/vx_missing.store.stam.json").map(|_| ()))),
        ("merge_json_str including a missing store file", Box::new(|s: &mut AnnotationStore| s.merge_json_str(r#"{"@type":"AnnotationStore","@include":"/nonexistent/vx_missing.store.stam.json"}"#))),
    ];
    for (name, call) in &cases2 {
        let mut store = build();
        let before = format!("{} substores={} filename={:?}", snapshot(&store), store.substores().count(), store.filename());
        let r = std::panic::catch_unwind(std::panic::AssertUnwindSafe(|| call(&mut store)));
        let problem = match r {
            Err(_) => Some("panic".to_string()),
            Ok(Ok(_)) => None,
            Ok(Err(_)) => {
                let after = format!("{} substores={} filename={:?}", snapshot(&store), store.substores().count(), store.filename());
                if after != before { Some(format!("before: {} / after: {}", before, after)) }
                // the store still refuses what it refused before (merge mode switched off again), and a later addition goes where it went before
                else if store.add_dataset(AnnotationDataSetBuilder::new().with_id("d").with_key("zz")).is_ok() { Some("after the failed call add_dataset() with the id of an existing dataset is accepted (merged) instead of refused".to_string()) }
                else if store.add_resource(TextResourceBuilder::new().with_id("r2").with_text("x")).map(|h| store.resource(h).unwrap().substores().count()).unwrap_or(0) != 0 { Some("a resource added after the failed call is assigned to a sub store".to_string()) }
                else { None }
            }
        };
        if let Some(p) = problem {
            if known.iter().any(|k| k == name) { println!("KNOWN {}", name); }
            else { println!("WITNESS {{\"clause\":\"a failing addition leaves the store unchanged\",\"call\":{:?},\"problem\":{:?}}}", name, p); return; }
        }
    }
    println!("NO-WITNESS find_annotate_failures");
}

/// bounded stand-in for the loader part of C19, files that include each other (stores, datasets, stand-off resources): loading
/// must end, with a store or an error.  Every case is loaded in a child process (this test binary run again with VX_INCLUDE_CASE
/// set), because a runaway recursion ends in a stack overflow that aborts the whole process: the parent reports how the child ended.
#[test]
fn find_include_cycle() {
    let store_json = |id: &str, include: &[&str], res: &str| format!(r#"{{ "@type": "AnnotationStore", "@id": "{}", "@include": [{}],
        "resources": [{{ "@type": "TextResource", "@id": "{}", "text": "hello world" }}] }}"#, id, include.iter().map(|x| format!("\"{}\"", x)).collect::<Vec<_>>().join(", "), res);
    // (name, files: (filename, content), use a working directory)
    let st = |k: usize, inc: &[&str]| store_json(&format!("s{}", k), inc, &format!("res{}", k));
    let cases: Vec<(&str, Vec<(&str, String)>, bool)> = vec![
        ("two stores including each other, loaded by path", vec![("a.store.stam.json", st(0, &["b.store.stam.json"])), ("b.store.stam.json", st(1, &["a.store.stam.json"]))], false),
        ("two stores including each other, loaded with a working directory", vec![("a.store.stam.json", st(0, &["b.store.stam.json"])), ("b.store.stam.json", st(1, &["a.store.stam.json"]))], true),
        ("a store including itself", vec![("a.store.stam.json", st(0, &["a.store.stam.json"]))], false),
        ("a cycle of three", vec![("a.store.stam.json", st(0, &["b.store.stam.json"])), ("b.store.stam.json", st(1, &["c.store.stam.json"])), ("c.store.stam.json", st(2, &["a.store.stam.json"]))], false),
        ("the same store included twice", vec![("a.store.stam.json", st(0, &["b.store.stam.json", "b.store.stam.json"])), ("b.store.stam.json", st(1, &[]))], false),
        ("a stand-off text resource file without text", vec![("a.store.stam.json", r#"{ "@type": "AnnotationStore", "resources": [{ "@type": "TextResource", "@include": "r.json" }] }"#.to_string()), ("r.json", r#"{ "@type": "TextResource", "@id": "r" }"#.to_string())], true),
        ("a stand-off text resource file that is an empty object", vec![("a.store.stam.json", r#"{ "@type": "AnnotationStore", "resources": [{ "@type": "TextResource", "@include": "r.json" }] }"#.to_string()), ("r.json", "{}".to_string())], true),
        ("a dataset file including itself", vec![("a.store.stam.json", r#"{ "@type": "AnnotationStore", "annotationsets": [{ "@type": "AnnotationDataSet", "@include": "set.json" }] }"#.to_string()), ("set.json", r#"{ "@type": "AnnotationDataSet", "@id": "d", "@include": "set.json", "keys": [{"@type": "DataKey", "@id": "k"}] }"#.to_string())], true),
        ("two dataset files including each other", vec![("a.store.stam.json", r#"{ "@type": "AnnotationStore", "annotationsets": [{ "@type": "AnnotationDataSet", "@include": "set.json" }] }"#.to_string()), ("set.json", r#"{ "@type": "AnnotationDataSet", "@id": "d", "@include": "set2.json" }"#.to_string()), ("set2.json", r#"{ "@type": "AnnotationDataSet", "@id": "d", "@include": "set.json" }"#.to_string())], true),
    ];
    // child part: load one case and say how it ended
    if let Ok(dir) = std::env::var("VX_INCLUDE_CASE") {
        let wd = std::env::var("VX_INCLUDE_WORKDIR").is_ok();
        let d2 = std::path::PathBuf::from(&dir);
        let r = std::panic::catch_unwind(|| {
            if wd { AnnotationStore::from_file("a.store.stam.json", Config::default().with_workdir(d2.to_str().unwrap().to_string())) }
            else { AnnotationStore::from_file(d2.join("a.store.stam.json").to_str().unwrap(), Config::default()) }
        });
        match r { Err(_) => println!("CHILD-PANIC"), Ok(Err(e)) => println!("CHILD-ENDED error: {}", e), Ok(Ok(s)) => println!("CHILD-ENDED store with {} resources", s.resources_len()) }
        return;
    }
    let known = known_keys("find_include_cycle");
    let base = std::path::PathBuf::from(std::env::var("VX_SCRATCH").unwrap_or("/var/tmp".to_string())).join(format!("vx_include_cycle_{}", std::process::id()));
    for (k, (name, files, workdir)) in cases.iter().enumerate() {
        let dir = base.join(format!("case{}", k));
        let _ = std::fs::remove_dir_all(&dir);
        std::fs::create_dir_all(&dir).unwrap();
        for (f, content) in files.iter() { std::fs::write(dir.join(f), content).unwrap(); }
        let mut cmd = std::process::Command::new(std::env::current_exe().unwrap());
        cmd.args(["verif_hooks::replay::find_include_cycle", "--exact", "--nocapture", "--test-threads=1"]).env("VX_INCLUDE_CASE", dir.to_str().unwrap());
        if *workdir { cmd.env("VX_INCLUDE_WORKDIR", "1"); }
        let mut child = cmd.stdout(std::process::Stdio::piped()).stderr(std::process::Stdio::piped()).spawn().unwrap();
        // (a runaway recursion through files ends quickly; the limit only guards against a loop that does not)
        let started = std::time::Instant::now();
        let status = loop { match child.try_wait().unwrap() { Some(st) => break Some(st), None => { if started.elapsed().as_secs() > 60 { let _ = child.kill(); break None; } std::thread::sleep(std::time::Duration::from_millis(20)); } } };
        let out = child.wait_with_output().map(|o| format!("{}{}", String::from_utf8_lossy(&o.stdout), String::from_utf8_lossy(&o.stderr))).unwrap_or_default();
        let problem = match status {
            None => Some("loading did not end within 60 s".to_string()),
            Some(st) if out.contains("CHILD-PANIC") => Some(format!("panic ({})", st)),
            Some(_) if out.contains("Too many open files") || out.contains("os error 24") => Some("recursed until the process ran out of file descriptors".to_string()),
            Some(_) if out.contains("CHILD-ENDED") => None,
            Some(st) => Some(format!("the loading process was aborted: {}{}", st, if out.contains("overflowed its stack") { " (stack overflow)" } else { "" })),
        };
        if let Some(p) = problem {
            if known.iter().any(|x| x == name) { println!("KNOWN {}", name); continue; }
            println!("WITNESS {{\"clause\":\"include cycle\",\"case\":{:?},\"problem\":{:?}}}", name, p);
            let _ = std::fs::remove_dir_all(&base);
            return;
        }
    }
    let _ = std::fs::remove_dir_all(&base);
    println!("NO-WITNESS find_include_cycle");
}

/// bounded stand-in for the loader part of C19 (serde visitors and builders are outside the verifier's reach): 40 malformed or
/// hostile STAM JSON documents (offsets beyond the text, inverted, wrongly aligned or huge cursors; unknown, self-referencing
/// and wrongly typed ids; temporary ids of the wrong kind, duplicated, non-numeric, overflowing or leaving gaps; nested and empty
/// complex selectors; broken data references) must load or be rejected without a panic; what loads must be consistent and readable
#[test]
fn find_load_untrusted() {
    let doc = |annotations: &str| -> String { format!(r#"{{ "@type": "AnnotationStore",
        "annotationsets": [{{ "@type": "AnnotationDataSet", "@id": "d", "keys": [{{"@type": "DataKey", "@id": "k"}}],
            "data": [{{"@type": "AnnotationData", "@id": "D1", "key": "k", "value": {{"@type": "String", "value": "v"}}}}] }}],
        "resources": [{{ "@id": "r", "text": "Hello world" }}],
        "annotations": [{}] }}"#, annotations) };
    let ann = |id: &str, target: &str, data: &str| -> String { format!(r#"{{ "@type": "Annotation", "@id": "{}", "target": {}, "data": [{}] }}"#, id, target, data) };
    let cur = |ty: &str, v: &str| format!(r#"{{"@type": "{}", "value": {}}}"#, ty, v);
    let tsel = |res: &str, b: String, e: String| format!(r#"{{"@type": "TextSelector", "resource": "{}", "offset": {{"begin": {}, "end": {}}}}}"#, res, b, e);
    let ok_target = || tsel("r", cur("BeginAlignedCursor", "0"), cur("BeginAlignedCursor", "5"));
    let d1 = r#"{"@type": "AnnotationData", "@id": "D1", "set": "d"}"#;
    let mut docs: Vec<(String, String)> = vec![];
    let mut add = |name: &str, body: String| docs.push((name.to_string(), doc(&body)));
    add("baseline", ann("A1", &ok_target(), d1));
    add("end beyond the text", ann("A1", &tsel("r", cur("BeginAlignedCursor", "5"), cur("BeginAlignedCursor", "1000")), d1));
    add("end before begin", ann("A1", &tsel("r", cur("BeginAlignedCursor", "8"), cur("BeginAlignedCursor", "3")), d1));
    add("positive end-aligned cursor", ann("A1", &tsel("r", cur("BeginAlignedCursor", "0"), cur("EndAlignedCursor", "5")), d1));
    add("end-aligned cursor before the text", ann("A1", &tsel("r", cur("EndAlignedCursor", "-1000"), cur("EndAlignedCursor", "0")), d1));
    add("negative begin-aligned cursor", ann("A1", &tsel("r", cur("BeginAlignedCursor", "-1"), cur("BeginAlignedCursor", "3")), d1));
    add("huge cursor", ann("A1", &tsel("r", cur("BeginAlignedCursor", "0"), cur("BeginAlignedCursor", "18446744073709551615")), d1));
    add("end-aligned minimum", ann("A1", &tsel("r", cur("EndAlignedCursor", "-9223372036854775808"), cur("EndAlignedCursor", "0")), d1));
    add("cursor of unknown type", ann("A1", &tsel("r", cur("MiddleCursor", "0"), cur("BeginAlignedCursor", "3")), d1));
    add("unknown resource", ann("A1", &tsel("nope", cur("BeginAlignedCursor", "0"), cur("BeginAlignedCursor", "3")), d1));
    add("annotation selector to an unknown annotation", ann("A1", r#"{"@type": "AnnotationSelector", "annotation": "nope"}"#, d1));
    add("annotation selector to itself", ann("A1", r#"{"@type": "AnnotationSelector", "annotation": "A1"}"#, d1));
    add("annotation selector with offset on a later annotation", format!("{}, {}", ann("A1", &format!(r#"{{"@type": "AnnotationSelector", "annotation": "A2", "offset": {{"begin": {}, "end": {}}}}}"#, cur("BeginAlignedCursor", "0"), cur("BeginAlignedCursor", "2")), d1), ann("A2", &ok_target(), d1)));
    add("annotation selector with an offset outside its target", format!("{}, {}", ann("A1", &ok_target(), d1), ann("A2", &format!(r#"{{"@type": "AnnotationSelector", "annotation": "A1", "offset": {{"begin": {}, "end": {}}}}}"#, cur("BeginAlignedCursor", "3"), cur("BeginAlignedCursor", "9")), d1)));
    add("annotation selector with offset on an annotation without text", format!("{}, {}", ann("A1", r#"{"@type": "ResourceSelector", "resource": "r"}"#, d1), ann("A2", &format!(r#"{{"@type": "AnnotationSelector", "annotation": "A1", "offset": {{"begin": {}, "end": {}}}}}"#, cur("BeginAlignedCursor", "0"), cur("BeginAlignedCursor", "2")), d1)));
    add("dataset selector to an unknown dataset", ann("A1", r#"{"@type": "DataSetSelector", "annotationset": "nope"}"#, d1));
    add("data key selector to an unknown key", ann("A1", r#"{"@type": "DataKeySelector", "annotationset": "d", "key": "nope"}"#, d1));
    add("annotation data selector to unknown data", ann("A1", r#"{"@type": "AnnotationDataSelector", "annotationset": "d", "data": "nope"}"#, d1));
    add("selector of unknown type", ann("A1", r#"{"@type": "MagicSelector", "resource": "r"}"#, d1));
    add("empty multi selector", ann("A1", r#"{"@type": "MultiSelector", "selectors": []}"#, d1));
    add("multi selector with one part", ann("A1", &format!(r#"{{"@type": "MultiSelector", "selectors": [{}]}}"#, ok_target()), d1));
    add("nested multi selector", ann("A1", &format!(r#"{{"@type": "MultiSelector", "selectors": [{}, {{"@type": "CompositeSelector", "selectors": [{}, {}]}}]}}"#, ok_target(), ok_target(), ok_target()), d1));
    add("multi selector with the same part twice", ann("A1", &format!(r#"{{"@type": "MultiSelector", "selectors": [{}, {}]}}"#, ok_target(), ok_target()), d1));
    add("directional selector over two data key selectors", ann("A1", r#"{"@type": "DirectionalSelector", "selectors": [{"@type": "DataKeySelector", "annotationset": "d", "key": "k"}, {"@type": "DataKeySelector", "annotationset": "d", "key": "k"}]}"#, d1));
    add("multi selector over two data key selectors", ann("A1", r#"{"@type": "MultiSelector", "selectors": [{"@type": "DataKeySelector", "annotationset": "d", "key": "k"}, {"@type": "DataKeySelector", "annotationset": "d", "key": "k"}]}"#, d1));
    add("composite selector over a data selector and a dataset selector", ann("A1", r#"{"@type": "CompositeSelector", "selectors": [{"@type": "AnnotationDataSelector", "annotationset": "d", "data": "D1"}, {"@type": "DataSetSelector", "annotationset": "d"}]}"#, d1));
    add("composite selector mixing kinds", ann("A1", &format!(r#"{{"@type": "CompositeSelector", "selectors": [{}, {{"@type": "ResourceSelector", "resource": "r"}}, {{"@type": "DataSetSelector", "annotationset": "d"}}]}}"#, ok_target()), d1));
    add("data in an unknown set", ann("A1", &ok_target(), r#"{"@type": "AnnotationData", "@id": "D1", "set": "nope"}"#));
    add("unknown data id without key", ann("A1", &ok_target(), r#"{"@type": "AnnotationData", "@id": "nope", "set": "d"}"#));
    add("data without set", ann("A1", &ok_target(), r#"{"@type": "AnnotationData", "key": "k", "value": {"@type": "Int", "value": 1}}"#));
    add("data value of the wrong type", ann("A1", &ok_target(), r#"{"@type": "AnnotationData", "set": "d", "key": "k", "value": {"@type": "Int", "value": "x"}}"#));
    add("no data at all", format!(r#"{{ "@type": "Annotation", "@id": "A1", "target": {} }}"#, ok_target()));
    add("no target", r#"{ "@type": "Annotation", "@id": "A1", "data": [] }"#.to_string());
    add("duplicate annotation id", format!("{}, {}", ann("A1", &ok_target(), d1), ann("A1", &ok_target(), d1)));
    add("temporary id leaving a gap", ann("!A5", &ok_target(), d1));
    add("temporary id twice", format!("{}, {}", ann("!A0", &ok_target(), d1), ann("!A0", &ok_target(), d1)));
    add("temporary ids out of order", format!("{}, {}", ann("!A3", &ok_target(), d1), ann("!A1", &ok_target(), d1)));
    add("temporary id of another kind", ann("!R0", &ok_target(), d1));
    add("temporary id without a number", ann("!A", &ok_target(), d1));
    add("temporary id with a sign", ann("!A-1", &ok_target(), d1));
    add("temporary id that overflows", ann("!A18446744073709551616", &ok_target(), d1));
    add("temporary id with the largest number", ann("!A18446744073709551615", &ok_target(), d1));
    add("temporary id with the largest number after an ordinary annotation", format!("{}, {}", ann("A1", &ok_target(), d1), ann("!A18446744073709551615", &ok_target(), d1)));
    add("temporary id beyond any allocation", ann("!A9223372036854775807", &ok_target(), d1));
    add("non-ASCII temporary id", ann("!É1", &ok_target(), d1));
    add("reference by temporary id to a gap", format!("{}, {}", ann("!A2", &ok_target(), d1), ann("X", r#"{"@type": "AnnotationSelector", "annotation": "!A0"}"#, d1)));
    // datasets whose data list carries temporary ids (the visitor sizes and fills the data vector from them), also in a duplicated field
    let dsdoc = |data_fields: &str| -> String { format!(r#"{{ "@type": "AnnotationStore",
        "annotationsets": [{{ "@type": "AnnotationDataSet", "@id": "d", "keys": [{{"@type": "DataKey", "@id": "k"}}], {} }}],
        "resources": [{{ "@id": "r", "text": "Hello world" }}],
        "annotations": [{}] }}"#, data_fields, ann("A1", &ok_target(), d1)) };
    let item = |id: &str, v: &str| format!(r#"{{"@type": "AnnotationData", "@id": "{}", "key": "k", "value": {{"@type": "String", "value": "{}"}}}}"#, id, v);
    docs.push(("data with temporary ids in order".to_string(), dsdoc(&format!(r#""data": [{}, {}, {}]"#, item("!D0", "a"), item("D1", "v"), item("!D2", "c")))));
    docs.push(("data with a temporary id leaving a gap".to_string(), dsdoc(&format!(r#""data": [{}, {}]"#, item("D1", "v"), item("!D4", "c")))));
    docs.push(("data with a temporary id below the current length".to_string(), dsdoc(&format!(r#""data": [{}, {}, {}]"#, item("D1", "v"), item("D2", "w"), item("!D0", "c")))));
    docs.push(("data field twice, second list with a temporary id below the current length".to_string(), dsdoc(&format!(r#""data": [{}, {}], "data": [{}]"#, item("D1", "v"), item("D2", "w"), item("!D0", "c")))));
    docs.push(("data with a temporary id with the largest number".to_string(), dsdoc(&format!(r#""data": [{}, {}]"#, item("D1", "v"), item("!D18446744073709551615", "c")))));
    docs.push(("data with the same temporary id twice".to_string(), dsdoc(&format!(r#""data": [{}, {}, {}]"#, item("D1", "v"), item("!D1", "w"), item("!D1", "c")))));
    for (name, json) in &docs {
        let r = std::panic::catch_unwind(|| {
            match AnnotationStore::from_json_str(json, Config::default()) {
                Err(_) => None,
                Ok(store) => {
                    // what loaded must be consistent and readable
                    if let Some(e) = store_inconsistency(&store) { return Some(format!("loaded but inconsistent: {}", e)); }
                    // an identifier that resolves names the item that was loaded under it
                    if let Some(d) = store.annotationdata("d", "D1") { if d.value().to_string() != "v" { return Some(format!("data id D1 resolves to the item with value {:?}", d.value().to_string())); } }
                    for a in store.annotations() { let _ = a.text().collect::<Vec<_>>(); let _ = a.textselections().count(); for d in a.data() { let _ = d.value(); } let _ = a.annotations_in_targets(AnnotationDepth::Max).count(); }
                    None
                }
            }
        });
        match r {
            Err(_) => { println!("WITNESS {{\"clause\":\"loading an untrusted document never panics\",\"document\":{:?},\"problem\":\"panic\"}}", name); return; }
            Ok(Some(p)) => { println!("WITNESS {{\"clause\":\"loading an untrusted document never panics\",\"document\":{:?},\"problem\":{:?}}}", name, p); return; }
            Ok(None) => {}
        }
    }
    // ---- STAM CSV through the same readers the file loaders use: dataset tables and annotation tables derived from a valid one
    //      by deleting or emptying fields, dropping columns, duplicating rows and breaking numbers - each loads or is refused, no panic
    {
        use crate::csv::FromCsv;
        let valid_set = "Id,Key,Value\n,pos,\nPosNoun,pos,noun\nPosVerb,pos,verb\n";
        let mut set_docs: Vec<String> = vec![valid_set.to_string(), "".into(), "Id,Key,Value\n".into(), "Id,Key,Value\n,,\n".into(), "Id,Key,Value\n,pos,verb\n".into(),
            "Id,Key,Value\nPosNoun,,noun\n".into(), "Id,Key,Value\nPosNoun,pos\n".into(), "Id,Key\nPosNoun,pos\n".into(), "Key,Value\npos,noun\n".into(), "Id,Key,Value\nPosNoun,pos,noun\nPosNoun,pos,verb\n".into(),
            "Id,Key,Value\n!D5,pos,noun\n".into(), "Id,Key,Value\n\"unterminated,pos,noun\n".into(), "Id,Key,Value,Extra\nPosNoun,pos,noun,x\n".into(), "\u{feff}Id,Key,Value\nPosNoun,pos,noun\n".into()];
        // every single field of the valid table emptied
        let rows: Vec<Vec<&str>> = valid_set.lines().skip(1).map(|l| l.split(',').collect()).collect();
        for i in 0..rows.len() { for j in 0..3 { let mut r = rows.clone(); let mut row = r[i].clone(); row[j] = ""; r[i] = row; set_docs.push(format!("Id,Key,Value\n{}\n", r.iter().map(|x| x.join(",")).collect::<Vec<_>>().join("\n"))); } }
        for doc in &set_docs {
            let d = doc.clone();
            let r = std::panic::catch_unwind(move || AnnotationDataSet::from_csv_reader(Box::new(std::io::Cursor::new(d.into_bytes())), None, Config::default()).map(|s| s.data_len()));
            if r.is_err() { println!("WITNESS {{\"clause\":\"loading untrusted STAM CSV (dataset table)\",\"document\":{:?},\"problem\":\"panic\"}}", doc); return; }
        }
        // (the annotation table is reached through a store manifest: four files in a scratch directory, removed afterwards)
        let dir = std::path::PathBuf::from(std::env::var("VX_SCRATCH").unwrap_or("/var/tmp".to_string())).join(format!("vx_csv_{}", std::process::id()));
        let _ = std::fs::remove_dir_all(&dir);
        std::fs::create_dir_all(&dir).unwrap();
        std::fs::write(dir.join("s.store.stam.csv"), "Type,Id,Filename\nAnnotationStore,s,s.annotations.stam.csv\nAnnotationDataSet,d,d.annotationset.stam.csv\nTextResource,r,r.txt\n").unwrap();
        std::fs::write(dir.join("d.annotationset.stam.csv"), "Id,Key,Value\n,k,\nD1,k,v\n").unwrap();
        std::fs::write(dir.join("r.txt"), "Hello world").unwrap();
        let header = "Id,AnnotationData,AnnotationDataSet,SelectorType,TargetResource,TargetAnnotation,TargetDataSet,BeginOffset,EndOffset,TargetKey,TargetData";
        let valid_rows = ["A1,D1,d,TextSelector,r,,,0,5,,", "A2,D1,d,AnnotationSelector,,A1,,,,,", "A3,D1,d,AnnotationSelector,,A1,,1,2,,", "A4,D1,d,ResourceSelector,r,,,,,,", "A5,D1,d,DataSetSelector,,,d,,,,",
            "A6,D1,d,DataKeySelector,,,d,,,k,", "A7,D1,d,AnnotationDataSelector,,,d,,,,D1", "A8,D1,d,MultiSelector;TextSelector;TextSelector,;r;r,;;,;;,;0;6,;5;11,;;,;;"];
        let mut ann_docs: Vec<String> = vec![format!("{}\n{}\n", header, valid_rows.join("\n"))];
        for row in valid_rows { let fields: Vec<&str> = row.split(',').collect(); for j in 0..fields.len() {
            for repl in ["", "nope", "-1", "99999999999999999999", ";", "x;y"] { let mut f = fields.clone(); if f[j] == repl { continue; } f[j] = repl; ann_docs.push(format!("{}\nA1,D1,d,TextSelector,r,,,0,5,,\n{}\n", header, f.join(",")).replacen("A1,D1,d,TextSelector,r,,,0,5,,\nA1,", "A0,D1,d,TextSelector,r,,,0,5,,\nA1,", 1)); }
        } }
        for doc in &ann_docs {
            let d = doc.clone();
            std::fs::write(dir.join("s.annotations.stam.csv"), d).unwrap();
            let manifest = dir.join("s.store.stam.csv");
            let r = std::panic::catch_unwind(std::panic::AssertUnwindSafe(|| AnnotationStore::from_file(manifest.to_str().unwrap(), Config::default()).map(|st| st.annotations_len())));
            if r.is_err() { println!("WITNESS {{\"clause\":\"loading untrusted STAM CSV (annotation table)\",\"document\":{:?},\"problem\":\"panic\"}}", doc); let _ = std::fs::remove_dir_all(&dir); return; }
            // (the unchanged table is the sanity check of this harness: it loads, with its eight annotations)
            if std::ptr::eq(doc, &ann_docs[0]) && !matches!(r, Ok(Ok(8))) { println!("WITNESS {{\"clause\":\"loading STAM CSV (annotation table)\",\"document\":{:?},\"problem\":\"the valid table does not load with its 8 annotations: {:?}\"}}", doc, r.map(|x| x.map_err(|e| e.to_string()))); let _ = std::fs::remove_dir_all(&dir); return; }
        }
        let _ = std::fs::remove_dir_all(&dir);
    }
    println!("NO-WITNESS find_load_untrusted");
}

"""U-tsiter: TextSelectionIter (src/resources.rs), the walk over the position index that every text search is
built on.  `next` / `next_back` are verified against the sequence of handles still to be yielded: the rest of the
current per-position list, then the lists of the remaining index entries (from the front / from the back).
This discharges the walk contract that u_find assumes for its opaque TextSelectionIter.  Serves C06."""
from vx.gen import Unit, Fn
from . import common

P = ['C06']
R = 'src/resources.rs'
T = 'src/textselection.rs'

STUBS = r'''
/// R-err
#[verifier::external_body]
pub fn vx_msg() -> String { String::new() }

/// R-opaque: `btree_map::Range<'a, usize, PositionIndexItem>`.  Trusted (std): a double-ended iterator over the entries
/// of the range, in key order; `rem()` is what is left between the two ends.
#[verifier::external_body]
pub struct VxRange<'a> { _p: std::marker::PhantomData<&'a usize> }

impl<'a> VxRange<'a> {
    pub uninterp spec fn rem(&self) -> Seq<(usize, PositionIndexItem)>;

    #[verifier::external_body]
    pub fn next(&mut self) -> (r: Option<(&'a usize, &'a PositionIndexItem)>)
        ensures
            old(self).rem().len() == 0 ==> r is None && final(self).rem() == old(self).rem(),
            old(self).rem().len() > 0 ==> r is Some && *r.unwrap().0 == old(self).rem()[0].0 && *r.unwrap().1 == old(self).rem()[0].1 && final(self).rem() == old(self).rem().skip(1),
    { unimplemented!() }

    #[verifier::external_body]
    pub fn next_back(&mut self) -> (r: Option<(&'a usize, &'a PositionIndexItem)>)
        ensures
            old(self).rem().len() == 0 ==> r is None && final(self).rem() == old(self).rem(),
            old(self).rem().len() > 0 ==> r is Some && *r.unwrap().0 == old(self).rem().last().0 && *r.unwrap().1 == old(self).rem().last().1 && final(self).rem() == old(self).rem().drop_last(),
    { unimplemented!() }
}

/// R-opaque: the resource, as the iterator sees it: a lookup from handle to text selection
#[verifier::external_body]
pub struct TextResource { _p: usize }
impl TextResource {
    pub uninterp spec fn sel(&self, h: TextSelectionHandle) -> Option<TextSelection>;
    /// ghost: the entries of the position index, in key order; the length of the text
    pub uninterp spec fn index(&self) -> Seq<(usize, PositionIndexItem)>;
    pub uninterp spec fn tl(&self) -> usize;
    /// R-outline: stands for `self.positionindex.0.range((Included(&begin), Excluded(&end)))`.  Trusted (std): the entries whose
    /// key lies in the half-open range, in key order.
    #[verifier::external_body]
    pub fn vx_index_range<'a>(&'a self, begin: usize, end: usize) -> (r: VxRange<'a>)
        requires begin <= end,   // BTreeMap::range panics when the start lies beyond the end
        ensures r.rem() == entries_between(self.index(), begin as int, end as int),
    { unimplemented!() }
    /// stands for `impl Text for TextResource { fn textlen(&self) -> usize { self.textlen } }`
    #[verifier::external_body]
    pub fn textlen(&self) -> (r: usize) ensures r == self.tl(), { unimplemented!() }
    /// stands for StoreFor<TextSelection>::get(handle) on a TextResource (contract proved for the generic StoreFor::get in u_store)
    #[verifier::external_body]
    pub fn get(&self, h: TextSelectionHandle) -> (r: Result<&TextSelection, StamError>)
        ensures r is Ok <==> self.sel(h) is Some, r is Ok ==> *r->Ok_0 == self.sel(h).unwrap(),
    { unimplemented!() }
}
'''

SPEC = r'''
/// the entries with lo <= key < hi, in order
pub open spec fn entries_between(idx: Seq<(usize, PositionIndexItem)>, lo: int, hi: int) -> Seq<(usize, PositionIndexItem)> {
    idx.filter(|e: (usize, PositionIndexItem)| lo <= e.0 < hi)
}
pub open spec fn handles_of(s: Seq<(usize, TextSelectionHandle)>) -> Seq<TextSelectionHandle> { Seq::new(s.len(), |i: int| s[i].1) }

/// the handles listed by begin in the entries, front to back
pub open spec fn flat_b2e(rem: Seq<(usize, PositionIndexItem)>) -> Seq<TextSelectionHandle>
    decreases rem.len()
{ if rem.len() == 0 { Seq::empty() } else { handles_of(rem[0].1.begin2end@) + flat_b2e(rem.skip(1)) } }

/// the handles listed by end in the entries, back to front
pub open spec fn flat_e2b_back(rem: Seq<(usize, PositionIndexItem)>) -> Seq<TextSelectionHandle>
    decreases rem.len()
{ if rem.len() == 0 { Seq::empty() } else { handles_of(rem.last().1.end2begin@) + flat_e2b_back(rem.drop_last()) } }

#[verifier::prophetic]
pub open spec fn cur_handles<'a>(it: Option<Iter<'a, (usize, TextSelectionHandle)>>) -> Seq<TextSelectionHandle> {
    match it { Some(i) => Seq::new(i.remaining().len(), |k: int| i.remaining()[k].1), None => Seq::empty() }
}
#[verifier::prophetic]
pub open spec fn cur_ok<'a>(it: Option<Iter<'a, (usize, TextSelectionHandle)>>) -> bool {
    match it { Some(i) => i.obeys_prophetic_iter_laws() && i.decrease() is Some, None => true }
}

// ------------------------------------------------------------------ "each indexed selection once" (the walk assumption of u_find)
/// what the position index says under one position (established by StoreCallbacks<TextSelection>::inserted, u_posidx):
/// begin2end lists exactly the selections that begin there, end2begin exactly those that end there, each once
pub open spec fn entry_exact(e: (usize, PositionIndexItem), res: &TextResource) -> bool {
    (forall|h: TextSelectionHandle| #[trigger] handles_of(e.1.begin2end@).to_multiset().count(h) == (if res.sel(h) is Some && res.sel(h).unwrap().begin == e.0 { 1nat } else { 0nat }))
    && (forall|h: TextSelectionHandle| #[trigger] handles_of(e.1.end2begin@).to_multiset().count(h) == (if res.sel(h) is Some && res.sel(h).unwrap().end == e.0 { 1nat } else { 0nat }))
}
pub open spec fn entries_ok(rem: Seq<(usize, PositionIndexItem)>, res: &TextResource) -> bool {
    (forall|i: int| 0 <= i < rem.len() ==> entry_exact(#[trigger] rem[i], res))
    && (forall|i: int, j: int| 0 <= i < j < rem.len() ==> rem[i].0 < rem[j].0)
}
pub open spec fn has_key(rem: Seq<(usize, PositionIndexItem)>, p: usize) -> bool { exists|i: int| 0 <= i < rem.len() && rem[i].0 == p }

/// a forward walk over index entries yields every selection that begins at one of their positions exactly once, and nothing else
pub proof fn lemma_forward_each_once(rem: Seq<(usize, PositionIndexItem)>, res: &TextResource, h: TextSelectionHandle)
    requires entries_ok(rem, res),
    ensures flat_b2e(rem).to_multiset().count(h) == (if res.sel(h) is Some && has_key(rem, res.sel(h).unwrap().begin) { 1nat } else { 0nat }),
    decreases rem.len(),
{
    if rem.len() == 0 {
        assert(flat_b2e(rem) =~= Seq::<TextSelectionHandle>::empty());
        vstd::seq_lib::to_multiset_contains(flat_b2e(rem), h);
        assert(!has_key(rem, if res.sel(h) is Some { res.sel(h).unwrap().begin } else { 0usize }));
    } else {
        let rest = rem.skip(1);
        assert forall|i: int| 0 <= i < rest.len() implies entry_exact(#[trigger] rest[i], res) by { assert(rest[i] == rem[i + 1]); }
        assert forall|i: int, j: int| 0 <= i < j < rest.len() implies rest[i].0 < rest[j].0 by { assert(rest[i] == rem[i + 1] && rest[j] == rem[j + 1]); }
        lemma_forward_each_once(rest, res, h);
        let a = handles_of(rem[0].1.begin2end@);
        vstd::seq_lib::lemma_multiset_commutative(a, flat_b2e(rest));
        assert(flat_b2e(rem) == a + flat_b2e(rest));
        assert(flat_b2e(rem).to_multiset().count(h) == a.to_multiset().count(h) + flat_b2e(rest).to_multiset().count(h));
        assert(entry_exact(rem[0], res));
        if res.sel(h) is Some {
            let p = res.sel(h).unwrap().begin;
            if has_key(rest, p) { let i = choose|i: int| 0 <= i < rest.len() && rest[i].0 == p; assert(rem[i + 1].0 == p); assert(rem[0].0 < rem[i + 1].0); }
            if has_key(rem, p) && rem[0].0 != p { let i = choose|i: int| 0 <= i < rem.len() && rem[i].0 == p; assert(rest[i - 1].0 == p); }
            if rem[0].0 == p { assert(has_key(rem, p)); }
        }
    }
}
/// a backward walk yields every selection that ends at one of the positions exactly once
pub proof fn lemma_backward_each_once(rem: Seq<(usize, PositionIndexItem)>, res: &TextResource, h: TextSelectionHandle)
    requires entries_ok(rem, res),
    ensures flat_e2b_back(rem).to_multiset().count(h) == (if res.sel(h) is Some && has_key(rem, res.sel(h).unwrap().end) { 1nat } else { 0nat }),
    decreases rem.len(),
{
    if rem.len() == 0 {
        assert(flat_e2b_back(rem) =~= Seq::<TextSelectionHandle>::empty());
        vstd::seq_lib::to_multiset_contains(flat_e2b_back(rem), h);
        assert(!has_key(rem, if res.sel(h) is Some { res.sel(h).unwrap().end } else { 0usize }));
    } else {
        let rest = rem.drop_last();
        assert forall|i: int| 0 <= i < rest.len() implies entry_exact(#[trigger] rest[i], res) by { assert(rest[i] == rem[i]); }
        assert forall|i: int, j: int| 0 <= i < j < rest.len() implies rest[i].0 < rest[j].0 by { assert(rest[i] == rem[i] && rest[j] == rem[j]); }
        lemma_backward_each_once(rest, res, h);
        let a = handles_of(rem.last().1.end2begin@);
        vstd::seq_lib::lemma_multiset_commutative(a, flat_e2b_back(rest));
        assert(flat_e2b_back(rem) == a + flat_e2b_back(rest));
        assert(flat_e2b_back(rem).to_multiset().count(h) == a.to_multiset().count(h) + flat_e2b_back(rest).to_multiset().count(h));
        assert(entry_exact(rem[rem.len() - 1], res));
        if res.sel(h) is Some {
            let p = res.sel(h).unwrap().end;
            if has_key(rest, p) { let i = choose|i: int| 0 <= i < rest.len() && rest[i].0 == p; assert(rem[i].0 == p); assert(rem[i].0 < rem[rem.len() - 1].0); }
            if has_key(rem, p) && rem.last().0 != p { let i = choose|i: int| 0 <= i < rem.len() && rem[i].0 == p; assert(rest[i].0 == p); }
            if rem.last().0 == p { assert(rem[rem.len() - 1].0 == p); assert(has_key(rem, p)); }
        }
    }
}

impl<'a> TextSelectionIter<'a> {
    /// what `next()` will still yield, in order
    #[verifier::prophetic]
    pub open spec fn fwd(&self) -> Seq<TextSelectionHandle> { cur_handles(self.begin2enditer) + flat_b2e(self.iter.rem()) }
    /// what `next_back()` will still yield, in order
    #[verifier::prophetic]
    pub open spec fn back(&self) -> Seq<TextSelectionHandle> { cur_handles(self.end2beginiter) + flat_e2b_back(self.iter.rem()) }
    #[verifier::prophetic]
    pub open spec fn ok(&self) -> bool { cur_ok(self.begin2enditer) && cur_ok(self.end2beginiter) }
}
'''


def build():
    u = Unit('u_tsiter', serves=['C06'])
    u.use('use std::slice::Iter;')
    u.use('use vstd::std_specs::iter::IteratorSpec;')
    common.target64(u)
    common.handle_trait(u, P)
    common.handle_impl(u, 'TextSelectionHandle', P)
    u.item(T, 'struct', 'TextSelection', keep_derives=['Clone', 'Copy'])
    u.item(T, 'struct', 'PositionIndexItem', keep_derives=[],
           rewrites=[('R-smallvec', r'SmallVec<\[\(usize, TextSelectionHandle\); 1\]>', 'Vec<(usize, TextSelectionHandle)>')])
    u.item('src/error.rs', 'enum', 'StamError', keep_variants=['HandleError'], keep_derives=['Debug'])
    u.trusted_text(STUBS, 'external_body VxRange (btree_map::Range: double-ended, key order), TextResource::get (lookup of a text selection by handle)')
    u.item(R, 'struct', 'TextSelectionIter', keep_derives=[],
           rewrites=[('R-opaque', r"btree_map::Range<'a, usize, PositionIndexItem>", "VxRange<'a>"),
                     ('R-vis', r'(?m)^(\s*)(iter|begin2enditer|end2beginiter|resource):', r'\1pub \2:')])
    u.spec(SPEC, 'contracts/u_tsiter.py:SPEC')
    u.impl(T, 'impl TextSelection', [
        Fn('begin', props=P, ret='r', ensures=[('begin', 'r == self.begin')]),
        Fn('end', props=P, ret='r', ensures=[('end', 'r == self.end')]),
    ])
    # TextResource::range / iter: which entries of the index a walk starts with (BTreeMap::range outlined)
    u.impl(R, 'impl TextResource', [
        Fn('range', props=P, ret='r',
           rewrites=[('R-outline', r'(?s)self\s*\.positionindex\s*\.0\s*\.range\(\(Included\(&begin\), Excluded\(&end\)\)\)', 'self.vx_index_range(begin, end)')],
           # the entries whose position lies in [begin, end): a range that ends before it begins holds nothing
           ensures=[('entries_of_the_range', 'r.iter.rem() == entries_between(self.index(), begin as int, if end < begin { begin as int } else { end as int })'),
                    ('fresh', 'r.begin2enditer is None && r.end2beginiter is None && *r.resource == *self'),
                    ('ok', 'r.ok()')]),
        Fn('iter', props=P, ret='r',
           requires=[('fits', 'self.tl() < usize::MAX')],
           ensures=[('all_entries', 'r.iter.rem() == entries_between(self.index(), 0, self.tl() as int + 1)'),
                    ('fresh', 'r.begin2enditer is None && r.end2beginiter is None && *r.resource == *self')]),
    ])

    def it_fn(name, seq, other, cur, flat_lemma):
        return Fn(name, props=P, ret='r',
                  sig_rewrites=[('R-inherent', r'Self::Item', "&'a TextSelection")],
                  rewrites=[('R-expect', r'\.expect\("handle must exist"\)', '.unwrap()')],
                  requires=[('ok', 'old(self).ok()'),
                            ('live', f'forall|i: int| 0 <= i < old(self).{seq}().len() ==> old(self).resource.sel(#[trigger] old(self).{seq}()[i]) is Some')],
                  ensures=[('none_iff_done', f'r is None <==> old(self).{seq}().len() == 0'),
                           ('yields_head', f'r is Some ==> *r.unwrap() == old(self).resource.sel(old(self).{seq}()[0]).unwrap()'),
                           ('advances', f'r is Some ==> final(self).{seq}() =~= old(self).{seq}().skip(1)'),
                           ('done_stays', f'r is None ==> final(self).{seq}().len() == 0'),
                           ('ok', 'final(self).ok() && final(self).resource == old(self).resource')],
                  loops={0: dict(invariant=[
                      ('ok', 'self.ok() && self.resource == old(self).resource'),
                      ('same', f'self.{seq}() =~= old(self).{seq}()'),
                      ('live', f'forall|i: int| 0 <= i < self.{seq}().len() ==> self.resource.sel(#[trigger] self.{seq}()[i]) is Some'),
                  ], decreases=f'self.iter.rem().len(), (if self.{cur} is Some {{ 1int }} else {{ 0int }})')})

    u.impl(R, "impl<'a> Iterator for TextSelectionIter<'a>", [it_fn('next', 'fwd', 'back', 'begin2enditer', 'b2e')],
           verus_header="impl<'a> TextSelectionIter<'a>")
    u.impl(R, "impl<'a> DoubleEndedIterator for TextSelectionIter<'a>", [it_fn('next_back', 'back', 'fwd', 'end2beginiter', 'e2b')],
           verus_header="impl<'a> TextSelectionIter<'a>")
    return u

// replay of the defect repaired by /repo commit de6c99c (C08): copy to /repo/tests/ and run it with cargo test; it fails on the parent commit.
// STAMQL: a *quoted* value literal is re-typed by its content. "true"/"false" become booleans,
// "null" becomes the null test, "any" becomes the match-everything operator and a quoted RFC3339 date
// becomes a datetime test. String values that read true / null / any / <a date> can therefore not be
// looked up by value (and "any" returns everything); in an ADD query the same literals panic.
use stam::*;

fn date() -> &'static str {
    "2024-01-01T00:00:00+00:00"
}

fn store() -> AnnotationStore {
    let mut store = AnnotationStore::default()
        .with_id("s")
        .with_resource(
            TextResourceBuilder::new()
                .with_id("r")
                .with_text("Hello world"),
        )
        .unwrap();
    let values: Vec<DataValue> = vec![
        "x".into(),
        "true".into(),
        true.into(),
        "null".into(),
        DataValue::Null,
        "any".into(),
        date().into(),
        DataValue::Datetime(DateTime::parse_from_rfc3339(date()).unwrap()),
        "42".into(),
        42.into(),
    ];
    for (i, value) in values.into_iter().enumerate() {
        store
            .annotate(
                AnnotationBuilder::new()
                    .with_id(format!("a{i}"))
                    .with_target(SelectorBuilder::textselector("r", Offset::simple(0, 5)))
                    .with_data("A", "k", value),
            )
            .unwrap();
    }
    store
}

/// the data found by the STAMQL query  DATA "A" "k" = "<literal>"
fn by_query(store: &AnnotationStore, literal: &str) -> Vec<DataValue> {
    let qs = format!("SELECT DATA ?d WHERE DATA \"A\" \"k\" = \"{literal}\";");
    let query: Query = qs.as_str().try_into().expect("query must parse");
    let mut out = Vec::new();
    for results in store.query(query).expect("query must run") {
        if let Ok(QueryResultItem::AnnotationData(d)) = results.get_by_name("d") {
            out.push(d.value().clone());
        }
    }
    out
}

/// full scan with the documented semantics of string equality (DataOperator::Equals)
fn by_scan(store: &AnnotationStore, literal: &str) -> Vec<DataValue> {
    let op = DataOperator::Equals(literal.into());
    store
        .dataset("A")
        .unwrap()
        .data()
        .filter(|d| d.value().test(&op))
        .map(|d| d.value().clone())
        .collect()
}

#[test]
fn quoted_literal_is_a_string_test() {
    let store = store();
    // sanity: an ordinary string works
    assert_eq!(by_query(&store, "x"), by_scan(&store, "x"));
    for literal in ["true", "null", "any", date(), "42"] {
        let scan = by_scan(&store, literal);
        assert!(
            scan.contains(&DataValue::String(literal.to_string())),
            "scan finds the string value"
        );
        assert_eq!(
            by_query(&store, literal),
            scan,
            "DATA \"A\" \"k\" = \"{literal}\" (quoted, i.e. a string) must select exactly what a scan with DataOperator::Equals(\"{literal}\") selects, including the string value \"{literal}\""
        );
    }
}

#[test]
fn add_with_quoted_literal_stores_a_string() {
    for literal in ["null", date(), "true"] {
        let mut store = store();
        let qs = format!(
            "ADD ANNOTATION ?a WITH DATA \"A\" \"new\" \"{literal}\"; TARGET ?t; {{ SELECT TEXT ?t WHERE RESOURCE \"r\" OFFSET 0 5; }}"
        );
        let query: Query = qs.as_str().try_into().expect("query must parse");
        // (panics with 'entered unreachable code: argtype should not occur' for "null" and the date)
        let mut value = None;
        for results in store.query_mut(query).expect("query must run") {
            if let Ok(QueryResultItem::Annotation(a)) = results.get_by_name("a") {
                value = a.data().next().map(|d| d.value().clone());
            }
        }
        assert_eq!(
            value,
            Some(DataValue::String(literal.to_string())),
            "ADD ... DATA \"A\" \"new\" \"{literal}\" (quoted) must store the string \"{literal}\""
        );
    }
}

"""Brace/string/comment-aware scanner for Rust source text.

Used by the extractor to cut functions, impl headers, structs and enums out of /repo/src
byte for byte.  No parsing beyond what is needed to find item boundaries.
"""
import re
import bisect


class ExtractError(Exception):
    """Infrastructure failure (lost anchor, item not found). Maps to exit 2, never to exit 1."""


def code_mask(text):
    """Return a bytearray m with m[i]==1 iff text[i] is code (not inside a comment, string or
    char literal).  Delimiters of strings/chars/comments are marked 0 as well."""
    n = len(text)
    m = bytearray(b"\x01") * n
    i = 0
    while i < n:
        c = text[i]
        if c == '/' and i + 1 < n and text[i + 1] == '/':
            j = text.find('\n', i)
            if j < 0:
                j = n
            for k in range(i, j):
                m[k] = 0
            i = j
        elif c == '/' and i + 1 < n and text[i + 1] == '*':
            depth = 1
            j = i + 2
            while j < n and depth > 0:
                if text.startswith('/*', j):
                    depth += 1
                    j += 2
                elif text.startswith('*/', j):
                    depth -= 1
                    j += 2
                else:
                    j += 1
            for k in range(i, j):
                m[k] = 0
            i = j
        elif c == '"' or (c == 'r' and re.match(r'r#*"', text[i:i + 8]) and (i == 0 or not (text[i - 1].isalnum() or text[i - 1] == '_'))) \
                or (c == 'b' and i + 1 < n and text[i + 1] == '"' and (i == 0 or not (text[i - 1].isalnum() or text[i - 1] == '_'))):
            if c == 'b':
                i += 1
                c = '"'
                m[i - 1] = 0
            if c == 'r':
                mm = re.match(r'r(#*)"', text[i:])
                hashes = mm.group(1)
                endtok = '"' + hashes
                j = text.find(endtok, i + len(mm.group(0)))
                j = n if j < 0 else j + len(endtok)
            else:
                j = i + 1
                while j < n and text[j] != '"':
                    if text[j] == '\\':
                        j += 1
                    j += 1
                j += 1
            for k in range(i, min(j, n)):
                m[k] = 0
            i = j
        elif c == "'":
            # char literal or lifetime
            if i + 1 < n and text[i + 1] == '\\':
                j = text.find("'", i + 2)
                # handle '\'' : the quote right after backslash is escaped
                if j == i + 2:
                    j = text.find("'", i + 3)
                j = n if j < 0 else j + 1
                for k in range(i, j):
                    m[k] = 0
                i = j
            elif i + 2 < n and text[i + 2] == "'":
                for k in range(i, i + 3):
                    m[k] = 0
                i += 3
            else:
                i += 1  # lifetime
        else:
            i += 1
    return m


class RustFile:
    def __init__(self, path, text=None):
        self.path = path
        if text is None:
            with open(path, encoding='utf-8') as f:
                text = f.read()
        self.text = text
        self.mask = code_mask(text)
        self._line_starts = [0]
        for mm in re.finditer('\n', text):
            self._line_starts.append(mm.end())

    def line_of(self, idx):
        return bisect.bisect_right(self._line_starts, idx)

    def line_start(self, idx):
        return self._line_starts[self.line_of(idx) - 1]

    def is_code(self, idx):
        return self.mask[idx] == 1

    def match_close(self, open_idx):
        """index of the bracket matching the one at open_idx ('{', '(' or '[')."""
        t = self.text
        o = t[open_idx]
        c = {'{': '}', '(': ')', '[': ']'}[o]
        depth = 0
        for i in range(open_idx, len(t)):
            if not self.mask[i]:
                continue
            ch = t[i]
            if ch == o:
                depth += 1
            elif ch == c:
                depth -= 1
                if depth == 0:
                    return i
        raise ExtractError(f"{self.path}: unbalanced {o} at line {self.line_of(open_idx)}")

    def code_finditer(self, regex, start=0, end=None):
        end = len(self.text) if end is None else end
        for mm in re.compile(regex).finditer(self.text, start, end):
            if self.mask[mm.start()]:
                yield mm

    def depth_at(self, idx, start=0):
        d = 0
        t = self.text
        for i in range(start, idx):
            if self.mask[i]:
                if t[i] == '{':
                    d += 1
                elif t[i] == '}':
                    d -= 1
        return d

    def next_body_open(self, idx, end=None):
        """first '{' or ';' at (paren,bracket) depth 0 after idx. Returns (index, char)."""
        t = self.text
        end = len(t) if end is None else end
        pd = 0
        i = idx
        while i < end:
            if self.mask[i]:
                ch = t[i]
                if ch in '([':
                    pd += 1
                elif ch in ')]':
                    pd -= 1
                elif pd == 0 and ch in '{;':
                    return i, ch
            i += 1
        raise ExtractError(f"{self.path}: no body after line {self.line_of(idx)}")

    # ------------------------------------------------------------------ items
    def find_impl(self, header, nth=0):
        """Locate `impl ... {` whose whitespace-normalised header (text from 'impl' up to the
        opening brace) starts with the whitespace-normalised `header` and where the next
        non-space char after that prefix is end / 'where' / '{'.
        Returns (hdr_start, open_idx, close_idx)."""
        want = norm_ws(re.sub(r'^\s*pub(\s*\([^)]*\))?\s+', '', header))
        found = []
        for mm in self.code_finditer(r'\b(?:unsafe\s+)?(?:impl|trait)\b'):
            if self.depth_at(mm.start()) != 0 and not self._inside_mod_only(mm.start()):
                continue
            try:
                o, ch = self.next_body_open(mm.start())
            except ExtractError:
                continue
            if ch != '{':
                continue
            hdr = norm_ws(strip_comments(self, mm.start(), o))
            if hdr == want or (hdr.startswith(want) and hdr[len(want):].lstrip().startswith('where')):
                ls = self.line_start(mm.start())
                pm = re.search(r'(pub(?:\s*\([^)]*\))?\s+)$', self.text[ls:mm.start()])
                hs = mm.start() - (len(pm.group(1)) if pm else 0)
                found.append((hs, o, self.match_close(o)))
        if len(found) <= nth:
            raise ExtractError(f"{self.path}: impl/trait header not found: {header!r} (nth={nth}, found {len(found)})")
        return found[nth]

    def _inside_mod_only(self, idx):
        """true iff every block enclosing idx is a `mod name { .. }`"""
        t = self.text
        stack = []
        for i in range(0, idx):
            if self.mask[i]:
                if t[i] == '{':
                    stack.append(i)
                elif t[i] == '}':
                    if stack:
                        stack.pop()
        for o in stack:
            ls = self.line_start(o)
            hdr = t[ls:o]
            # header may span lines; look back to previous ';' or '}' or '{'
            j = o - 1
            while j >= 0 and not (self.mask[j] and t[j] in ';{}'):
                j -= 1
            hdr = t[j + 1:o]
            if not re.search(r'\bmod\s+\w+\s*$', strip_comments(self, j + 1, o).strip()):
                return False
        return True

    def find_fn(self, name, within=None, nth=0):
        """Locate fn `name` directly inside `within`=(open_idx, close_idx) of an impl/trait
        block, or at top level when within is None.
        Returns dict(start, sig_end, body_open|None, end) where text[start:end] is the item
        without leading attributes/doc comments; start is at the visibility/`fn` keyword."""
        if within is None:
            lo, hi, want_depth = 0, len(self.text), 0
        else:
            lo, hi, want_depth = within[0] + 1, within[1], 0
        found = []
        for mm in self.code_finditer(r'\bfn\s+' + re.escape(name) + r'\b', lo, hi):
            if self.depth_at(mm.start(), lo) != want_depth:
                continue
            # extend backwards over qualifiers on the same line
            ls = self.line_start(mm.start())
            prefix = self.text[ls:mm.start()]
            pm = re.search(r'((?:pub(?:\s*\([^)]*\))?\s+)?(?:(?:const|async|unsafe|default)\s+)*)$', prefix)
            start = mm.start() - len(pm.group(1)) if pm else mm.start()
            o, ch = self.next_body_open(mm.end(), hi)
            if ch == '{':
                end = self.match_close(o) + 1
                found.append(dict(start=start, body_open=o, end=end, name_end=mm.end()))
            else:
                found.append(dict(start=start, body_open=None, end=o + 1, name_end=mm.end()))
        if len(found) <= nth:
            raise ExtractError(f"{self.path}: fn {name} not found (nth={nth}, within={within and self.line_of(within[0])})")
        return found[nth]

    def find_item(self, kind, name):
        """struct / enum / type / const / trait at brace depth 0. Returns (start, end, attrs_text)
        where text[start:end] is the item from its visibility keyword to closing '}' or ';',
        and attrs_text is the block of attribute / doc lines immediately above it."""
        for mm in self.code_finditer(r'\b' + kind + r'\s+' + re.escape(name) + r'\b'):
            if self.depth_at(mm.start()) != 0:
                continue
            ls = self.line_start(mm.start())
            prefix = self.text[ls:mm.start()]
            pm = re.search(r'((?:pub(?:\s*\([^)]*\))?\s+)?)$', prefix)
            start = mm.start() - len(pm.group(1))
            o, ch = self.next_body_open(mm.end())
            if ch == '{':
                end = self.match_close(o) + 1
            else:
                end = o + 1
            # attributes above
            a = ls
            lines = []
            while a > 0:
                pl = self.line_start(a - 1)
                s = self.text[pl:a].strip()
                if s.startswith('#[') or s.startswith('///') or s.startswith('//') or s == '' and False:
                    lines.insert(0, self.text[pl:a])
                    a = pl
                elif s.endswith(')]') or s.endswith(',') and lines:
                    # continuation of a multi-line attribute: walk up until the line starting with #[
                    b = pl
                    ok = False
                    while b >= 0:
                        s2 = self.text[b:self.text.find('\n', b)].strip()
                        if s2.startswith('#['):
                            ok = True
                            break
                        if b == 0:
                            break
                        b = self.line_start(b - 1)
                    if ok:
                        lines.insert(0, self.text[b:a])
                        a = b
                    else:
                        break
                else:
                    break
            return start, end, ''.join(lines)
        raise ExtractError(f"{self.path}: {kind} {name} not found")


def norm_ws(s):
    s = re.sub(r'\s+', ' ', s).strip()
    s = re.sub(r'\s*([<>,:&()])\s*', r'\1', s)
    return s


def strip_comments(rf, a, b):
    out = []
    t = rf.text
    i = a
    while i < b:
        if not rf.mask[i] and (t.startswith('//', i) or t.startswith('/*', i)):
            # skip the comment
            j = i
            while j < b and not rf.mask[j]:
                j += 1
            i = j
            out.append(' ')
        else:
            out.append(t[i])
            i += 1
    return ''.join(out)


def split_top_level(text, sep=','):
    """split text at top-level separators (outside (), [], {}, <>) — text is assumed to be code
    without string literals containing brackets."""
    parts = []
    depth = 0
    cur = []
    i = 0
    n = len(text)
    while i < n:
        ch = text[i]
        if ch in '([{':
            depth += 1
        elif ch in ')]}':
            depth -= 1
        elif ch == '<':
            depth += 1
        elif ch == '>' and i > 0 and text[i - 1] != '-' and text[i - 1] != '=':
            depth -= 1
        if ch == sep and depth == 0:
            parts.append(''.join(cur))
            cur = []
        else:
            cur.append(ch)
        i += 1
    if ''.join(cur).strip():
        parts.append(''.join(cur))
    return parts

// replay of the defect repaired by /repo commit c77478d (C14): copy to /repo/tests/ and run it with cargo test; it fails on the parent commit.
// An ADD (or DELETE) query that names nothing to target (no sub-query) is an invalid request.
// It must be answered with an error; the library panics instead (unreachable!).
use stam::*;

fn base() -> AnnotationStore {
    AnnotationStore::default()
        .with_id("test")
        .with_resource(
            TextResourceBuilder::new()
                .with_id("testres")
                .with_text("Hello world"),
        )
        .unwrap()
        .with_dataset(
            AnnotationDataSetBuilder::new()
                .with_id("testdataset")
                .with_key_value_id("pos", "noun", "D1"),
        )
        .unwrap()
        .with_annotation(
            AnnotationBuilder::new()
                .with_id("A1")
                .with_target(SelectorBuilder::textselector(
                    "testres",
                    Offset::simple(6, 11),
                ))
                .with_existing_data("testdataset", "D1"),
        )
        .unwrap()
}

#[test]
fn add_query_without_target_is_refused_not_a_panic() {
    let mut store = base();
    let outcome = std::panic::catch_unwind(std::panic::AssertUnwindSafe(|| {
        let query: Query = "ADD ANNOTATION ?a WITH DATA \"testdataset\" \"type\" \"phrase\";"
            .try_into()
            .expect("the parser accepts the query");
        store.query_mut(query).map(|_| ())
    }));
    match outcome {
        Ok(result) => assert!(
            result.is_err(),
            "an ADD query without a target can not add anything: expected an error"
        ),
        Err(_) => panic!("an ADD query without a target must return an error, it panicked"),
    }
    assert_eq!(store.annotations().count(), 1, "nothing was added");
    assert!(store.key("testdataset", "type").is_none(), "no key appeared");

    // the corrected query
    let query: Query = "ADD ANNOTATION ?a WITH DATA \"testdataset\" \"type\" \"phrase\"; TARGET ?x; { SELECT ANNOTATION ?x WHERE ID \"A1\"; }"
        .try_into()
        .unwrap();
    let count = store.query_mut(query).expect("valid ADD query").count();
    assert_eq!(count, 1);
    assert_eq!(store.annotations().count(), 2);
}

#[test]
fn delete_query_without_subquery_is_refused_not_a_panic() {
    let mut store = base();
    let outcome = std::panic::catch_unwind(std::panic::AssertUnwindSafe(|| {
        let query: Query = "DELETE ANNOTATION ?a"
            .try_into()
            .expect("the parser accepts the query");
        store.query_mut(query).map(|_| ())
    }));
    match outcome {
        Ok(result) => assert!(result.is_err(), "expected an error"),
        Err(_) => panic!("a DELETE query without a sub-query must return an error, it panicked"),
    }
    assert_eq!(store.annotations().count(), 1, "nothing was deleted");
}

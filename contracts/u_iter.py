"""U-iter: LimitIter::next (src/api.rs) against the slice specification of LIMIT, for any lawful inner
iterator.  Serves C08 (narrow)."""
from vx.gen import Unit, Fn
from . import common

P = ['C08']
F = 'src/api.rs'

SPEC = r'''
pub open spec fn clampi(x: int, lo: int, hi: int) -> int { if x < lo { lo } else if x > hi { hi } else { x } }

/// s[lo..hi) with both bounds clamped into the sequence; empty when lo >= hi
pub open spec fn sub<T>(s: Seq<T>, lo: int, hi: int) -> Seq<T> {
    let l = clampi(lo, 0, s.len() as int);
    let h = clampi(hi, 0, s.len() as int);
    if l < h { s.subrange(l, h) } else { Seq::empty() }
}

/// The meaning of LIMIT begin end over the unlimited results s ("an arbitrary subrange, even with relative
/// coordinates"): non-negative numbers are absolute positions, negative numbers count from the end, end == 0
/// means "until the end".
pub open spec fn slice_spec<T>(s: Seq<T>, b: int, e: int) -> Seq<T> {
    let n = s.len() as int;
    let lo = if b >= 0 { b } else { n + b };
    let hi = if e == 0 { n } else if e > 0 { e } else { n + e };
    sub(s, lo, hi)
}

/// what a LimitIter in a given state will still yield: buf = buffer, rem = what the inner iterator will
/// still yield, c = number of inner items consumed so far
pub open spec fn lim_future<T>(emptying: bool, buf: Seq<T>, rem: Seq<T>, c: int, b: int, e: int) -> Seq<T> {
    if emptying { buf }
    else if b >= 0 && e >= 0 { if e == 0 { sub(rem, b - c, rem.len() as int) } else { sub(rem, b - c, e - c) } }
    else if b >= 0 { let t = buf + sub(rem, b - c, rem.len() as int); sub(t, 0, t.len() + e) }
    else if e == 0 { let t = buf + rem; sub(t, t.len() + b, t.len() as int) }
    else if e < 0 { let t = buf + rem; sub(t, t.len() + b, t.len() + e) }
    else { let t = buf + sub(rem, 0, e - c); sub(t, c + rem.len() + b, t.len() as int) }
}

/// relation between the buffer and the number of consumed items, per mode
pub open spec fn lim_inv(emptying: bool, buflen: int, c: int, b: int, e: int) -> bool {
    c >= 0 && (emptying || (
        if b >= 0 && e >= 0 { buflen == 0 }
        else if b >= 0 { buflen == (if c > b { c - b } else { 0 }) }
        else if e == 0 { buflen == (if c < -b { c } else { -b }) }
        else if e < 0 { buflen == c }
        else { buflen == (if c < e { c } else { e }) }))
}

/// a fresh LimitIter yields exactly the requested slice of the inner iterator
pub proof fn lemma_limit_is_slice<T>(s: Seq<T>, b: int, e: int)
    ensures lim_future(false, Seq::<T>::empty(), s, 0, b, e) =~= slice_spec(s, b, e), lim_inv(false, 0, 0, b, e),
{
    let n = s.len() as int;
    if b >= 0 && e < 0 {
        let t = Seq::<T>::empty() + sub(s, b, n);
        assert(t =~= sub(s, b, n));
    } else if b < 0 && e > 0 {
        let t = Seq::<T>::empty() + sub(s, 0, e);
        assert(t =~= sub(s, 0, e));
    } else if b < 0 {
        assert(Seq::<T>::empty() + s =~= s);
    }
}

// ------------------------------------------------------------------ transition lemmas (pure sequence arithmetic)

/// one item x = rem[0] is taken from the inner iterator; nb is the buffer afterwards
pub open spec fn step_buffer<T>(buf: Seq<T>, x: T, c: int, b: int, e: int) -> Seq<T> {
    if b >= 0 && e >= 0 { buf }
    else if b >= 0 { if c >= b { buf.push(x) } else { buf } }
    else if e == 0 { let p = buf.push(x); if p.len() > -b { p.skip(p.len() - (-b)) } else { p } }
    else if e < 0 { buf.push(x) }
    else { if c < e { buf.push(x) } else { buf } }
}

/// the item is emitted directly (simple case)
pub proof fn lemma_emit<T>(rem: Seq<T>, c: int, b: int, e: int)
    requires rem.len() > 0, b >= 0, c >= b, e == 0 || c < e, c >= 0,
    ensures
        lim_future(false, Seq::<T>::empty(), rem, c, b, e).len() > 0,
        lim_future(false, Seq::<T>::empty(), rem, c, b, e)[0] == rem[0],
        lim_future(false, Seq::<T>::empty(), rem.skip(1), c + 1, b, e) =~= lim_future(false, Seq::<T>::empty(), rem, c, b, e).skip(1),
{
}

/// past a positive end: nothing more is ever emitted
pub proof fn lemma_past_end<T>(rem: Seq<T>, c: int, b: int, e: int)
    requires b >= 0, e > 0, c >= e || (rem.len() == 0), c >= 0,
    ensures lim_future(false, Seq::<T>::empty(), rem, c, b, e).len() == 0,
{
}

/// an item is consumed without being emitted: the future is unchanged
pub proof fn lemma_consume<T>(buf: Seq<T>, rem: Seq<T>, c: int, b: int, e: int)
    requires
        rem.len() > 0, c >= 0, lim_inv(false, buf.len() as int, c, b, e),
        !(b >= 0 && c >= b && (e == 0 || c < e)),   // not the direct-emit case
    ensures
        lim_future(false, step_buffer(buf, rem[0], c, b, e), rem.skip(1), c + 1, b, e) =~= lim_future(false, buf, rem, c, b, e),
        lim_inv(false, step_buffer(buf, rem[0], c, b, e).len() as int, c + 1, b, e),
{
    let x = rem[0];
    let r1 = rem.skip(1);
    if b >= 0 && e >= 0 {
    } else if b >= 0 {
        // e < 0
        if c >= b {
            let t0 = buf + sub(rem, b - c, rem.len() as int);
            let t1 = buf.push(x) + sub(r1, b - (c + 1), r1.len() as int);
            assert(sub(rem, b - c, rem.len() as int) =~= rem);
            assert(sub(r1, b - (c + 1), r1.len() as int) =~= r1);
            assert(t0 =~= t1);
        } else {
            let t0 = buf + sub(rem, b - c, rem.len() as int);
            let t1 = buf + sub(r1, b - (c + 1), r1.len() as int);
            assert(sub(rem, b - c, rem.len() as int) =~= sub(r1, b - (c + 1), r1.len() as int));
        }
    } else if e == 0 {
        let p = buf.push(x);
        let t0 = buf + rem;
        assert(t0 =~= p + r1);
        if p.len() > -b {
            let nb = p.skip(p.len() - (-b));
            let t1 = nb + r1;
            assert(sub(t1, t1.len() + b, t1.len() as int) =~= sub(t0, t0.len() + b, t0.len() as int));
        }
    } else if e < 0 {
        assert(buf + rem =~= buf.push(x) + r1);
    } else {
        // b < 0, e > 0
        if c < e {
            let t0 = buf + sub(rem, 0, e - c);
            let t1 = buf.push(x) + sub(r1, 0, e - (c + 1));
            assert(t0 =~= t1);
        } else {
            assert(sub(rem, 0, e - c) =~= Seq::<T>::empty());
            assert(sub(r1, 0, e - (c + 1)) =~= Seq::<T>::empty());
        }
    }
}

/// the pruned buffer at the end of the inner iterator
pub open spec fn end_buffer<T>(buf: Seq<T>, c: int, b: int, e: int) -> Seq<T> {
    if b >= 0 { sub(buf, 0, buf.len() + e) }                                  // e < 0
    else if e == 0 { buf }
    else if e < 0 { let k = sub(buf, buf.len() + b, buf.len() as int); sub(k, 0, k.len() + e) }
    else { sub(buf, c + b, buf.len() as int) }
}

pub proof fn lemma_end<T>(buf: Seq<T>, c: int, b: int, e: int)
    requires !(b >= 0 && e >= 0), lim_inv(false, buf.len() as int, c, b, e),
    ensures lim_future(false, buf, Seq::<T>::empty(), c, b, e) =~= end_buffer(buf, c, b, e),
{
    let em = Seq::<T>::empty();
    assert(buf + em =~= buf);
    if b >= 0 {
        assert(sub(em, b - c, 0) =~= em);
    } else if e > 0 {
        assert(sub(em, 0, e - c) =~= em);
    }
}
'''


def build():
    u = Unit('u_iter', serves=['C08'])
    u.use('use std::collections::VecDeque;')
    u.use('use vstd::std_specs::iter::IteratorSpec;')
    common.target64(u)
    common.int_specs(u)
    u.item(F, 'struct', 'LimitIter', keep_derives=[],
           rewrites=[('R-vis', r'\b(inner|cursor|begin|end|emptybuffer|buffer):', r'pub \1:')])
    u.spec(SPEC, 'contracts/u_iter.py:SPEC')
    u.spec(r'''
impl<I: Iterator> LimitIter<I> {
    #[verifier::prophetic]
    pub open spec fn future(&self) -> Seq<I::Item> {
        lim_future(self.emptybuffer, self.buffer@, self.inner.remaining(), self.cursor as int, self.begin as int, self.end as int)
    }
    #[verifier::prophetic]
    pub open spec fn inv(&self) -> bool {
        self.inner.obeys_prophetic_iter_laws() && self.inner.decrease() is Some
        && self.begin != isize::MIN && self.end != isize::MIN
        && self.cursor + self.inner.remaining().len() < isize::MAX
        && lim_inv(self.emptybuffer, self.buffer@.len() as int, self.cursor as int, self.begin as int, self.end as int)
    }
}
''', 'contracts/u_iter.py:future')
    u.impl(F, 'impl<I> Iterator for LimitIter<I>', [
        Fn('next', props=P, ret='r', sig_rewrites=[('R-inherent', r'Self::Item', 'I::Item')],
           requires=[('inv', 'old(self).inv()')],
           ensures=[('yields_head', 'r == (if old(self).future().len() == 0 { None } else { Some(old(self).future()[0]) })'),
                    ('advances', 'final(self).future() =~= (if old(self).future().len() == 0 { old(self).future() } else { old(self).future().skip(1) })'),
                    ('inv', 'final(self).inv()')],
           rewrites=[('R-forname', r'for _ in 0\.\.excess \{', 'for _ in vx_it: 0..excess {'),
                     # R-hoist: the range end is bound to a local first (Rust evaluates a range expression once, before iterating)
                     ('R-hoist', r'for _ in 0\.\.skip\.min\(self\.buffer\.len\(\)\) \{', 'let vx_end3 = skip.min(self.buffer.len()); for _ in vx_it: 0..vx_end3 {'),
                     ('R-forname', r'for _ in 0\.\.self\.end\.abs\(\) \{', 'for _ in vx_it: 0..self.end.abs() {')],
           before=[('for _ in vx_it: 0..excess {', 'let ghost vx_b1 = self.buffer@;'),
                   ('while self.buffer.len() > self.begin.unsigned_abs() {', 'let ghost vx_b2 = self.buffer@;'),
                   ('let vx_end3 = skip.min(self.buffer.len());', 'let ghost vx_b3 = self.buffer@; let ghost vx_n3: int = if skip < self.buffer@.len() { skip as int } else { self.buffer@.len() as int };'),
                   ('for _ in vx_it: 0..self.end.abs() {', 'let ghost vx_b4 = self.buffer@;'),
                   ('self.cursor += 1;', 'proof { lemma_consume(vx_buf0, vx_rem0, self.cursor as int, self.begin as int, self.end as int); assert(self.buffer@ =~= step_buffer(vx_buf0, item, self.cursor as int, self.begin as int, self.end as int)); }', 2, 'advances')],
           loops={r'^loop\s*$': dict(invariant=[('inv', 'self.inv()'), ('future', 'self.future() =~= old(self).future()'),
                                     ('fixed', 'self.begin == old(self).begin && self.end == old(self).end')],
                          decreases='(if self.emptybuffer { 0int } else { 1int }), self.inner.decrease().unwrap()'),
                  r'0\.\.excess': dict(invariant=[('trim', 'self.buffer@ =~= vx_b1.skip(vx_it.index@ as int) && vx_it.index@ <= excess && excess <= vx_b1.len()'),
                                     ('rest', 'self.inner == vx_inner && self.cursor == vx_cursor && self.begin == old(self).begin && self.end == old(self).end && self.emptybuffer == false')]),
                  r'while self\.buffer\.len\(\) >': dict(invariant=[('trim', 'self.buffer@ =~= vx_b2.skip(vx_b2.len() - self.buffer@.len()) && self.buffer@.len() <= vx_b2.len() && self.buffer@.len() >= (if vx_b2.len() < -self.begin { vx_b2.len() as int } else { -self.begin })'),
                                     ('rest', 'self.inner == vx_inner && self.cursor == vx_cursor && self.begin == old(self).begin && self.end == old(self).end && self.emptybuffer == true && self.begin < 0 && self.begin != isize::MIN')],
                          ensures=['self.buffer@ =~= sub(vx_b2, vx_b2.len() + self.begin, vx_b2.len() as int)'],
                          decreases='self.buffer@.len()'),
                  r'0\.\.vx_end3': dict(invariant=[('trim', 'self.buffer@ =~= sub(vx_b3, vx_it.index@ as int, vx_b3.len() as int)'),
                                     ('rest', 'self.inner == vx_inner && self.cursor == vx_cursor && self.begin == old(self).begin && self.end == old(self).end && self.emptybuffer == true && vx_n3 == (if skip < vx_b3.len() { skip as int } else { vx_b3.len() as int }) && vx_end3 == vx_n3')],
                          ensures=['self.buffer@ =~= sub(vx_b3, vx_n3, vx_b3.len() as int)']),
                  r'self\.end\.abs\(\)': dict(invariant=[('trim', 'self.buffer@ =~= sub(vx_b4, 0, vx_b4.len() - vx_it.index@)'),
                                     ('rest', 'self.inner == vx_inner && self.cursor == vx_cursor && self.begin == old(self).begin && self.end == old(self).end && self.emptybuffer == true && self.end < 0 && self.end != isize::MIN')],
                          ensures=['self.buffer@ =~= sub(vx_b4, 0, vx_b4.len() + self.end)'])},
           after=[('} else if let Some(item) = self.inner.next() {', '''let ghost vx_inner = self.inner; let ghost vx_cursor = self.cursor; let ghost vx_buf0 = self.buffer@;
                    let ghost vx_rem0 = vx_pre_inner.remaining();
                    proof { assert(vx_rem0.len() > 0 && vx_rem0[0] == item && self.inner.remaining() == vx_rem0.skip(1)); }'''),
                  ('//we reached the end, no item left in inner iterator', '''let ghost vx_inner = self.inner; let ghost vx_cursor = self.cursor; let ghost vx_buf0 = self.buffer@;
                    proof { assert(vx_pre_inner.remaining().len() == 0); assert(self.inner.remaining() =~= Seq::empty()); if self.begin >= 0 && self.end > 0 { lemma_past_end(self.inner.remaining(), self.cursor as int, self.begin as int, self.end as int); } if !(self.begin >= 0 && self.end >= 0) { lemma_end(vx_buf0, self.cursor as int, self.begin as int, self.end as int); } }'''),
                  ('loop {', 'let ghost vx_pre_inner = self.inner;'),
                  ('//this is the simple case', 'proof { lemma_emit(vx_rem0, self.cursor as int, self.begin as int, self.end as int); }'),
                  ('} else if self.end > 0 && self.cursor >= self.end {', 'proof { lemma_past_end(vx_rem0, self.cursor as int, self.begin as int, self.end as int); lemma_past_end(vx_rem0.skip(1), self.cursor + 1, self.begin as int, self.end as int); }'),
                  ],
),
    ], verus_header='impl<I: Iterator> LimitIter<I>')
    return u

// replay of the defect repaired by /repo commit e662c86 (C07): copy to /repo/tests/ and run it with cargo test; it fails on the parent commit.
// find_text_regex(.., allow_overlap = false): no returned match may overlap an earlier returned match.
use stam::*;

fn store(text: &str) -> AnnotationStore {
    let mut store = AnnotationStore::default();
    store
        .add_resource(TextResourceBuilder::new().with_id("r").with_text(text))
        .unwrap();
    store
}

fn matches<'a>(iter: FindRegexIter<'a, '_>) -> Vec<(usize, usize, String)> {
    iter.map(|m| {
        let t = &m.textselections()[0];
        (t.begin(), t.end(), t.text().to_string())
    })
    .collect()
}

#[test]
fn overlapping_matches_returned_despite_allow_overlap_false() {
    let store = store("pi is 3.14 ok");
    let resource = store.resource("r").unwrap();
    // a tokeniser: decimal numbers first, single digits as fallback
    let expressions = [
        Regex::new(r"[0-9]+\.[0-9]+").unwrap(),
        Regex::new(r"[0-9]").unwrap(),
    ];
    let result = matches(resource.find_text_regex(&expressions, None, false).unwrap());
    assert_eq!(
        result,
        vec![(6, 10, "3.14".to_string())],
        "expected only 3.14@6..10; the digits 1@8..9 and 4@9..10 lie inside it and allow_overlap is false"
    );
}

#[test]
fn overlapping_matches_in_subselection() {
    let store = store("é aaaa é");
    let resource = store.resource("r").unwrap();
    let sub = resource.textselection(&Offset::simple(2, 6)).unwrap();
    let expressions = [Regex::new("aaaa").unwrap(), Regex::new("a").unwrap()];
    let result = matches(sub.find_text_regex(&expressions, None, false).unwrap());
    assert_eq!(
        result,
        vec![(2, 6, "aaaa".to_string())],
        "expected only aaaa@2..6; every single 'a' overlaps it and allow_overlap is false"
    );
}

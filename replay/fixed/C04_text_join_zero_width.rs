// replay of the defect repaired by /repo commit 7e0b12e (C04): copy to /repo/tests/ and run it with cargo test; it fails on the parent commit.
// text_join() loses the delimiter after leading zero-width text selections:
// the joined text of an annotation depends on *where* its empty selections are.
use stam::*;

fn store() -> AnnotationStore {
    let mut store = AnnotationStore::default()
        .with_id("s")
        .with_resource(TextResourceBuilder::new().with_id("r").with_text("abcdef"))
        .unwrap();
    // A: zero-width selection first, then "c"
    store
        .annotate(
            AnnotationBuilder::new()
                .with_id("A")
                .with_data("ds", "k", "v")
                .with_target(SelectorBuilder::DirectionalSelector(vec![
                    SelectorBuilder::textselector("r", Offset::simple(0, 0)),
                    SelectorBuilder::textselector("r", Offset::simple(2, 3)),
                ])),
        )
        .unwrap();
    // B: the same two selections in the other direction
    store
        .annotate(
            AnnotationBuilder::new()
                .with_id("B")
                .with_data("ds", "k", "v")
                .with_target(SelectorBuilder::DirectionalSelector(vec![
                    SelectorBuilder::textselector("r", Offset::simple(2, 3)),
                    SelectorBuilder::textselector("r", Offset::simple(0, 0)),
                ])),
        )
        .unwrap();
    // C: two zero-width selections (given end-aligned) before "ef", in textual order
    store
        .annotate(
            AnnotationBuilder::new()
                .with_id("C")
                .with_data("ds", "k", "v")
                .with_target(SelectorBuilder::MultiSelector(vec![
                    SelectorBuilder::textselector(
                        "r",
                        Offset::new(Cursor::EndAligned(-6), Cursor::EndAligned(-6)),
                    ),
                    SelectorBuilder::textselector(
                        "r",
                        Offset::new(Cursor::EndAligned(-5), Cursor::BeginAligned(1)),
                    ),
                    SelectorBuilder::textselector(
                        "r",
                        Offset::new(Cursor::BeginAligned(4), Cursor::EndAligned(0)),
                    ),
                ])),
        )
        .unwrap();
    store
}

#[test]
fn text_join_keeps_delimiter_after_leading_zero_width_selection() {
    let store = store();
    let a = store.annotation("A").unwrap();
    let parts: Vec<&str> = a.text().collect();
    assert_eq!(parts, vec!["", "c"], "text() yields the two addressed slices");
    assert_eq!(
        a.text_join("|"),
        parts.join("|"),
        "text_join(\"|\") must be the slices of text() joined by the delimiter, i.e. \"|c\""
    );
}

#[test]
fn text_join_does_not_depend_on_position_of_the_empty_selection() {
    let store = store();
    let a = store.annotation("A").unwrap();
    let b = store.annotation("B").unwrap();
    // B (empty selection last) gives "c|" : one delimiter for two selections
    assert_eq!(b.text_join("|"), "c|");
    // A (empty selection first) must have exactly one delimiter too
    assert_eq!(
        a.text_join("|").matches('|').count(),
        1,
        "two text selections are separated by exactly one delimiter, wherever the zero-width one is; got {:?}",
        a.text_join("|")
    );
}

#[test]
fn text_join_several_leading_zero_width_selections() {
    let store = store();
    let c = store.annotation("C").unwrap();
    let parts: Vec<&str> = c.text().collect();
    assert_eq!(parts, vec!["", "", "ef"]);
    assert_eq!(
        c.text_join(" "),
        "  ef",
        "three selections are joined with two delimiters"
    );
    // also via the iterator API on text selections
    assert_eq!(c.textselections().text_join("-"), "--ef");
}

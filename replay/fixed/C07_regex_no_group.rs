// replay of the defect repaired by /repo commit a385918 (C07): copy to /repo/tests/ and run it with cargo test; it fails on the parent commit.
// A regular expression whose capture groups are all optional: a match in which none of the groups
// takes part is reported as a match WITHOUT any text selection, and with allow_overlap=false this
// empty result even suppresses the match of another expression at that place.
use regex::Regex;
use stam::*;

fn store_with(text: &str) -> AnnotationStore {
    let mut store = AnnotationStore::default().with_id("test");
    store
        .insert(TextResource::from_string("r", text, Config::default()))
        .unwrap();
    store
}

#[test]
fn match_without_participating_group_is_located() {
    let text = "éé b ab";
    let store = store_with(text);
    let r = store.resource("r").unwrap();
    let res = [Regex::new("(a)?b").unwrap()];
    // the plain regex finds two matches: "b" at bytes 5..6 (codepoints 3..4) and "ab" (group 1 = "a" at codepoints 5..6)
    let plain: Vec<_> = res[0].find_iter(text).map(|m| m.as_str()).collect();
    assert_eq!(plain, vec!["b", "ab"]);
    let got: Vec<Vec<(usize, usize, &str)>> = r
        .find_text_regex(&res, None, true)
        .unwrap()
        .map(|m| {
            m.textselections()
                .iter()
                .map(|t| (t.begin(), t.end(), t.text()))
                .collect()
        })
        .collect();
    assert_eq!(got.len(), 2, "two matches expected");
    assert_eq!(
        got[1],
        vec![(5, 6, "a")],
        "second match: capture group 1 ('a' at 5..6)"
    );
    assert_eq!(
        got[0],
        vec![(3, 4, "b")],
        "first match: no capture group takes part, the match must still be located (the whole match 'b' at 3..4, as for an expression without groups), not be returned without any text selection"
    );
}

#[test]
fn inside_sub_selection() {
    let store = store_with("éé→ b ab");
    let r = store.resource("r").unwrap();
    let sub = r.textselection(&Offset::simple(3, 8)).unwrap();
    assert_eq!(sub.text(), " b ab");
    let res = [Regex::new("(?:(a)|(x))?b").unwrap()];
    let first = sub.find_text_regex(&res, None, true).unwrap().next().unwrap();
    assert_eq!(
        first.as_str(),
        Some("b"),
        "the first match is 'b' at 4..5, as_str() must give its text"
    );
    assert_eq!(
        first
            .textselections()
            .iter()
            .map(|t| (t.begin(), t.end()))
            .collect::<Vec<_>>(),
        vec![(4, 5)],
        "the first match must be located at 4..5"
    );
}

#[test]
fn empty_result_must_not_hide_other_expression() {
    let store = store_with("é b");
    let r = store.resource("r").unwrap();
    let res = [Regex::new("(a)?b").unwrap(), Regex::new("b").unwrap()];
    let got: Vec<(usize, Vec<(usize, usize)>)> = r
        .find_text_regex(&res, None, false)
        .unwrap()
        .map(|m| {
            (
                m.expression_index(),
                m.textselections()
                    .iter()
                    .map(|t| (t.begin(), t.end()))
                    .collect(),
            )
        })
        .collect();
    let reported: Vec<(usize, usize)> = got.iter().flat_map(|(_, v)| v.iter().copied()).collect();
    assert_eq!(
        reported,
        vec![(2, 3)],
        "both expressions match 'b' at 2..3, without overlap exactly one selection 2..3 must be reported; got {:?}",
        got
    );
}

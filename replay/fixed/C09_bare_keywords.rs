// replay of the defect repaired in /repo (C09, see known_findings.txt): copy to /repo/tests/ and run it with cargo test; before the fix parse("SELECT") panics.
use stam::*;
#[test]
fn bare_keywords_do_not_panic() {
    for q in ["SELECT", "ADD", "DELETE", "SELECT\n", " ADD ", "@x SELECT", "SELECT ANNOTATION ?a WHERE DATA \"s\" \"k\"; } SELECT"] {
        let r = std::panic::catch_unwind(|| Query::parse(q).map(|_| ()));
        println!("{:?} -> {}", q, match &r { Ok(Ok(())) => "Ok".to_string(), Ok(Err(e)) => format!("Err({})", e), Err(_) => "PANIC".to_string() });
        assert!(r.is_ok(), "parse({:?}) panicked", q);
    }
}

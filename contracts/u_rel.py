"""U-rel: the relation tests of src/textselection.rs (TextSelectionOperator, TestTextSelection for
TextSelection and TextSelectionSet, leftmost/rightmost).  Serves C13 (and the oracle of C06)."""
import hashlib
import re
from vx.gen import Unit, Fn
from vx.rustsrc import ExtractError, norm_ws
from . import common

P = ['C13', 'C06']
F = 'src/textselection.rs'

CANON_SCAN = 'gap.chars().all(|c| c.is_whitespace())'


def _gap_repl(mm):
    scan = re.sub(r'\s+', ' ', mm.group(3)).strip()
    if scan == CANON_SCAN:
        return f'vx_gap_is_whitespace(resource, {mm.group(1).strip()}, {mm.group(2).strip()})'
    # a scan that is not textually the canonical whitespace scan gets its own uninterpreted
    # predicate: it is not known to be the predicate the specification talks about
    return f'vx_gap_other_scan(resource, {mm.group(1).strip()}, {mm.group(2).strip()})'


GAP_RW = ('R-outline',
          r'if let Ok\(gap\) =\s*resource\.text_by_offset\(&Offset::simple\(([^,]+),\s*([^)]+)\)\)\s*\{(.*?)\}\s*else\s*\{\s*false\s*\}',
          _gap_repl)

TRUSTED = r'''
/// R-opaque: the resource is only passed on to the whitespace-gap test
#[verifier::external_body]
pub struct TextResource { _opaque: usize }

/// R-outline: stands for
///   if let Ok(gap) = resource.text_by_offset(&Offset::simple(a, b)) { gap.chars().all(|c| c.is_whitespace()) } else { false }
/// Trusted: its result is the uninterpreted predicate gap(resource, a, b).
#[verifier::external_body]
pub fn vx_gap_is_whitespace(resource: &TextResource, a: usize, b: usize) -> (r: bool)
    ensures r == gap(resource, a, b),
{ unimplemented!() }

/// a whitespace-gap scan whose text differs from the canonical one: a different, unknown predicate
pub uninterp spec fn gap_other(res: &TextResource, a: usize, b: usize) -> bool;
#[verifier::external_body]
pub fn vx_gap_other_scan(resource: &TextResource, a: usize, b: usize) -> (r: bool)
    ensures r == gap_other(resource, a, b),
{ unimplemented!() }
'''

DERIVED_EQ = r'''
/// R-derive-eq: `#[derive(PartialEq, Eq)]` on TextSelection, written out; trusted to be structural equality.
impl PartialEq for TextSelection {
    #[verifier::external_body]
    fn eq(&self, other: &Self) -> (r: bool)
        ensures r == (*self == *other),
    {
        self.intid == other.intid && self.begin == other.begin && self.end == other.end
    }
}
impl Eq for TextSelection {}
impl vstd::std_specs::cmp::PartialEqSpecImpl for TextSelection {
    open spec fn obeys_eq_spec() -> bool { true }
    open spec fn eq_spec(&self, other: &Self) -> bool { *self == *other }
}
'''

NEG_DEC = '(if negated(*operator) { 1int } else { 0int })'

# anchors R-wrapiter relies on: TextSelectionSet::iter / TextSelectionSetIter::next
WRAPITER_ITER = "pub fn iter<'a>(&'a self) -> TextSelectionSetIter<'a> { TextSelectionSetIter { iter: self.data.iter(), count: 0, len: self.data.len(), } }"
WRAPITER_NEXT = "fn next(&mut self) -> Option<Self::Item> { self.count += 1; self.iter.next() }"


def check_wrapiter_anchor(u):
    rf = u.rf(F)
    hs, o, c = rf.find_impl('impl TextSelectionSet')
    loc = rf.find_fn('iter', (o, c))
    got = re.sub(r'\s+', ' ', re.sub(r'///[^\n]*\n', '', rf.text[loc['start']:loc['end']])).strip()
    if got != WRAPITER_ITER:
        raise ExtractError(f"R-wrapiter anchor lost: TextSelectionSet::iter changed: {got!r}")
    hs, o, c = rf.find_impl("impl<'a> Iterator for TextSelectionSetIter<'a>")
    loc = rf.find_fn('next', (o, c))
    got = re.sub(r'\s+', ' ', rf.text[loc['start']:loc['end']]).strip()
    if got != WRAPITER_NEXT:
        raise ExtractError(f"R-wrapiter anchor lost: TextSelectionSetIter::next changed: {got!r}")
    u.rewrite_log.append(dict(rule='R-wrapiter-anchor', at=f"{F}:{rf.line_of(loc['start'])}", what='TextSelectionSet::iter / TextSelectionSetIter::next text checked'))


def for_self(var, it):
    """R-wrapiter + R-forname: `for VAR in self.iter()` -> `for VAR in vx_it: self.data.iter()`"""
    return ('R-wrapiter', r'for ' + var + r' in ' + it + r'\.iter\(\)', 'for ' + var + ' in vx_it: ' + it + '.data.iter()')


SET_RW = [
    for_self('item', 'self'),
    ('R-wrapiter', r'\bself\.is_empty\(\)', 'self.data.is_empty()'),
]

# loop invariants for the `for item in self.iter() { if !item.test..(..) { return false; } }` shape
def forall_loop(callspec):
    return dict(invariant=[('prefix', 'forall|i: int| 0 <= i < vx_it.index@ ==> ' + callspec.replace('ITEM', '#[trigger] self.data@[i]'))])


def build():
    u = Unit('u_rel', serves=['C13', 'C06'])
    u.use('use std::cmp::Ordering;')
    common.target64(u)
    check_wrapiter_anchor(u)
    u.item(F, 'struct', 'TextSelectionHandle', keep_derives=['PartialEq', 'Eq', 'Clone', 'Copy', 'PartialOrd', 'Ord'])
    u.item('src/resources.rs', 'struct', 'TextResourceHandle', keep_derives=['PartialEq', 'Eq', 'Clone', 'Copy', 'PartialOrd', 'Ord'])
    u.item(F, 'struct', 'TextSelection', keep_derives=['Clone', 'Copy'])
    u.trusted_text(DERIVED_EQ, 'external_body: #[derive(PartialEq)] on TextSelection is structural equality (R-derive-eq)')
    u.item(F, 'struct', 'TextSelectionSet', keep_derives=['Clone'],
           rewrites=[('R-smallvec', r'SmallVec<\[TextSelection; 1\]>', 'Vec<TextSelection>'),
                     ('R-vis', r'\bdata:', 'pub data:'), ('R-vis', r'\bresource:', 'pub resource:'), ('R-vis', r'\bsorted:', 'pub sorted:')])
    u.item(F, 'enum', 'TextSelectionOperator', keep_derives=['Clone', 'Copy', 'PartialEq'])
    u.trusted_text(TRUSTED, 'external_body TextResource (opaque) and vx_gap_is_whitespace: whitespace-gap scan is the uninterpreted predicate gap(resource,a,b) (R-outline)')
    u.item(F, 'const', 'WHITESPACE_LIMIT', rewrites=[('R-vis', r'^const ', 'pub const ')])
    u.spec_file('specs/relations.rs')
    u.canary('canary_u_rel', '''
/// vacuity guard: false by one token (Before is not its own converse); must FAIL
pub proof fn canary_u_rel(a: TextSelection, b: TextSelection, res: &TextResource)
    ensures rel(TextSelectionOperator::Before { all: false, negate: false, limit: None }, a, b, res)
         == rel(TextSelectionOperator::Before { all: false, negate: false, limit: None }, b, a, res),
{
}
''')

    # ------------------------------------------------------------------ operator modifiers
    same = 'with_mods(r, true, true) == with_mods(*self, true, true)'
    u.impl(F, 'impl TextSelectionOperator', [
        Fn('all', props=P, ret='r', ensures=[('is_all', 'r == is_all(*self)')]),
        Fn('negate', props=P, ret='r', ensures=[('negated', 'r == negated(*self)')]),
        Fn('toggle_negate', props=P, ret='r',
           ensures=[('flips_negate', 'negated(r) == !negated(*self)'), ('keeps_all', 'is_all(r) == is_all(*self)'),
                    ('keeps_rest', same), ('exact', 'r == with_mods(*self, is_all(*self), !negated(*self))')]),
        Fn('toggle_all', props=P, ret='r',
           ensures=[('flips_all', 'is_all(r) == !is_all(*self)'), ('keeps_negate', 'negated(r) == negated(*self)'),
                    ('keeps_rest', same), ('exact', 'r == with_mods(*self, !is_all(*self), negated(*self))')]),
        Fn('with_limit', props=P, ret='r',
           ensures=[('keeps_mods', 'negated(r) == negated(self) && is_all(r) == is_all(self)'),
                    ('sets_limit', '''match self {
                        TextSelectionOperator::Embedded { all, negate, .. } => r == TextSelectionOperator::Embedded { all, negate, limit: Some(limit) },
                        TextSelectionOperator::Before { all, negate, .. } => r == TextSelectionOperator::Before { all, negate, limit: Some(limit) },
                        TextSelectionOperator::After { all, negate, .. } => r == TextSelectionOperator::After { all, negate, limit: Some(limit) },
                        _ => r == self }''')]),
    ])

    # ------------------------------------------------------------------ TextSelectionSet helpers
    u.spec(r'''
impl TextSelectionSet {
    /// representation invariant: the `sorted` flag implies order by begin
    pub open spec fn inv(&self) -> bool {
        self.sorted ==> forall|i: int, j: int| 0 <= i <= j < self.data@.len() ==> self.data@[i].begin <= self.data@[j].begin
    }
}
''', 'contracts/u_rel.py:inv')
    u.impl(F, 'impl TextSelection', [
        Fn('begin', props=P, ret='r', ensures=[('begin', 'r == self.begin')]),
        Fn('end', props=P, ret='r', ensures=[('end', 'r == self.end')]),
    ])
    u.impl(F, 'impl TextSelectionSet', [
        Fn('len', props=P, ret='r', ensures=[('len', 'r == self.data@.len()')]),
        Fn('is_empty', props=P, ret='r', ensures=[('empty', 'r == (self.data@.len() == 0)')]),
        Fn('leftmost', props=P, ret='r', rewrites=SET_RW,
           requires=[('inv', 'self.inv()')],
           ensures=[('some_iff', 'r.is_some() == (self.data@.len() > 0)'),
                    ('member', 'r.is_some() ==> self.data@.contains(*r.unwrap())'),
                    ('min_begin', 'r.is_some() ==> r.unwrap().begin == min_begin(self.data@)')],
           loops={0: dict(invariant=[
               ('none_iff', 'leftmost.is_none() == (vx_it.index@ == 0)'),
               ('member', 'leftmost.is_some() ==> exists|k: int| 0 <= k < vx_it.index@ && self.data@[k] == *leftmost.unwrap()'),
               ('lower', 'leftmost.is_some() ==> forall|k: int| 0 <= k < vx_it.index@ ==> leftmost.unwrap().begin <= #[trigger] self.data@[k].begin'),
           ])},
           before=[('self.data.get(0)', 'proof { assert(is_min_begin(self.data@, self.data@[0].begin as int)); lemma_min_unique(self.data@, self.data@[0].begin as int); }'),
                   (r're:(?m)^ +leftmost\n', 'proof { if leftmost.is_some() { let w = choose|k: int| 0 <= k < self.data@.len() && self.data@[k] == *leftmost.unwrap(); assert(self.data@[w].begin == leftmost.unwrap().begin); assert(is_min_begin(self.data@, leftmost.unwrap().begin as int)); lemma_min_unique(self.data@, leftmost.unwrap().begin as int); } }')],
           ),
        Fn('rightmost', props=P, ret='r', rewrites=SET_RW,
           ensures=[('some_iff', 'r.is_some() == (self.data@.len() > 0)'),
                    ('member', 'r.is_some() ==> self.data@.contains(*r.unwrap())'),
                    ('max_end', 'r.is_some() ==> r.unwrap().end == max_end(self.data@)')],
           loops={0: dict(invariant=[
               ('none_iff', 'rightmost.is_none() == (vx_it.index@ == 0)'),
               ('member', 'rightmost.is_some() ==> exists|k: int| 0 <= k < vx_it.index@ && self.data@[k] == *rightmost.unwrap()'),
               ('upper', 'rightmost.is_some() ==> forall|k: int| 0 <= k < vx_it.index@ ==> rightmost.unwrap().end >= #[trigger] self.data@[k].end'),
           ])},
           before=[(r're:(?m)^ +rightmost\n', 'proof { if rightmost.is_some() { let w = choose|k: int| 0 <= k < self.data@.len() && self.data@[k] == *rightmost.unwrap(); assert(self.data@[w].end == rightmost.unwrap().end); assert(is_max_end(self.data@, rightmost.unwrap().end as int)); lemma_max_unique(self.data@, rightmost.unwrap().end as int); } }')]),
    ])

    # ------------------------------------------------------------------ the four relation tests
    # R-inherent: `impl TestTextSelection for X` is emitted as `impl X` (trait membership dropped;
    # Verus would otherwise need the requires on the trait declaration).
    REF_RW = ('R-wrapiter', r'for reftextsel in refset\.iter\(\)', 'for reftextsel in vx_it: refset.data.iter()')
    OTHER_RW = ('R-wrapiter', r'for other in refset\.iter\(\)', 'for other in vx_it: refset.data.iter()')
    REFSET_EMPTY = ('R-wrapiter', r'\brefset\.is_empty\(\)', 'refset.data.is_empty()')
    u.impl(F, 'impl TestTextSelection for TextSelection', [
        Fn('test', props=P, ret='r', rewrites=[GAP_RW],
           requires=[('wf_self', 'wf(*self)'), ('wf_ref', 'wf(*reftextsel)')],
           ensures=[('equals_spec', 'r == rel(*operator, *self, *reftextsel, resource)')],
           decreases=NEG_DEC),
        Fn('test_set', props=P, ret='r', rewrites=[GAP_RW, REF_RW, OTHER_RW, REFSET_EMPTY,
                                                   ('R-typeann', r'let mut leftmost = None;', 'let mut leftmost: Option<usize> = None;'),
                                                   ('R-typeann', r'let mut rightmost = None;', 'let mut rightmost: Option<usize> = None;')],
           requires=[('wf_self', 'wf(*self)'), ('wf_ref', 'set_wf(refset.data@)'), ('inv_ref', 'refset.inv()')],
           ensures=[('equals_spec', 'r == s1(*operator, *self, refset.data@, resource)')],
           decreases=NEG_DEC,
           loops={
               0: dict(invariant=[('none_so_far', 'forall|j: int| 0 <= j < vx_it.index@ ==> !rel_pos(*operator, *self, #[trigger] refset.data@[j], resource)'),
                                  ('shape', '!negated(*operator) && !(operator is SameRange) && (is_all(*operator) ==> (operator is Equals || operator is InSet))'),
                                  ('wf', 'wf(*self) && set_wf(refset.data@)')]),
               1: dict(invariant=[('all_so_far', 'forall|j: int| 0 <= j < vx_it.index@ ==> rel_pos(*operator, *self, #[trigger] refset.data@[j], resource)'),
                                  ('shape', 'is_all(*operator) && !negated(*operator) && (operator is Overlaps || operator is Embeds || operator is Embedded || operator is Before || operator is After)'),
                                  ('wf', 'wf(*self) && set_wf(refset.data@)')]),
               2: dict(invariant=[('none_iff', 'leftmost.is_none() == (vx_it.index@ == 0)'),
                                  ('member', 'leftmost.is_some() ==> exists|k: int| 0 <= k < vx_it.index@ && #[trigger] refset.data@[k].begin == leftmost.unwrap()'),
                                  ('lower', 'leftmost.is_some() ==> forall|k: int| 0 <= k < vx_it.index@ ==> leftmost.unwrap() <= #[trigger] refset.data@[k].begin')]),
               3: dict(invariant=[('none_iff', 'rightmost.is_none() == (vx_it.index@ == 0)'),
                                  ('member', 'rightmost.is_some() ==> exists|k: int| 0 <= k < vx_it.index@ && #[trigger] refset.data@[k].end == rightmost.unwrap()'),
                                  ('upper', 'rightmost.is_some() ==> forall|k: int| 0 <= k < vx_it.index@ ==> rightmost.unwrap() >= #[trigger] refset.data@[k].end')]),
           },
           before=[('if !allow_whitespace {\n                    Some(self.end) == leftmost', 'proof { assert(is_min_begin(refset.data@, leftmost.unwrap() as int)); lemma_min_unique(refset.data@, leftmost.unwrap() as int); }'),
                   ('if !allow_whitespace {\n                    Some(self.begin) == rightmost', 'proof { assert(is_max_end(refset.data@, rightmost.unwrap() as int)); lemma_max_unique(refset.data@, rightmost.unwrap() as int); }')],
           ),
    ], verus_header='impl TextSelection')

    def loop_t(shape):
        return dict(invariant=[('prefix', 'forall|i: int| 0 <= i < vx_it.index@ ==> rel_pos(*operator, #[trigger] self.data@[i], *reftextsel, resource)'),
                               ('shape', shape),
                               ('wf', 'set_wf(self.data@) && wf(*reftextsel)')])

    def loop_s(shape):
        return dict(invariant=[('prefix', 'forall|i: int| 0 <= i < vx_it.index@ ==> s1_pos(*operator, #[trigger] self.data@[i], refset.data@, resource)'),
                               ('shape', shape),
                               ('wf', 'set_wf(self.data@) && set_wf(refset.data@) && refset.inv()')])
    NOT_BOUND = '!negated(*operator) && !subject_by_bound(*operator)'
    SET_RW2 = SET_RW + [('R-wrapiter', r'\bself\.len\(\) != refset\.len\(\)', 'self.data.len() != refset.data.len()'), REFSET_EMPTY]
    BOUND_HINT = 'proof { lemma_min_begin(self.data@); lemma_max_end(self.data@); }'
    u.impl(F, 'impl TestTextSelection for TextSelectionSet', [
        Fn('test', props=P, ret='r', rewrites=SET_RW,
           requires=[('wf_self', 'set_wf(self.data@)'), ('inv_self', 'self.inv()'), ('wf_ref', 'wf(*reftextsel)')],
           ensures=[('equals_spec', 'r == t1(*operator, self.data@, *reftextsel, resource)')],
           decreases=NEG_DEC,
           prologue=BOUND_HINT if False else None,
           loops={0: loop_t(NOT_BOUND), 1: loop_t(NOT_BOUND), 2: loop_t(NOT_BOUND)}),
        Fn('test_set', props=P, ret='r', rewrites=SET_RW2,
           requires=[('wf_self', 'set_wf(self.data@)'), ('inv_self', 'self.inv()'), ('wf_ref', 'set_wf(refset.data@)'), ('inv_ref', 'refset.inv()')],
           ensures=[('equals_spec', 'r == s2(*operator, self.data@, refset.data@, resource)')],
           decreases=NEG_DEC,
           loops={0: loop_s(NOT_BOUND + ' && self.data@.len() == refset.data@.len()'), 1: loop_s(NOT_BOUND + ' && !(operator is Equals)'), 2: loop_s(NOT_BOUND + ' && !(operator is Equals)')}),
    ], verus_header='impl TextSelectionSet')
    return u
